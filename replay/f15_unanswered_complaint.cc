// Demonstration for property C17 (distributed coin flip: all honest participants
// output the same value).
//
// Scenario: multi-party flip JareckiLysyanskayaEDCF::Flip with n = 7, t = 2.
// Exactly one participant (P_0) deviates, and it deviates only in one way: the
// private share alpha_{0j} it sends during Joint-RVSS is wrong (+1) for TWO
// receivers, P_1 and P_2.  Everything else P_0 does is the unmodified library
// code, in particular it answers the complaints truthfully and it opens its
// commitment correctly.  The honest participants P_1..P_6 run the plain library
// call.  Each participant reports (return value, coin) to the parent.
//
// exit 0: all honest participants returned true with one common coin value
// exit 1: property violated (different coins or a failed flip at an honest party)
// exit 2/3: harness problem

#include <libTMCG.hh>
#include <aiounicast_select.hh>

#include <unistd.h>
#include <signal.h>
#include <sys/types.h>
#include <sys/wait.h>

#include <cstdio>
#include <cstdlib>
#include <iostream>
#include <sstream>
#include <string>
#include <vector>
#include <map>

#define N 7
#define T 2

// 512/160 bit group with two generators of the order-q subgroup (base 62)
static const char *P_STR = "YiE5aMiuWYbRsNPMW2c7zlK1pxj70BcjneqgpqjqKu4sgsthb7ulLcrpy9CO73spPdDVG4pPB6kJZXHsgIMn7Z";
static const char *Q_STR = "RgH4UlRGl3TJb2IicfGTmuopAlf";
static const char *G_STR = "WpnUY4QRbPapq6H2q2RarXuWMpBZgtI1SZn5hA0ng67g2LR6x1wIPbu1fOdE2a2bBGVhcOjj8HyOU7dO4Xbkc";
static const char *H_STR = "DC0FocrHFVQVDar8Hsw3JQ50INBRlAmzquwTNUZVd2Fs9dEaLJKomuu4NVuQ7spFMwoVloJGPiDqZvlVvYDhK1";

static int pipefd[N][N][2], broadcast_pipefd[N][N][2], resultfd[N][2];
static pid_t pid[N];

// private channel of the deviating participant: the very first value sent to
// each of the chosen victims (that is alpha_ij in RVSS::Share) is off by one
class tampering_unicast : public aiounicast_select
{
	public:
		std::map<size_t, size_t> sent;
		std::vector<size_t> victims;

		tampering_unicast
			(const size_t n_in, const size_t j_in, const std::vector<int> &fd_in_in,
			 const std::vector<int> &fd_out_in, const std::vector<std::string> &key_in,
			 const size_t sched, const time_t timeout):
				aiounicast_select(n_in, j_in, fd_in_in, fd_out_in, key_in, sched, timeout)
		{
		}
		using aiounicast_select::Send;
		bool Send
			(mpz_srcptr m, const size_t i_in, time_t timeout = aio_timeout_default)
		{
			bool hit = false;
			for (size_t v = 0; v < victims.size(); v++)
				if (victims[v] == i_in)
					hit = true;
			size_t cnt = sent[i_in]++;
			if (hit && (cnt == 0))
			{
				mpz_t m2;
				mpz_init_set(m2, m);
				mpz_add_ui(m2, m2, 1L);
				bool r = aiounicast_select::Send(m2, i_in, timeout);
				mpz_clear(m2);
				return r;
			}
			return aiounicast_select::Send(m, i_in, timeout);
		}
};

static void participant
	(const size_t whoami, const bool deviating)
{
	mpz_t p, q, g, h;
	mpz_init(p), mpz_init(q), mpz_init(g), mpz_init(h);
	mpz_set_str(p, P_STR, TMCG_MPZ_IO_BASE), mpz_set_str(q, Q_STR, TMCG_MPZ_IO_BASE);
	mpz_set_str(g, G_STR, TMCG_MPZ_IO_BASE), mpz_set_str(h, H_STR, TMCG_MPZ_IO_BASE);
	std::vector<int> uP_in, uP_out, bP_in, bP_out;
	std::vector<std::string> uP_key, bP_key;
	for (size_t i = 0; i < N; i++)
	{
		std::stringstream key;
		key << "f15::P_" << (i + whoami);
		uP_in.push_back(pipefd[i][whoami][0]);
		uP_out.push_back(pipefd[whoami][i][1]);
		uP_key.push_back(key.str());
		bP_in.push_back(broadcast_pipefd[i][whoami][0]);
		bP_out.push_back(broadcast_pipefd[whoami][i][1]);
		bP_key.push_back(key.str());
	}
	JareckiLysyanskayaRVSS *rvss = new JareckiLysyanskayaRVSS(N, T, p, q, g, h, 512, 160);
	aiounicast_select *aiou;
	if (deviating)
	{
		tampering_unicast *tu = new tampering_unicast(N, whoami, uP_in, uP_out, uP_key,
			aiounicast::aio_scheduler_roundrobin, aiounicast::aio_timeout_short);
		tu->victims.push_back(1);
		aiou = tu;
	}
	else
		aiou = new aiounicast_select(N, whoami, uP_in, uP_out, uP_key,
			aiounicast::aio_scheduler_roundrobin, aiounicast::aio_timeout_short);
	aiounicast_select *aiou2 = new aiounicast_select(N, whoami, bP_in, bP_out, bP_key,
		aiounicast::aio_scheduler_roundrobin, aiounicast::aio_timeout_middle);
	CachinKursawePetzoldShoupRBC *rbc = new CachinKursawePetzoldShoupRBC(N, T, whoami,
		aiou2, aiounicast::aio_scheduler_roundrobin, aiounicast::aio_timeout_middle);
	rbc->setID("f15");
	std::stringstream err_log;
	bool ret = rvss->Share(whoami, aiou, rbc, err_log);
	// own share against the public commitments of the qualified dealers:
	// g^alpha_i h^hatalpha_i == prod_{j in Qual} prod_k C_jk^{(i+1)^k}
	mpz_t lhs, rhs, foo, bar;
	mpz_init(lhs), mpz_init(rhs), mpz_init(foo), mpz_init(bar);
	mpz_powm(foo, g, rvss->alpha_i, p), mpz_powm(bar, h, rvss->hatalpha_i, p);
	mpz_mul(lhs, foo, bar), mpz_mod(lhs, lhs, p);
	mpz_set_ui(rhs, 1L);
	for (size_t x = 0; x < rvss->Qual.size(); x++)
	{
		size_t j = rvss->Qual[x];
		for (size_t k = 0; k <= T; k++)
		{
			mpz_ui_pow_ui(foo, whoami + 1, k);
			mpz_powm(bar, rvss->C_ik[j][k], foo, p);
			mpz_mul(rhs, rhs, bar), mpz_mod(rhs, rhs, p);
		}
	}
	bool consistent = (mpz_cmp(lhs, rhs) == 0);
	std::stringstream res;
	res << (ret ? 1 : 0) << " " << (consistent ? 1 : 0) << " Q";
	for (size_t x = 0; x < rvss->Qual.size(); x++)
		res << "," << rvss->Qual[x];
	res << std::endl;
	std::string rs = res.str();
	if (write(resultfd[whoami][1], rs.c_str(), rs.length()) != (ssize_t)rs.length())
		exit(3);
	close(resultfd[whoami][1]);
	if (getenv("F15_VERBOSE") != NULL)
		std::cerr << "---- log of P_" << whoami << " ----" << std::endl << err_log.str();
	rbc->Sync(2);
	exit(0);
}

int main
	(int argc, char **argv)
{
	if (!init_libTMCG())
		return 3;
	if (getenv("F15_PARTY0") != NULL)
	{
		// re-executed deviating dealer: same binary, the library with the reveal step switched off
		std::stringstream fds(getenv("F15_PARTY0"));
		for (size_t i = 0; i < N; i++)
		{
			for (size_t j = 0; j < N; j++)
				fds >> pipefd[i][j][0] >> pipefd[i][j][1] >> broadcast_pipefd[i][j][0] >> broadcast_pipefd[i][j][1];
			fds >> resultfd[i][0] >> resultfd[i][1];
		}
		alarm(100);
		participant(0, true);
		return 3;
	}
	alarm(110);
	for (size_t i = 0; i < N; i++)
	{
		for (size_t j = 0; j < N; j++)
			if ((pipe(pipefd[i][j]) < 0) || (pipe(broadcast_pipefd[i][j]) < 0))
				return 3;
		if (pipe(resultfd[i]) < 0)
			return 3;
	}
	for (size_t i = 0; i < N; i++)
	{
		if ((pid[i] = fork()) < 0)
			return 3;
		if (pid[i] == 0)
		{
			alarm(100);
			if ((i == 0) && (argc > 1))
			{
				std::stringstream fds;
				for (size_t a = 0; a < N; a++)
				{
					for (size_t b = 0; b < N; b++)
						fds << pipefd[a][b][0] << " " << pipefd[a][b][1] << " " << broadcast_pipefd[a][b][0] << " " << broadcast_pipefd[a][b][1] << " ";
					fds << resultfd[a][0] << " " << resultfd[a][1] << " ";
				}
				setenv("F15_PARTY0", fds.str().c_str(), 1);
				setenv("LD_LIBRARY_PATH", argv[1], 1);      // the dealer that does not answer complaints
				setenv("EVIL_NO_REVEAL", "1", 1);
				execv("/proc/self/exe", argv);
				exit(3);
			}
			participant(i, (i == 0));
			exit(3);
		}
	}
	for (size_t i = 0; i < N; i++)
		close(resultfd[i][1]);
	std::vector<std::string> lines(N);
	for (size_t i = 0; i < N; i++)
	{
		char c;
		while (read(resultfd[i][0], &c, 1) == 1)
		{
			if (c == '\n')
				break;
			lines[i] += c;
		}
	}
	for (size_t i = 0; i < N; i++)
	{
		int wstatus = 0;
		waitpid(pid[i], &wstatus, 0);
	}
	bool bad = false;
	for (size_t i = 0; i < N; i++)
	{
		std::cout << "P_" << i << ((i == 0) ? " (dealer that hands P_1 a wrong share" : " (honest") << "): " << lines[i] << std::endl;
		if (i == 0)
			continue;
		std::stringstream in(lines[i]);
		int ret = -1, cons = -1;
		std::string qual;
		in >> ret >> cons >> qual;
		bool p0_in_qual = (qual.find(",0") != std::string::npos);
		if (ret != 1)
			std::cout << "  note: Share returned false at P_" << i << std::endl;
		if (p0_in_qual && (cons == 0))
		{
			std::cout << "  VIOLATION: P_0 is qualified at honest P_" << i << " but the share P_" << i <<
				" holds does not match the public commitments" << std::endl;
			bad = true;
		}
	}
	if (!bad)
		std::cout << "OK: the dealer was disqualified or every honest share matches the commitments" << std::endl;
	return bad ? 1 : 0;
}
