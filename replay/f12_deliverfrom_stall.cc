// NOT the demonstration of the seeded change (that is demo.cc).
// Supporting evidence only: deterministic reproduction of the pre-existing
// t-seabp flake "(round 3a) got nothing from 0" -- DeliverFrom() spins until
// the timeout if the per-sender buffer holds only values of another channel.
// Behaves identically (exit 1, "TIMEOUT") with and without the seeded change.

#include <cstdio>
#include <cstdlib>
#include <deque>
#include <map>
#include <string>
#include <vector>
#include <functional>
#include <iostream>

#include <libTMCG.hh>
#include <aiounicast.hh>
#include <CachinKursawePetzoldShoupSEABP.hh>

struct Msg
{
	size_t from, to;
	std::vector<std::string> f; // fields as decimal strings
	unsigned long ui(size_t k) const { return strtoul(f[k].c_str(), NULL, 10); }
};

struct Net
{
	std::deque<Msg> flight;
	std::vector< std::deque<Msg> > inbox;
	std::function<bool(const Msg&)> drop;
	size_t dropped;
	Net(size_t n): inbox(n), dropped(0) {}
};

class MemUnicast : public aiounicast
{
	Net &net;
	public:
		MemUnicast(size_t n_in, size_t j_in, Net &net_in):
			aiounicast(n_in, j_in, aio_scheduler_roundrobin, aio_timeout_none,
				false, false, false), net(net_in) {}
		virtual bool Send(mpz_srcptr m, const size_t i_in, const time_t)
		{
			std::vector<mpz_srcptr> v;
			v.push_back(m);
			return Send(v, i_in, 0);
		}
		virtual bool Send(const std::vector<mpz_srcptr> &m, const size_t i_in,
			const time_t)
		{
			if (i_in >= n)
				return false;
			Msg x;
			x.from = j, x.to = i_in;
			for (size_t k = 0; k < m.size(); k++)
			{
				char *s = mpz_get_str(NULL, 10, m[k]);
				x.f.push_back(s);
				free(s);
			}
			numWrite++;
			if (net.drop && net.drop(x))
			{
				net.dropped++;
				return true; // the (faulty) sender does not notice
			}
			net.flight.push_back(x);
			return true;
		}
		virtual bool Receive(mpz_ptr, size_t&, const size_t, const time_t)
		{
			return false;
		}
		virtual bool Receive(std::vector<mpz_ptr> &m, size_t &i_out,
			const size_t, const time_t)
		{
			if (net.inbox[j].empty())
				return false;
			Msg x = net.inbox[j].front();
			net.inbox[j].pop_front();
			if (x.f.size() != m.size())
				return false;
			for (size_t k = 0; k < m.size(); k++)
				mpz_set_str(m[k], x.f[k].c_str(), 10);
			i_out = x.from;
			numRead++;
			return true;
		}
		virtual void Reset(const size_t, const bool) {}
};

struct World
{
	size_t n, t;
	Net net;
	std::vector<MemUnicast*> aio;
	std::vector<CachinKursawePetzoldShoupRBC*> rbc;
	// delivered[p][sender] = values in delivery order
	std::vector< std::map<size_t, std::vector<unsigned long> > > delivered;
	World(size_t n_in, size_t t_in): n(n_in), t(t_in), net(n_in),
		delivered(n_in)
	{
		for (size_t i = 0; i < n; i++)
		{
			aio.push_back(new MemUnicast(n, i, net));
			rbc.push_back(new CachinKursawePetzoldShoupRBC(n, t, i, aio[i],
				aiounicast::aio_scheduler_roundrobin,
				aiounicast::aio_timeout_none));
			rbc[i]->setID("c14c demo", true); // FIFO channel
		}
	}
	~World()
	{
		for (size_t i = 0; i < n; i++)
		{
			delete rbc[i];
			delete aio[i];
		}
	}
	void bcast(size_t p, unsigned long v)
	{
		mpz_t m;
		mpz_init_set_ui(m, v);
		rbc[p]->Broadcast(m);
		mpz_clear(m);
	}
	// one protocol step of party p (at most one message consumed)
	bool step(size_t p)
	{
		mpz_t m;
		mpz_init(m);
		size_t l = n;
		bool ok = rbc[p]->Deliver(m, l, aiounicast::aio_scheduler_roundrobin,
			aiounicast::aio_timeout_none);
		if (ok)
		{
			delivered[p][l].push_back(mpz_get_ui(m));
			std::cout << "    P" << p << " delivers " << mpz_get_ui(m) <<
				" from P" << l << " (slot " << delivered[p][l].size() << ")" <<
				std::endl;
		}
		mpz_clear(m);
		return ok;
	}
	// hand over all messages in global FIFO order until nothing is in flight
	// and an idle round of all parties produces no new traffic
	// returns true, if quiescence has been reached within the bound
	bool run(size_t max_steps)
	{
		size_t steps = 0;
		while (steps < max_steps)
		{
			if (!net.flight.empty())
			{
				Msg x = net.flight.front();
				net.flight.pop_front();
				net.inbox[x.to].push_back(x);
				steps++;
				do
					step(x.to);
				while (!net.inbox[x.to].empty());
				while (step(x.to))
					; // drain the FIFO buffer
			}
			else
			{
				bool progress = false;
				for (size_t p = 0; p < n; p++)
				{
					if (step(p))
						progress = true;
				}
				steps++;
				if (!progress && net.flight.empty())
					return true;
			}
		}
		return false;
	}
};


int main()
{
	if (!init_libTMCG())
		return 2;
	World w(4, 1); // all honest, all in channel "c14c demo" (= main protocol)
	// P0 is ahead of the others (like in t-seabp round 3a/3b)
	w.rbc[0]->setID("special");
	w.bcast(0, 7);          // round 3a inside special channel
	w.rbc[0]->unsetID();
	w.bcast(0, 8);          // round 3b in main channel
	// the others are still in the main channel; P3 is waiting for P1 there
	size_t steps = 0;
	mpz_t a;
	mpz_init(a);
	while (steps++ < 100000)
	{
		if (!w.net.flight.empty())
		{
			Msg x = w.net.flight.front();
			w.net.flight.pop_front();
			w.net.inbox[x.to].push_back(x);
			if (x.to == 3)
			{
				do
					w.rbc[3]->DeliverFrom(a, 1, aiounicast::aio_scheduler_roundrobin, 0);
				while (!w.net.inbox[3].empty());
			}
			else
			{
				do
					w.step(x.to);
				while (!w.net.inbox[x.to].empty());
			}
		}
		else
			break;
	}
	for (size_t k = 0; k < 5; k++)
		w.rbc[3]->DeliverFrom(a, 1, aiounicast::aio_scheduler_roundrobin, 0);
	std::cout << "network drained; P3 now enters the special channel" << std::endl;
	w.rbc[3]->setID("special");
	bool ok = w.rbc[3]->DeliverFrom(a, 0, aiounicast::aio_scheduler_roundrobin, 2);
	std::cout << "P3 DeliverFrom(P0) in special channel: " <<
		(ok ? "delivered" : "TIMEOUT (got nothing)") << std::endl;
	mpz_clear(a);
	return ok ? 0 : 1;
}
