// replay F16: stream-constructed PedersenVSS with a negated subgroup order q -> CheckGroup()
#include <libTMCG.hh>
#include <sstream>
#include <iostream>
#include <unistd.h>
#include <sys/wait.h>
static int probe(const std::string &state, const char *what)
{
	pid_t pid = fork();
	if (pid == 0)
	{
		std::stringstream in(state);
		try
		{
			PedersenVSS *v = new PedersenVSS(in, 512, 160);
			bool ok = v->CheckGroup();
			_exit(ok ? 10 : 11);
		}
		catch (std::exception &e)
		{
			_exit(12);
		}
	}
	int st = 0;
	waitpid(pid, &st, 0);
	if (WIFSIGNALED(st))
	{
		std::cout << what << ": process killed by signal " << WTERMSIG(st) << std::endl;
		return 1;
	}
	std::cout << what << ": " << (WEXITSTATUS(st) == 10 ? "CheckGroup() = true" : WEXITSTATUS(st) == 11 ? "CheckGroup() = false" : "exception") << std::endl;
	return 0;
}
int main()
{
	if (!init_libTMCG()) return 2;
	BarnettSmartVTMF_dlog *grp = new BarnettSmartVTMF_dlog(512, 160);
	mpz_t h; mpz_init(h);
	mpz_powm_ui(h, grp->g, 7UL, grp->p);
	PedersenVSS *vss = new PedersenVSS(3, 1, 0, grp->p, grp->q, grp->g, h, 512, 160);
	std::stringstream st;
	vss->PublishState(st);
	int bad = probe(st.str(), "published state as is");
	// the same state with the second line (q) negated and g replaced by a value whose inverse is needed
	std::string s = st.str();
	size_t l1 = s.find('\n'), l2 = s.find('\n', l1 + 1), l3 = s.find('\n', l2 + 1);
	std::string neg = s.substr(0, l1 + 1) + "-" + s.substr(l1 + 1);
	bad += probe(neg, "q negated");
	std::string neg0 = s.substr(0, l1 + 1) + "-" + s.substr(l1 + 1, l2 - l1) + "0\n" + s.substr(l3 + 1);
	bad += probe(neg0, "q negated, g = 0");
	std::string neg1 = s.substr(0, l1 + 1) + "-" + s.substr(l1 + 1, l2 - l1) + "1\n" + s.substr(l3 + 1);
	bad += probe(neg1, "q negated, g = 1");
	std::cout << (bad ? "VIOLATION: the validity check of a stream-constructed object kills the process" : "ok") << std::endl;
	return bad ? 1 : 0;
}
