// Demo for property C14 (reliable broadcast): channel separation.
//
// Four honest parties (n = 4, t = 1) talk through an in-memory implementation
// of the abstract unicast interface; the harness decides which link hands over
// its next message (per-link FIFO order is always respected).  Every call of
// Deliver() with timeout 0 processes at most one message.
//
// Schedule:
//   - all parties open channel A in non-FIFO mode, P0 broadcasts v on A
//   - P0, P1, P2 complete the broadcast among themselves and deliver v
//   - the link P0 -> P3 is slow: P3 sees echo+ready of P1 and P2, relays the
//     ready (t+1 rule), reaches the 2t+1 ready quorum WITHOUT the payload and
//     therefore sends r-request
//   - P3 gives up waiting and opens the nested channel B (all others follow)
//   - now the r-answer for the channel-A broadcast reaches P3
// Expected: on channel B party P3 delivers nothing but what was broadcast on B
// (later: w from P1).  After returning to channel A, P3 gets v from P0.
//
// exit 0 = property holds, 1 = breakage observed, 2 = schedule did not unfold
// as intended (harness problem).

#include <cstdio>
#include <cstdlib>
#include <deque>
#include <string>
#include <vector>
#include <iostream>
#include <libTMCG.hh>
#include <aiounicast.hh>
#include <CachinKursawePetzoldShoupSEABP.hh>

static const size_t N = 4, T = 1;

typedef std::vector<std::string> wire_msg; // 5 numbers in base 10

struct Net
{
	std::deque<wire_msg> q[N][N]; // q[from][to]
	bool empty() const
	{
		for (size_t a = 0; a < N; a++)
			for (size_t b = 0; b < N; b++)
				if (!q[a][b].empty())
					return false;
		return true;
	}
};

class MemUnicast : public aiounicast
{
	public:
		Net *net;
		size_t pick; // link to read from at the next Receive(); N = none
		MemUnicast(size_t n_in, size_t j_in, Net *net_in):
			aiounicast(n_in, j_in, aio_scheduler_direct, aio_timeout_none,
				false, false, false), net(net_in), pick(N)
		{
		}
		virtual bool Send(mpz_srcptr m, const size_t i_in, const time_t)
		{
			std::vector<mpz_srcptr> v;
			v.push_back(m);
			return Send(v, i_in, 0);
		}
		virtual bool Send(const std::vector<mpz_srcptr> &m, const size_t i_in,
			const time_t)
		{
			if (i_in >= n)
				return false;
			wire_msg w;
			for (size_t k = 0; k < m.size(); k++)
			{
				char *s = mpz_get_str(NULL, 10, m[k]);
				w.push_back(s);
				free(s);
			}
			net->q[j][i_in].push_back(w);
			numWrite++;
			return true;
		}
		virtual bool Receive(mpz_ptr, size_t &i_out, const size_t, const time_t)
		{
			i_out = n;
			return false; // not used by the broadcast class
		}
		virtual bool Receive(std::vector<mpz_ptr> &m, size_t &i_out,
			const size_t, const time_t)
		{
			i_out = n;
			if ((pick >= n) || net->q[pick][j].empty())
				return false;
			wire_msg w = net->q[pick][j].front();
			if (w.size() != m.size())
				return false;
			net->q[pick][j].pop_front();
			for (size_t k = 0; k < m.size(); k++)
				mpz_set_str(m[k], w[k].c_str(), 10);
			i_out = pick;
			pick = n;
			numRead++;
			return true;
		}
		virtual void Reset(const size_t, const bool)
		{
		}
};

struct Delivery
{
	std::string chan;
	size_t sender;
	unsigned long value;
};

static Net net;
static MemUnicast *aio[N];
static CachinKursawePetzoldShoupRBC *rbc[N];
static std::string chan[N];           // channel the party is currently on
static std::vector<Delivery> got[N];  // everything Deliver() handed out

// hand the next message on link from -> p over to party p (one Deliver step)
static bool step(size_t p, size_t from)
{
	if (net.q[from][p].empty())
		return false;
	mpz_t m;
	mpz_init(m);
	size_t who = N;
	aio[p]->pick = from;
	bool d = rbc[p]->Deliver(m, who, aiounicast::aio_scheduler_direct, 0);
	aio[p]->pick = N;
	if (d)
	{
		Delivery x;
		x.chan = chan[p], x.sender = who, x.value = mpz_get_ui(m);
		got[p].push_back(x);
		std::cout << "  P" << p << " on channel " << chan[p] << " delivers " <<
			x.value << " from P" << who << std::endl;
	}
	mpz_clear(m);
	return true;
}

// a Deliver step without handing over anything (drains internal buffers)
static void idle(size_t p)
{
	mpz_t m;
	mpz_init(m);
	size_t who = N;
	aio[p]->pick = N;
	while (rbc[p]->Deliver(m, who, aiounicast::aio_scheduler_direct, 0))
	{
		Delivery x;
		x.chan = chan[p], x.sender = who, x.value = mpz_get_ui(m);
		got[p].push_back(x);
		std::cout << "  P" << p << " on channel " << chan[p] << " delivers " <<
			x.value << " from P" << who << " (buffered)" << std::endl;
		if (got[p].size() > 64)
			break;
	}
	mpz_clear(m);
}

// hand over everything that is in flight between the given parties
static void drain(const std::vector<size_t> &who)
{
	bool progress = true;
	while (progress)
	{
		progress = false;
		for (size_t a = 0; a < who.size(); a++)
			for (size_t b = 0; b < who.size(); b++)
				if (step(who[a], who[b]))
					progress = true;
	}
}

static void open_channel(size_t p, const std::string &name)
{
	rbc[p]->setID(name, false); // non-FIFO channel
	chan[p] = chan[p] + "/" + name;
}

static void close_channel(size_t p)
{
	rbc[p]->unsetID(false);
	chan[p] = chan[p].substr(0, chan[p].rfind('/'));
}

static size_t count(size_t p, const std::string &c, size_t s, unsigned long v)
{
	size_t r = 0;
	for (size_t k = 0; k < got[p].size(); k++)
		if ((got[p][k].chan == c) && (got[p][k].sender == s) &&
			(got[p][k].value == v))
				r++;
	return r;
}

static size_t count_chan(size_t p, const std::string &c)
{
	size_t r = 0;
	for (size_t k = 0; k < got[p].size(); k++)
		if (got[p][k].chan == c)
			r++;
	return r;
}

int main(int argc, char **argv)
{
	bool fifo = (argc > 1) && (std::string(argv[1]) == "fifo");
	if (freopen("/dev/null", "w", stderr) == NULL)
		return 2;
	if (!init_libTMCG())
		return 2;
	const unsigned long v = 4711;
	for (size_t p = 0; p < N; p++)
	{
		aio[p] = new MemUnicast(N, p, &net);
		rbc[p] = new CachinKursawePetzoldShoupRBC(N, T, p, aio[p],
			aiounicast::aio_scheduler_direct, aiounicast::aio_timeout_none);
		rbc[p]->setID("A", fifo);
		chan[p] = "/A";
	}
	mpz_t m;
	mpz_init(m);
	mpz_set_ui(m, v);
	rbc[0]->Broadcast(m);
	std::vector<size_t> fast;
	fast.push_back(0), fast.push_back(1), fast.push_back(2);
	drain(fast);
	// P3: echo+ready of P1 and P2, own relayed ready -> 2t+1 readys without payload -> r-request
	step(3, 1), step(3, 1);
	step(3, 2), step(3, 2);
	step(3, 3);
	if (got[3].size() != 0)
	{
		std::cout << "harness: P3 delivered too early" << std::endl;
		return 2;
	}
	// everything else in flight is handed over (all parties honest, every message arrives)
	std::vector<size_t> all = fast;
	all.push_back(3);
	drain(all);
	for (size_t p = 0; p < N; p++)
		idle(p);
	size_t bad = 0;
	for (size_t p = 0; p < N; p++)
	{
		size_t c = count(p, "/A", 0, v);
		std::cout << "P" << p << " delivered slot (P0, 0) " << c << " time(s)" << std::endl;
		if (c != 1)
			bad++;
	}
	std::cout << (bad ? "VIOLATION: a slot was delivered more than once (or not at all)" : "ok: every party delivered the slot exactly once") << std::endl;
	return bad ? 1 : 0;
}
