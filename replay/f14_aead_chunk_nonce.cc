// replay F14: AEAD chunk nonces of SymmetricEncryptAEAD against the draft's rule nonce_c = IV xor c
#include <libTMCG.hh>
#include <gcrypt.h>
#include <cstring>
#include <iostream>
typedef CallasDonnerhackeFinneyShawThayerRFC4880 O;
static bool try_chunk(const unsigned char *key, const unsigned char *nonce, size_t nlen, const unsigned char *ad, const unsigned char *ct, size_t len, const unsigned char *tag)
{
	gcry_cipher_hd_t hd;
	if (gcry_cipher_open(&hd, GCRY_CIPHER_AES128, GCRY_CIPHER_MODE_OCB, 0)) return false;
	gcry_cipher_setkey(hd, key, 16);
	gcry_cipher_setiv(hd, nonce, nlen);
	gcry_cipher_authenticate(hd, ad, 13);
	gcry_cipher_final(hd);
	unsigned char pt[4096];
	gcry_error_t r = gcry_cipher_decrypt(hd, pt, len, ct, len);
	bool ok = !r && !gcry_cipher_checktag(hd, tag, 16);
	gcry_cipher_close(hd);
	return ok;
}
int main()
{
	if (!init_libTMCG()) return 2;
	tmcg_openpgp_octets_t in, ad, iv, out;
	tmcg_openpgp_secure_octets_t seskey;
	for (size_t i = 0; i < 6 * 64 + 10; i++) in.push_back(i & 0xFF);
	for (size_t i = 0; i < 16; i++) seskey.push_back(0x40 + i);
	ad.push_back(0xD4), ad.push_back(0x01), ad.push_back(TMCG_OPENPGP_SKALGO_AES128), ad.push_back(TMCG_OPENPGP_AEADALGO_OCB), ad.push_back(0);
	gcry_error_t ret = O::SymmetricEncryptAEAD(in, seskey, TMCG_OPENPGP_SKALGO_AES128, TMCG_OPENPGP_AEADALGO_OCB, 0, ad, 0, iv, out);
	if (ret) { std::cout << "encrypt failed" << std::endl; return 2; }
	unsigned char key[16], adbuf[13];
	for (size_t i = 0; i < 16; i++) key[i] = 0x40 + i;
	size_t bad = 0;
	for (uint64_t c = 0; c < 6; c++)
	{
		unsigned char spec[16], cum[16];
		memset(spec, 0, 16), memset(cum, 0, 16);
		for (size_t i = 0; i < iv.size(); i++) spec[i] = cum[i] = iv[i];
		spec[14] ^= (unsigned char)c;               // draft: starting IV xor chunk index (OCB nonce is 15 octets)
		unsigned char acc = 0; for (uint64_t k = 0; k <= c; k++) acc ^= (unsigned char)k;
		cum[14] ^= acc;                             // running xor 0^1^..^c
		for (size_t i = 0; i < 5; i++) adbuf[i] = ad[i];
		memset(adbuf + 5, 0, 8); adbuf[12] = (unsigned char)c;
		const unsigned char *ct = &out[c * (64 + 16)];
		bool s = try_chunk(key, spec, iv.size(), adbuf, ct, 64, ct + 64);
		bool u = try_chunk(key, cum, iv.size(), adbuf, ct, 64, ct + 64);
		std::cout << "chunk " << c << ": nonce IV^" << c << " (standard) " << (s ? "opens" : "FAILS") << ", nonce IV^(0^..^" << c << ") = IV^" << (int)acc << " " << (u ? "opens" : "fails") << std::endl;
		if (!s) bad++;
	}
	std::cout << (bad ? "VIOLATION: chunks are not encrypted under the nonce the standard prescribes" : "ok") << std::endl;
	return bad ? 1 : 0;
}
