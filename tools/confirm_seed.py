#!/usr/bin/env python3
"""confirm a seeded change in a scratch worktree and record it under /verif/seeded/<id>/
usage: confirm_seed.py <tag> <property> "<tests>" "<needs>"
Uses the worktree /tmp/wt-confirm (created and built on demand at /repo's HEAD); nothing is
committed to /repo; the patch is applied to /repo only to run the checks and is reverted at once."""
import json, os, shutil, subprocess, sys, time

tag, prop, tests, needs = sys.argv[1], sys.argv[2], sys.argv[3], sys.argv[4]
src = '/tmp/seed-out/' + tag
wt = os.environ.get('CONFIRM_WT', '/tmp/wt-confirm')   # several confirmations may run in parallel in different worktrees
V = os.path.dirname(os.path.dirname(os.path.abspath(__file__)))


def sh(cmd, cwd=None, timeout=7200):
    p = subprocess.run(cmd, shell=True, cwd=cwd, stdout=subprocess.PIPE, stderr=subprocess.STDOUT, text=True, timeout=timeout)
    return p.returncode, p.stdout


head = sh('git -C /repo rev-parse --short HEAD')[1].strip()
if not os.path.exists(wt):
    rc, o = sh('git -C /repo worktree add -q --detach %s HEAD && cd %s && autoreconf -fi >/dev/null 2>&1 && ./configure -q >/dev/null 2>&1' % (wt, wt))
    assert rc == 0, o
rc, o = sh('git checkout -q -- . && git checkout -q --detach %s && make -j4 >/dev/null 2>&1' % head, cwd=wt)
assert rc == 0, o
log = {}
rc0, o0 = sh('sh %s/run_demo.sh %s' % (src, wt))
log['demo_unmodified'] = {'exit': rc0, 'tail': o0[-600:]}
rc, o = sh('git apply %s/patch.diff' % src, cwd=wt)
assert rc == 0, 'patch does not apply to HEAD: ' + o
rcb, ob = sh('make -j4 2>&1 | tail -5', cwd=wt)
log['build_with_change'] = {'exit': rcb}
rc1, o1 = sh('sh %s/run_demo.sh %s' % (src, wt))
log['demo_with_change'] = {'exit': rc1, 'tail': o1[-600:]}
t0 = time.time()
rct, ot = sh('make check TESTS="%s" 2>&1 | grep -E "^(PASS|FAIL|ERROR)|^# (TOTAL|PASS|FAIL|ERROR)"' % tests, cwd=wt + '/tests')
log['tests_with_change'] = {'tests': tests, 'result': ot.strip().splitlines(), 'wall_s': round(time.time() - t0)}
sh('git checkout -q -- .', cwd=wt)
# checks against the change applied to /repo (reverted immediately); serialised across parallel confirmations
import fcntl
_lock = open('/tmp/confirm-seed.lock', 'w')
fcntl.flock(_lock, fcntl.LOCK_EX)
rc, o = sh('git -C /repo apply %s/patch.diff' % src)
assert rc == 0, o
fired = {}
try:
    man = json.load(open(os.path.join(V, 'MANIFEST.json')))
    for c in man['checks']:
        rcc, oc = sh(c['quick_cmd'], cwd=V)
        if rcc != 0:
            fired[c['property_id']] = {'exit': rcc, 'lines': [l for l in oc.splitlines() if 'rule=' in l or 'ANALYSIS' in l][:6]}
finally:
    sh('git -C /repo checkout -- .')
# evidence files were rewritten by runs on the modified tree: regenerate on the clean tree
for c in man['checks']:
    if c['property_id'] in fired:
        sh(c['quick_cmd'], cwd=V)
fcntl.flock(_lock, fcntl.LOCK_UN)
log['checks_that_fire'] = fired
ok = rc0 == 0 and rc1 != 0 and rcb == 0 and all(l.startswith('PASS') or l.startswith('#') for l in log['tests_with_change']['result']) and \
    any(l.startswith('# FAIL:  0') or l.startswith('# FAIL: 0') for l in log['tests_with_change']['result'])
dst = os.path.join(V, 'seeded', tag)
os.makedirs(dst, exist_ok=True)
for f in os.listdir(src):
    if f.endswith(('.diff', '.cc', '.sh', '.md', '.txt', '.hh')):
        shutil.copy(os.path.join(src, f), dst)
meta = {'id': tag, 'property': prop, 'base_commit': head, 'needs_to_manifest': needs, 'confirmed': ok,
        'what_was_run': log, 'detected_by': sorted(fired)}
json.dump(meta, open(os.path.join(dst, 'meta.json'), 'w'), indent=1)
print(json.dumps({'tag': tag, 'confirmed': ok, 'demo_unmodified': rc0, 'demo_with_change': rc1, 'tests': log['tests_with_change']['result'][-3:], 'fired': sorted(fired)}, indent=1))
