#!/usr/bin/env python3
"""run checks against a patch without touching /repo: scratch copy of /repo/src (+config header),
patch applied there, VERIF_REPO pointed at it, VERIF_SELFTEST=1 so that no evidence is written.
usage: try_patch.py <patch.diff> [Cxx ...]   (default: all claimed properties)"""
import json, os, shutil, subprocess, sys
V = os.path.dirname(os.path.dirname(os.path.abspath(__file__)))
sys.path.insert(0, os.path.join(V, 'selftest'))
import run as st

patch = os.path.abspath(sys.argv[1])
props = sys.argv[2:] or [c['property_id'] for c in json.load(open(os.path.join(V, 'MANIFEST.json')))['checks']]
d = st.scratch()
try:
    p = subprocess.run(['patch', '-p1', '-s', '-i', patch], cwd=d, stdout=subprocess.PIPE, stderr=subprocess.STDOUT, text=True)
    if p.returncode != 0:
        print('patch does not apply:', p.stdout)
        sys.exit(2)
    env = dict(os.environ, VERIF_REPO=d, VERIF_SELFTEST='1')
    worst = 0
    for pr in props:
        q = subprocess.run([os.path.join(V, 'check'), pr], cwd=V, env=env, stdout=subprocess.PIPE, stderr=subprocess.STDOUT, text=True)
        lines = [l for l in q.stdout.splitlines() if 'rule=' in l or 'ANALYSIS' in l or 'Traceback' in l]
        if q.returncode != 0:
            print('%s exit %d' % (pr, q.returncode))
            for l in lines[:6]:
                print('   ' + l[:300])
        worst = max(worst, q.returncode)
    print('done: worst exit %d over %d checks' % (worst, len(props)))
finally:
    shutil.rmtree(d, ignore_errors=True)
