#!/usr/bin/env python3
"""writes MANIFEST.json from the table below (one entry per claimed property)"""
import json, os
V = os.path.dirname(os.path.dirname(os.path.abspath(__file__)))
CLAIMED = {
 'C02': ("Shuffle structure: the stack-secret importer refuses non-bijective index vectors on every path (guard domination), every mix/glue routine applies exactly the recorded permutation with the secret stored at the same index (index-role agreement over symbolic terms), and the permutation constructors only swap / rotate. Necessary structural conditions; type preservation by re-masking is algebra and not decided.", "§3 C02",
         "must-fact dataflow + symbolic index-term agreement across the six mixing siblings"),
 'C03': ("Completeness, necessary conditions only: at every fixed-base power the base is the member its table was built from or is guarded equal to it (a guard establishing inequality is a contradiction: every honest run fails), the prover's I/O shape is the exact dual of the verifier's for all 39 pairs, both sides hash the same function/count/argument roles, sibling constructors forward the same parameters, and no verifier refuses a statement for having a specific value outside the confirmed inventory. Does not decide the algebra.", "§3 C03",
         "typestate of fixed-base tables + contradiction rule; prover/verifier I/O-shape duality and Fiat-Shamir argument agreement"),
 'C04': ("Static check inventory over every offered verifier: accepting exits are guarded by each membership/range test, final equation (abstracted to the inputs it relates), sub-verifier verdict and per-round cut-and-choose check of a frozen reviewed inventory, under every value of the bool parameters; random challenges of the interactive verifiers leave only after the commitment they challenge, are drawn per round and the round count is the verifier's own; comparison operators cover all members; no verdict is dropped. Does not decide the 2^-kappa bound.", "§3 C04",
         "guard domination by must-fact dataflow against a frozen check inventory; sibling agreement; unused-verdict rule on resolved callees"),
 'C05': ("Static dependence and sanitizer analysis: every wire value and data parameter of every offered verifier is an input of a check guarding acceptance; wire values used as exponents carry a range fact and as bases a membership fact at acceptance; fixed-base powers refuse a foreign base. Necessary conditions of binding / refusal; 'changing X makes verification fail' itself is not decided.", "§3 C05",
         "backward dependence via normalised term leaves; taint-to-sink with sanitizer facts; guard domination"),
 'C06': ("Static guard-domination inventory over all CheckGroup/CheckElement implementations: every accepting exit is reachable only through each reject clause the property lists (sizes, p=kq+1 / 2q+1 & 7 mod 8, primality, coprimality, generator range/order/distinctness, canonical generator). Decides the refusal half structurally on every path; does not decide acceptance of generated groups.", "§3 C06",
         "must-fact dataflow (guard domination) over type-resolved CFG with term normalisation; sibling clause matrix"),
 'C08': ("Static effect analysis of the key-generation protocol: every write of the common key is an initialisation or a multiplication (by an accepted key / by the inverse of a stored key) modulo p, i.e. only commuting updates; the update and the table insertion are dominated by a successful proof-of-knowledge verification of the value multiplied in; removal inverts the stored value, needs a known fingerprint and erases it. Equality of the players' keys then follows from commutativity and is not itself decided.", "§3 C08",
         "effect classification of all writers of the key member (symbolic values) + guard domination"),
 'C07': ("Exact necessary conditions of uniformity decided from the source: n! divides the product of the moduli of the independent draws of the permutation generator for n=2..64 (moduli extracted as expressions), every index derived from a draw is in range, the bounded sampler returns only draws that passed the rejection comparison with a bound k*modulo-1 (finite-domain evaluation with 64-bit wrap-around), wrappers reduce by the requested modulus, the residue sampler reduces mod m and draws >= bits(m)+64 bits. The distribution itself is not decided.", "§3 C07",
         "finite-domain evaluation of extracted expressions (factorial divisibility, range, rejection bound) + guard facts"),
 'C18': ("Static structural check of the oblivious-transfer senders/choosers: frozen guard inventory; exact element check; at every send site all received query elements carry their membership verdict and every pair of z-values was compared (loop nests covering all unordered pairs); every message-dependent value sent depends on randomness sampled where it is computed and different messages use disjoint randomness. Correct decryption and secrecy of the non-chosen messages are not decided.", "§3 C18",
         "must-facts at send sites (guard-before-send), loop-nest pair coverage, randomness-freshness dependence"),
 'C17': ("Static ordering/guard analysis of the two-party coin flip: every send whose value exposes the secret share (not hidden under an exponentiation) has, among the must-facts of its program point, the receipt and membership check of every other participant's commitment; the opening of the peer enters the result only after its range checks and the commitment equation; the result is the running sum modulo q. The multi-party variant and equality of the outputs are not decided.", "§3 C17",
         "typestate/ordering via must-facts at send sites with secrecy taint declassified at exponentiation; frozen guard inventory"),
 'C12': ("Static taint-to-sink analysis with sanitizer facts over what is reachable from the wire entry points: every element access on/with untrusted data in the OpenPGP decoders, importers and verifiers satisfies index < capacity (sound linear prover over the must-facts); assertions on untrusted data are dominated by an explicit guard locally or at every tainting call site; wire moduli are non-zero; no null constant reaches GMP; allocations / stack arrays / resizes sized by decoded integers are bounded; variadic hashes do not read past their arguments; narrow (32-bit) arithmetic and unsigned differences on decoded integers are shown not to wrap (interval evaluation / linear prover). A closed list of sink kinds, not absence of all memory errors; general raw-buffer capacities and termination are not claimed.", "§3 C12",
         "interprocedural taint (value and shape) to a closed list of sinks, discharged by must-facts and a linear prover"),
 'C13': ("Static structure check of both channel implementations: a flag-aware must-pass-through analysis shows that with authentication enabled the received integer is written, true is returned and the receive counter advances only through the success edge of the MAC verification; both sides MAC line, delimiter and per-link sequence number; the tag is taken only when maclen octets follow the delimiter and the remainder is moved by the amount the pointer is set to; read() is bounded by the free space of a buffer allocated with that size; length hiding is symmetric; select and nonblock agree. Delivery under all fragmentations and schedules is not decided.", "§3 C13",
         "must-pass-through over the CFG with boolean flags in the path condition; send/receive pairing by symbolic terms; sibling agreement"),
 'C14': ("Static guard inventory of the reliable-broadcast state machine: per handler the threshold comparisons are normalised to polynomials over n and t and must be n-t, t, t+1, 2t+1, n-t where the protocol prescribes them; each of the six message kinds is recorded under a first-time guard; r-send payloads come only from the claimed sender and malformed tags are rejected before any table access; at every delivering exit the must-facts contain channel-ID equality, the FIFO implication, the advance of the sequence number and the integrity condition of that path; DeliverFrom hands out buffered values only for the current ID. Agreement/totality over all schedules and Byzantine behaviours are not decided (model-checking question).", "§3 C14",
         "guard domination with affine normalisation of thresholds; must-facts at delivering exits; first-time-filter typestate"),
 'C19': ("Conformance of the finite parts decided against RFC 4880 tables and formulas typed into the checker: radix-64 alphabet and 256-entry inverse table, CRC-24 constants, line length, armor BEGIN/END strings of encoder and decoder; the body-length encoder and decoder evaluated piecewise over all boundary regions (0..8999, 2^16, 2^24, 2^31, 2^32-1; all 256 first octets incl. partial lengths; old-format types); the iterated-S2K count over all 256 octets; big-endian scalar encoders; the CRC comparison guarding ArmorDecode. Byte-exact conformance of every emitted packet and agreement with GnuPG are not decided.", "§3 C19",
         "finite tables against the standard; piecewise finite-domain evaluation of extracted loop-free definitions; guard domination"),
 'C20': ("Static decision of the gates that make OpenPGP objects tamper-evident: the signature validity predicate is evaluated piecewise over the whole hash enum and ten time scenarios against the statement (weak hashes, expiry, key age, far-future dating refused); every Signature::Verify* accepts only with CheckIntegrity's verdict; CheckIntegrity returns true only on success of the dispatched verifier; each AsymmetricVerify* returns success only with gcry_pk_verify's verdict; Message::Decrypt returns true only through AEAD success or CheckMDC on an integrity-protected packet; CheckMDC compares the recomputed hash; AEAD plaintext is released only after its tag check. That altered data fails the cryptographic checks and agreement with GnuPG are not decided.", "§3 C20",
         "piecewise finite-domain evaluation of the validity predicate; guard domination (must-facts) at accepting exits and output sites"),
 'C11': ("Writer/reader agreement decided from the source: for the ten delimiter formats (cards, card secrets, stacks, stack secrets, keys) the exporter's magic, delimiter, number of header fields, loop nesting and fields per iteration equal what the importer parses; for eleven PublishGroup/PublishState publishers the sequence of members written equals the sequence the stream constructor reads; all integer text uses one radix constant. Value-level losslessness (zero, negative, maximal length) is not decided.", "§3 C11",
         "I/O-shape agreement between sibling exporter/importer implementations; constant agreement"),
 'C10': ("Static gate and agreement analysis of the Rabin key code: every accepting exit of key validation requires the self-signature over name|email|type|m|y|nizk; for keys with a validity proof each stage counter is compared with the library's round number and each stage loop checks its relation per round; the proof block the generator writes has the magic, delimiter and field structure the validator parses and both seed the common random numbers with m^y; verify accepts only on equality of the recomputed hash, decrypt only on the padding redundancy. Round-trip success for every key size and rejection of every altered field are not decided.", "§3 C10",
         "guard domination at accepting exits; writer/reader shape agreement between generator and validator"),
 'C09': ("Narrow structural claim: for every TMCG_Bigint operation that branches on the back end, the primitives applied on the secure (libgcrypt) path correspond, through a fixed table, to those on the plain (GMP) path with the object in the same operand position; the two back-end conversions use the same hexadecimal format; the table-based powers share exponent-length and sign handling. Four of the six clauses of C09 (numerical agreement of the power variants, square roots, prime generators, interpolation) concern computed values and are NOT decided.", "§3 C09",
         "sibling agreement between the two back-end branches of one interface (primitive correspondence table, operand roles)"),
 'C01': ("Partial, structural only: decides the shape conditions without which a masked card cannot open to its type, read off the value terms of a must-fact dataflow over the source: ElGamal masking is (g^r, m*h^r) and re-masking (c_1*g^r, c_2*h^r) with one exponent, generator and common key in their places, modulo p; the decryption accumulator starts as c_1^{x_i}, is multiplied by a received share only after the equality-of-discrete-logs proof for that very share, the stored key and this c_1 was accepted, and the opening is c_2*d^-1 mod p; encoder and decoder of the discrete-log encoding agree on the table of type elements (message_space[t] = IndexElement(t) = g^t mod p with the index that is accessed), the decoder searches every t in [0, 2^w) and returns the sentinel otherwise, 2^w entries are allocated; the bitwise encoding consumes the type least significant bit first (set bit = non-residue y of player 0), the decoder weights bit w with 2^w and XORs over all players, a value is masked as z*r^2*y^b mod m and a player's own secret bit is 0 exactly for quadratic residues. That every chain of maskings under every key set opens to exactly the created type (the algebraic identity, the negligible-probability clause) is NOT decided.", "§3 C01 / §9",
         "value-term shape rules over a must-fact dataflow (symbolic GMP terms), loop-range coverage, encoder/decoder index agreement"),
 'C16': ("Partial: decides only the last sentence of C16 -- the library's own signature verifiers (threshold Schnorr: GennaroJareckiKrawczykRabinNTS::Verify, DSA: CanettiGennaroJareckiKrawczykRabinDSS::Verify) accept only what the verification equation and the range conditions accept: accepting exits are guarded by a frozen inventory (equation abstracted to the inputs it relates, range tests, invertibility) and every signature component is either compared as a whole with a recomputed reduced value or carries the range facts 0 <= x < q (no non-canonical representative x + kq is accepted). That a completed multi-party signing run yields a valid signature, and that all honest parties obtain the same one, are relations over executions and are NOT decided.", "§3 C16 / §9",
         "guard domination by must-fact dataflow against a frozen check inventory; canonical-representative rule over the accepting facts"),
}
NA = {
 'C15': "relation between final states of n concurrent runs under fault sequences; a property of executions, not of code shape",
}
PENDING = "rule module not built yet in this revision (planned, see DESIGN.md §3)"
ALL = ['C%02d' % i for i in range(1, 21)]


def main():
    extra = {}
    p = os.path.join(V, 'tools', 'claimed_extra.json')
    if os.path.exists(p):
        extra = json.load(open(p))
    claimed = dict(CLAIMED)
    for k, v in extra.items():
        claimed[k] = tuple(v)
    claimed = {k: v for k, v in claimed.items() if os.path.exists(os.path.join(V, 'sa', 'rules', k.lower() + '.py'))}
    m = {
        "version": 1,
        "setup_cmd": "./setup.sh",
        "hooks": {"guard": "LIBTMCG_VERIF",
                  "enable": "-DLIBTMCG_VERIF on the analyser's command line (no source hooks are needed; the checks read the unmodified source)",
                  "baseline_off_cmd": "cd /repo && make -k check", "source_commits": [], "add_only": True},
        "engines": [
            {"name": "tmcgfacts", "path": "tool/tmcgfacts.cc", "serves_properties": sorted(claimed),
             "kind_free_text": "clang-14 libTooling extractor: resolved statement/expression trees, classes, enums, constant tables per translation unit"},
            {"name": "sa", "path": "sa/", "serves_properties": sorted(claimed),
             "kind_free_text": "Python rule engine: CFG construction, symbolic must-fact dataflow with GMP term normalisation, check inventories, per-property rule tables"}],
        "checks": [],
        "not_applicable": [],
        "notes": "Static analysis only (nothing under /repo is executed by any check); see DESIGN.md. exit 0 pass / 1 VIOLATION / 2 analysis broken.",
    }
    for pid in sorted(claimed):
        text, ref, tech = claimed[pid]
        m['checks'].append({
            "property_id": pid, "quick_cmd": "./check %s --tier quick" % pid, "thorough_cmd": "./check %s --tier thorough" % pid,
            "evidence_file": "evidence/%s.json" % pid, "replay_cmd_template": "./check %s --replay {path}" % pid, "engine": "sa",
            "level_claimed": {"category": "other", "text": text, "design_ref": "DESIGN.md " + ref},
            "level_note": "Trusts clang's front end, the extractor, the GMP/libTMCG semantics table and the frozen rule tables; nothing is executed; a pass means every structural necessary condition stated holds on everything parsed, not that the behaviour holds.",
            "technique": "static analysis: " + tech})
    for pid in ALL:
        if pid in claimed:
            continue
        m['not_applicable'].append({"property_id": pid, "reason": NA.get(pid, PENDING)})
    json.dump(m, open(os.path.join(V, 'MANIFEST.json'), 'w'), indent=1)
    print('claimed:', sorted(claimed))


main()
