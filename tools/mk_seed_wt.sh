#!/bin/sh
# usage: mk_seed_wt.sh <dir>   -- scratch worktree of /repo's HEAD with /repo's build output copied in (no rebuild)
set -e
D="$1"
[ -d "$D" ] && { echo "exists: $D"; exit 0; }
exec 9>/tmp/confirm-seed.lock; flock 9
git -C /repo worktree add -q --detach "$D" HEAD
rsync -a --exclude .git /repo/ "$D"/
flock -u 9
for f in Makefile src/Makefile tests/Makefile; do
  [ -f "$D/$f" ] && sed -i "s#/repo#$D#g" "$D/$f"
done
( cd "$D" && make -j4 >/dev/null 2>&1 ) || echo "warning: make failed in $D"
echo "ready: $D"
