#!/usr/bin/env python3
"""debug aid: inventory of one function on a patched scratch copy against the frozen reference
usage: inv_diff.py <patch.diff|-> <qualified name substring>"""
import ast, json, os, shutil, subprocess, sys
V = os.path.dirname(os.path.dirname(os.path.abspath(__file__)))
sys.path.insert(0, V); sys.path.insert(0, os.path.join(V, 'selftest'))
import run as st
d = st.scratch()
try:
    if sys.argv[1] != '-':
        subprocess.run(['patch', '-p1', '-s', '-i', os.path.abspath(sys.argv[1])], cwd=d, check=True)
    os.environ['VERIF_REPO'] = d
    from sa import facts, core, inventory
    from sa.rules import invcheck, verifiers
    prog = facts.load()
    ctx = core.Ctx('C04', 'quick', prog)
    ref = invcheck.load_ref()
    sel = {f['key']: f for f, props in verifiers.selected(prog)}
    for key, ent in ref.items():
        if sys.argv[2] not in key:
            continue
        f = sel[key]
        inv, _ = inventory.inventory(ctx, f)
        cur = list(inv.items())
        print('==', key)
        for it in ent['items']:
            fp = ast.literal_eval(it['fp'])
            miss = [lab for lab in it['variants'] if not any(lab in labs and inventory.covers(cfp, fp) for cfp, labs in cur)]
            if miss:
                print('MISSING', miss, fp)
        print('-- current:')
        for cfp, labs in cur:
            print('   ', sorted(labs), cfp)
finally:
    shutil.rmtree(d, ignore_errors=True)
