#!/usr/bin/env python3
"""debug helper: dbg.py <patch.diff|-> <script.py>  -- scratch copy (+patch), then exec the script with
prog, ctx(prop) factory, fn(q) lookup in scope.  Nothing is written to evidence/."""
import json, os, shutil, subprocess, sys
V = os.path.dirname(os.path.dirname(os.path.abspath(__file__)))
sys.path.insert(0, V)
sys.path.insert(0, os.path.join(V, 'selftest'))
import run as st
patch, script = sys.argv[1], sys.argv[2]
d = st.scratch()
try:
    if patch != '-':
        p = subprocess.run(['patch', '-p1', '-s', '-i', os.path.abspath(patch)], cwd=d)
        assert p.returncode == 0
    os.environ['VERIF_REPO'] = d
    os.environ['VERIF_SELFTEST'] = '1'
    from sa import facts, core
    prog = facts.load()
    def mkctx(prop='C12'):
        return core.Ctx(prop, 'quick', prog)
    def fn(q):
        r = [f for f in prog.funcs.values() if f['q'].endswith(q) and f.get('body')]
        return r[0]
    exec(open(script).read())
finally:
    shutil.rmtree(d, ignore_errors=True)
