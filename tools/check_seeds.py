#!/usr/bin/env python3
"""regression over the confirmed seeded changes: every change recorded under seeded/<id>/ must
still be reported by the checks named in its meta.json (run on scratch copies, /repo untouched)"""
import json, os, subprocess, sys, glob
V = os.path.dirname(os.path.dirname(os.path.abspath(__file__)))
bad = 0
for d in sorted(glob.glob(os.path.join(V, 'seeded', '*'))):
    meta = json.load(open(os.path.join(d, 'meta.json')))
    want = meta.get('detected_by', [])
    if not want:
        print('%s: documented as not detectable' % os.path.basename(d))
        continue
    p = subprocess.run([os.path.join(V, 'tools', 'try_patch.py'), os.path.join(d, 'patch.diff')] + want, stdout=subprocess.PIPE, stderr=subprocess.STDOUT, text=True)
    fired = [l.split()[0] for l in p.stdout.splitlines() if l.startswith('C') and 'exit 1' in l]
    ok = set(fired) == set(want)
    print('%s: expected %s fired %s %s' % (os.path.basename(d), want, fired, 'ok' if ok else 'MISMATCH'))
    if not ok:
        bad += 1
        print(p.stdout[-800:])
sys.exit(1 if bad else 0)
