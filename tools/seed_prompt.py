#!/usr/bin/env python3
"""seed_prompt.py <Cxx> <tag> <worktree> [extra hint]  -- prompt for an independent seeding agent.
Contains the property text only (nothing about the checks in /verif)."""
import json, os, sys
V = os.path.dirname(os.path.dirname(os.path.abspath(__file__)))
pid, tag, wt = sys.argv[1:4]
hint = sys.argv[4] if len(sys.argv) > 4 else ''
prop = [json.loads(l) for l in open(os.path.join(V, 'properties.jsonl')) if json.loads(l)['id'] == pid][0]
used = []
sd = os.path.join(V, 'seeded')
for d in sorted(os.listdir(sd)):
    m = os.path.join(sd, d, 'meta.json')
    if os.path.exists(m):
        j = json.load(open(m))
        if j.get('property') == pid:
            p = os.path.join(sd, d, 'patch.diff')
            files = sorted({l[6:].strip() for l in open(p) if l.startswith('+++ b/')}) if os.path.exists(p) else []
            used.append('- %s (%s)' % (j.get('needs_to_manifest', '')[:220], ', '.join(files)))
print(f"""You are helping to evaluate a verification effort for the C++ library LibTMCG (HeikoStamer/libtmcg: mental-poker
cryptography, ZK proofs, verifiable shuffles, threshold DKG/VSS, reliable broadcast, OpenPGP). Your job is to play the
role of a maintainer who introduces a *realistic, subtle regression* that breaks ONE stated property of the library
while the code still compiles and the library's existing test suite still passes.

Your own scratch git worktree of the library, already configured and built (in-tree autotools build, `make -j4` in the
root rebuilds after an edit, the shared library is src/.libs/libTMCG.so), is at:

    {wt}

Work ONLY inside {wt} and your output directory /tmp/seed-out/{tag}/ . Never touch /repo or /verif (do not read them either).
Do not run `make -B` or `make -n`; plain `make -j4` only. Do not commit anything.

THE PROPERTY (id {pid}) -- "{prop['title']}"

Statement: {prop['statement']}

Quantifier: {json.dumps(prop['quantifier'])}

Why the existing tests cannot settle it: {prop['why_tests_cant']}

Anchors (where the property lives in the code): {json.dumps(prop['anchors'], indent=1)}

WHAT TO PRODUCE

1. A change to the library sources under {wt}/src (one or a few hunks; it may also be two cooperating edits at
   different sites that each look fine alone) that makes the property FALSE, such that
   - the library still compiles without new warnings-as-errors,
   - the relevant existing tests still pass (run the ones that exercise the code you touched:
     `cd {wt}/tests && make check TESTS="t-xxx t-yyy"`; some tests take minutes - run only the relevant ones, and tell me which),
   - the breakage needs something *specific* to manifest: a particular interleaving, a fault at a particular point, a multi-step
     sequence of operations, an unusual-but-legal input or parameter choice, a boundary value, a second call on the same object,
     a non-default configuration ... NOT something ordinary use would expose at once.
   - it looks like something a maintainer could plausibly commit (an optimisation, a clean-up, a "hardening", a refactoring
     gone slightly wrong, a copy-and-paste slip) - not sabotage with an obviously wrong constant.
   Read the code first and choose a place where the property really depends on what you change.
   {('Direction for this one: ' + hint) if hint else ''}
   Ideas already used by earlier rounds for this property - do NOT repeat these, find something different
   (a different function, mechanism or clause of the property):
{chr(10).join(used) if used else '   (none)'}

2. A demonstration: a small self-contained C++ program /tmp/seed-out/{tag}/demo.cc plus a script
   /tmp/seed-out/{tag}/run_demo.sh taking the library root directory as its only argument, which compiles the demo against
   that tree and runs it:  exit 0 = property holds, non-zero = breakage observed. Template for run_demo.sh:

       #!/bin/sh
       ROOT="${{1:?library root directory required}}"
       HERE="$(cd "$(dirname "$0")" && pwd)"
       TMP="$(mktemp -d)" || exit 3
       trap 'rm -rf "$TMP"' EXIT
       g++ -std=gnu++17 -w -I"$ROOT/src" -I"$ROOT" "$HERE/demo.cc" -L"$ROOT/src/.libs" -lTMCG -lgcrypt -lgmp -lgpg-error -o "$TMP/demo" || exit 3
       LD_LIBRARY_PATH="$ROOT/src/.libs" "$TMP/demo"

   The demo must PASS (exit 0) on the unmodified tree and FAIL (exit non-zero) with your change, deterministically, and should
   finish within about two minutes (use small groups, e.g. BarnettSmartVTMF_dlog(in/ 512,160)-sized parameters, where possible;
   interactive two-party protocols can be run over pipes with fork, see tests/pipestream.hh and the existing tests for the idiom).
   Verify both: run it with the change applied, then `git stash` (or `git diff > patch; git checkout -- src`), `make -j4`, run it
   again, and re-apply.

3. /tmp/seed-out/{tag}/patch.diff : `git diff` of your change relative to HEAD (sources only, must apply with `git apply` to a clean
   checkout), and /tmp/seed-out/{tag}/README.md : which function/mechanism you changed and why it looks plausible, which clause of
   the property breaks, exactly what is needed for it to manifest, which existing tests you ran with the change and their result.

When you are done, leave the worktree with your change reverted (`git checkout -- .` inside {wt}; keep the build output), and
reply with a short summary: the change in one or two sentences, what it needs to manifest, tests run, and the demo results
on both trees. If after a serious attempt you cannot find a change that keeps the tests green and breaks the property, say so
plainly rather than delivering something that does not meet the conditions.""")
