#!/usr/bin/env python3
"""false-alarm regression: every behaviour-preserving refactoring under neutral/<group>/n*.diff
(written by independent agents that never saw /verif; each compiled and passed the repo's tests)
must leave every check at exit 0.  Scratch copies only.  usage: check_neutral.py [group ...]"""
import glob, os, subprocess, sys
V = os.path.dirname(os.path.dirname(os.path.abspath(__file__)))
groups = sys.argv[1:] or sorted(os.path.basename(g) for g in glob.glob(os.path.join(V, 'neutral', '*')))
bad = 0
n = 0
for g in groups:
    for p in sorted(glob.glob(os.path.join(V, 'neutral', g, 'n*.diff')), key=lambda x: int(os.path.basename(x)[1:-5])):
        n += 1
        r = subprocess.run([os.path.join(V, 'tools', 'try_patch.py'), p], stdout=subprocess.PIPE, stderr=subprocess.STDOUT, text=True)
        ok = 'worst exit 0' in r.stdout
        print('%s/%s %s' % (g, os.path.basename(p), 'silent' if ok else 'ALARM'))
        if not ok:
            bad += 1
            print(r.stdout[-1200:])
print('neutral corpus: %d patches, %d alarms' % (n, bad))
sys.exit(1 if bad else 0)
