#!/usr/bin/env python3
"""false-alarm regression: every behaviour-preserving refactoring under neutral/<group>/n*.diff
(written by independent agents that never saw /verif; each compiled and passed the repo's tests)
must leave the checks at exit 0.  neutral/<group>/checks.txt names the checks whose anchors the
group touches (default: all).  Scratch copies only.  usage: check_neutral.py [-j N] [group ...]"""
import glob, os, subprocess, sys
from concurrent.futures import ThreadPoolExecutor
V = os.path.dirname(os.path.dirname(os.path.abspath(__file__)))
args = sys.argv[1:]
jobs = 4
if args and args[0] == '-j':
    jobs = int(args[1]); args = args[2:]
groups = args or sorted(os.path.basename(g) for g in glob.glob(os.path.join(V, 'neutral', '*')))
work = []
for g in groups:
    cf = os.path.join(V, 'neutral', g, 'checks.txt')
    checks = open(cf).read().split() if os.path.exists(cf) else []
    for p in sorted(glob.glob(os.path.join(V, 'neutral', g, 'n*.diff')), key=lambda x: int(os.path.basename(x)[1:-5])):
        work.append((g, p, checks))


def one(item):
    g, p, checks = item
    r = subprocess.run([os.path.join(V, 'tools', 'try_patch.py'), p] + checks, stdout=subprocess.PIPE, stderr=subprocess.STDOUT, text=True)
    return g, p, 'worst exit 0' in r.stdout, r.stdout


bad = 0
skipped = 0
with ThreadPoolExecutor(max_workers=jobs) as ex:
    for g, p, ok, out in ex.map(one, work):
        if 'patch does not apply' in out:
            # written against an earlier commit of /repo (a fix: commit has since changed that code)
            print('%s/%s skipped (does not apply to this tree)' % (g, os.path.basename(p)), flush=True)
            skipped += 1
            continue
        print('%s/%s %s' % (g, os.path.basename(p), 'silent' if ok else 'ALARM'), flush=True)
        if not ok:
            bad += 1
            print(out[-1200:])
print('neutral corpus: %d patches, %d alarms, %d skipped' % (len(work), bad, skipped))
sys.exit(1 if bad else 0)
