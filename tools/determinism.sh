#!/bin/sh
# every check must give the same instances and verdicts whatever the string-hash seed
cd "$(dirname "$0")/.."
rc=0
for p in C02 C03 C04 C05 C06 C07 C08 C09 C10 C11 C12 C13 C14 C16 C17 C18 C19 C20; do
  for s in 1 2 3; do PYTHONHASHSEED=$s VERIF_SELFTEST=1 VERIF_DUMP=/tmp/det.$p.$s ./check $p >/dev/null; done
  if cmp -s /tmp/det.$p.1 /tmp/det.$p.2 && cmp -s /tmp/det.$p.1 /tmp/det.$p.3; then echo "$p deterministic"; else echo "$p DIFFERS"; rc=1; fi
  rm -f /tmp/det.$p.*
done
exit $rc
