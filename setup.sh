#!/bin/sh
# builds the fact extractor (libTooling, clang 14); offline, ~10 s
set -e
cd "$(dirname "$0")"
mkdir -p build evidence
if [ ! -x build/tmcgfacts ] || [ tool/tmcgfacts.cc -nt build/tmcgfacts ]; then
  clang++ $(llvm-config-14 --cxxflags) -fno-rtti -w tool/tmcgfacts.cc -o build/tmcgfacts \
    /usr/lib/llvm-14/lib/libclang-cpp.so.14 /usr/lib/llvm-14/lib/libLLVM-14.so
fi
echo "setup ok"
