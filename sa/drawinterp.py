"""Interval evaluation of a small index-generating function for one concrete size argument (A7/A8).

Used for the permutation generator: for a given n every loop bound is a concrete integer, the only
unknowns are the results of the bounded sampler, which are intervals [0, m-1] with a concrete
modulus m.  The evaluation records (a) the modulus of every draw and (b) every subscript applied to
a tracked vector together with the vector's size at that point.  Integer variables have their
declared unsigned width (a product that exceeds the machine word wraps, exactly as it would at run
time).  Branches must be decidable from the intervals, otherwise the function is NotEvaluable --
nothing is guessed.  This is constant propagation with an interval for the random values; it never
executes library code."""
from . import evalx


class Iv:
    """closed integer interval"""
    __slots__ = ('lo', 'hi')

    def __init__(self, lo, hi=None):
        self.lo = lo
        self.hi = lo if hi is None else hi

    def const(self):
        return self.lo == self.hi

    def __repr__(self):
        return '%d' % self.lo if self.const() else '[%d,%d]' % (self.lo, self.hi)


class Ret(Exception):
    pass


class Brk(Exception):
    pass


class Cont(Exception):
    pass


def strip(e):
    while isinstance(e, dict) and e.get('k') in ('cast', 'paren'):
        e = e['e']
    return e


class DrawInterp:
    def __init__(self, f, args, samplers, max_steps=200000):
        self.f = f
        self.env = {}
        self.types = {}
        self.vsize = {}          # tracked vectors: decl id -> size (concrete)
        self.draws = []          # moduli
        self.index = []          # (vector name, Iv index, size, line)
        self.samplers = samplers
        self.steps = 0
        self.max_steps = max_steps
        for p in f['params']:
            t = p['t'].replace('&', '').replace('const ', '').strip()
            if 'vector' in t:
                self.vsize[p['id']] = 0
            elif p['n'] in args:
                self.env[p['id']] = Iv(args[p['n']])
                self.types[p['id']] = t

    def wrapt(self, v, t):
        if t in evalx.WIDTH:
            w = evalx.WIDTH[t]
            if v.lo < 0 or v.hi >= (1 << w):
                if v.const():
                    return Iv(v.lo & ((1 << w) - 1))
                return Iv(0, (1 << w) - 1)
        return v

    # -- expressions -----------------------------------------------------------------------------
    def ev(self, e):
        e = strip(e)
        if e is None:
            raise evalx.NotEvaluable('none')
        k = e.get('k')
        if k == 'int':
            return Iv(e['v'])
        if k == 'bool':
            return Iv(1 if e['v'] else 0)
        if k == 'var':
            if e['id'] in self.env:
                return self.env[e['id']]
            raise evalx.NotEvaluable('free variable ' + e.get('n', '?'))
        if k == 'sizeof' or (k == 'un' and e.get('op') == 'sizeof'):
            if 'v' in e:
                return Iv(e['v'])
            raise evalx.NotEvaluable('sizeof')
        if k == 'cond':
            c = self.truth(e['a'][0])
            return self.ev(e['a'][1]) if c else self.ev(e['a'][2])
        if k == 'call' and e.get('f') in self.samplers:
            m = self.ev(e['a'][0])
            if not m.const():
                raise evalx.NotEvaluable('modulus of a draw is not a constant for this size')
            self.draws.append((m.lo, e.get('l')))
            if m.lo <= 0:
                return Iv(0)
            return Iv(0, m.lo - 1)
        if k in ('opcall', 'idx') and (e.get('op') == '[]' or k == 'idx'):
            b, i = strip(e['a'][0]), e['a'][1]
            if b.get('k') == 'var' and b['id'] in self.vsize:
                ix = self.ev(i)
                self.index.append((b.get('n'), ix, self.vsize[b['id']], e.get('l')))
                return Iv(0, (1 << 64) - 1)      # contents are not tracked
            raise evalx.NotEvaluable('subscript of an untracked object')
        if k == 'mcall' and e['f'].split('::')[-1] == 'size':
            o = strip(e['o'])
            if o.get('k') == 'var' and o['id'] in self.vsize:
                return Iv(self.vsize[o['id']])
        if k == 'un':
            op = e['op']
            if op in ('++', '--', 'post++', 'post--'):
                t = strip(e['a'][0])
                old = self.ev(t)
                d = 1 if '+' in op else -1
                new = self.wrapt(Iv(old.lo + d, old.hi + d), self.types.get(t.get('id')))
                self.env[t['id']] = new
                return old if op.startswith('post') else new
            v = self.ev(e['a'][0])
            if op == '-':
                return self.wrapt(Iv(-v.hi, -v.lo), e.get('t'))
            if op == '!':
                return Iv(0 if self.truthv(v) else 1)
            if op == '+':
                return v
            raise evalx.NotEvaluable('unary ' + op)
        if k == 'bin':
            op = e['op']
            if op == '=' or (op.endswith('=') and op not in ('==', '!=', '<=', '>=')):
                t = strip(e['a'][0])
                if t.get('k') == 'var':
                    r = self.ev(e['a'][1])
                    if op != '=':
                        r = self.arith(op[:-1], self.ev(t), r, self.types.get(t['id']))
                    r = self.wrapt(r, self.types.get(t['id']))
                    self.env[t['id']] = r
                    return r
                if t.get('k') in ('opcall', 'idx'):
                    self.ev(e['a'][1])
                    self.ev(t)          # records the subscript
                    return Iv(0)
                raise evalx.NotEvaluable('assignment target')
            if op == '&&':
                return Iv(1 if (self.truth(e['a'][0]) and self.truth(e['a'][1])) else 0)
            if op == '||':
                return Iv(1 if (self.truth(e['a'][0]) or self.truth(e['a'][1])) else 0)
            if op == ',':
                self.ev(e['a'][0])
                return self.ev(e['a'][1])
            a, b = self.ev(e['a'][0]), self.ev(e['a'][1])
            if op in ('<', '<=', '>', '>=', '==', '!='):
                return Iv(1 if self.cmp(op, a, b) else 0)
            return self.arith(op, a, b, e.get('t'))
        if k == 'opcall' and e.get('op') == '=':
            t = strip(e['a'][0])
            self.ev(e['a'][1])
            if t.get('k') in ('opcall', 'idx'):
                self.ev(t)
            return Iv(0)
        raise evalx.NotEvaluable('expression ' + str(k))

    def arith(self, op, a, b, t):
        if op == '+':
            r = Iv(a.lo + b.lo, a.hi + b.hi)
        elif op == '-':
            r = Iv(a.lo - b.hi, a.hi - b.lo)
        elif op == '*':
            c = [a.lo * b.lo, a.lo * b.hi, a.hi * b.lo, a.hi * b.hi]
            r = Iv(min(c), max(c))
        elif op in ('/', '%'):
            if not b.const() or b.lo <= 0 or a.lo < 0:
                raise evalx.NotEvaluable('division by a non-constant or non-positive value')
            if op == '/':
                r = Iv(a.lo // b.lo, a.hi // b.lo)
            elif a.const():
                r = Iv(a.lo % b.lo)
            elif a.hi - a.lo + 1 >= b.lo or (a.lo % b.lo) > (a.hi % b.lo):
                r = Iv(0, b.lo - 1)
            else:
                r = Iv(a.lo % b.lo, a.hi % b.lo)
        elif op == '<<' and b.const() and 0 <= b.lo < 128:
            r = Iv(a.lo << b.lo, a.hi << b.lo)
        elif op == '>>' and b.const() and 0 <= b.lo < 128 and a.lo >= 0:
            r = Iv(a.lo >> b.lo, a.hi >> b.lo)
        else:
            raise evalx.NotEvaluable('binary ' + op)
        return self.wrapt(r, t)

    def cmp(self, op, a, b):
        if op == '<':
            if a.hi < b.lo: return True
            if a.lo >= b.hi: return False
        elif op == '<=':
            if a.hi <= b.lo: return True
            if a.lo > b.hi: return False
        elif op == '>':
            return self.cmp('<', b, a)
        elif op == '>=':
            return self.cmp('<=', b, a)
        elif op == '==':
            if a.const() and b.const(): return a.lo == b.lo
            if a.hi < b.lo or b.hi < a.lo: return False
        elif op == '!=':
            if a.const() and b.const(): return a.lo != b.lo
            if a.hi < b.lo or b.hi < a.lo: return True
        raise evalx.NotEvaluable('branch on a random value')

    def truthv(self, v):
        if v.lo > 0 or v.hi < 0:
            return True
        if v.const():
            return False
        raise evalx.NotEvaluable('branch on a random value')

    def truth(self, e):
        return self.truthv(self.ev(e))

    # -- statements ------------------------------------------------------------------------------
    def stmt(self, s):
        if s is None:
            return
        self.steps += 1
        if self.steps > self.max_steps:
            raise evalx.NotEvaluable('step limit')
        k = s.get('k')
        if k == 'block':
            for x in s['s']:
                self.stmt(x)
        elif k == 'decl':
            for v in s['v']:
                t = v.get('t', '').replace('const ', '').replace('static ', '').strip()
                if 'vector' in t:
                    self.vsize[v['id']] = 0
                    continue
                self.types[v['id']] = t
                if v.get('init') is not None:
                    self.env[v['id']] = self.wrapt(self.ev(v['init']), t)
        elif k == 'if':
            if self.truth(s['c']):
                self.stmt(s.get('t'))
            else:
                self.stmt(s.get('e'))
        elif k in ('for', 'while'):
            if isinstance(s.get('i'), dict):
                self.stmt(s['i'])
            while s.get('c') is None or self.truth(s['c']):
                try:
                    self.stmt(s.get('b'))
                except Brk:
                    break
                except Cont:
                    pass
                if isinstance(s.get('n'), dict):
                    self.ev(s['n'])
                self.steps += 1
                if self.steps > self.max_steps:
                    raise evalx.NotEvaluable('step limit')
        elif k == 'do':
            while True:
                try:
                    self.stmt(s.get('b'))
                except Brk:
                    break
                except Cont:
                    pass
                if not self.truth(s['c']):
                    break
        elif k == 'return':
            raise Ret()
        elif k == 'break':
            raise Brk()
        elif k == 'continue':
            raise Cont()
        elif k == 'mcall':
            o = strip(s.get('o'))
            if o.get('k') == 'var' and o['id'] in self.vsize:
                short = s['f'].split('::')[-1]
                if short == 'push_back':
                    self.ev(s['a'][0])
                    self.vsize[o['id']] += 1
                elif short == 'clear':
                    self.vsize[o['id']] = 0
                elif short == 'resize':
                    n = self.ev(s['a'][0])
                    if not n.const():
                        raise evalx.NotEvaluable('resize')
                    self.vsize[o['id']] = n.lo
                elif short in ('reserve', 'shrink_to_fit'):
                    pass
                else:
                    raise evalx.NotEvaluable('vector operation ' + short)
            else:
                raise evalx.NotEvaluable('method call')
        elif k == 'call' and s.get('f') in ('std::swap', 'std::iter_swap'):
            for a in s.get('a', []):
                self.ev(a)
        elif k == 'call' and s.get('f') == 'std::iota':
            pass
        elif k == 'assert':
            pass
        else:
            self.ev(s)

    def run(self):
        try:
            self.stmt(self.f['body'])
        except Ret:
            pass
        return self
