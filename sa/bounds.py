"""Index-within-capacity obligations (sink kind S2 of C12).

For an element access C[I] the obligation I < cap(C) -- cap is size(C) for containers and the
declared length for arrays -- is discharged from the must-facts of the program point by a small
sound linear prover: every fact x <= y, x < y, x == y, every canonical loop (init <= iv < bound)
and the non-negativity of sizes give constraints D >= 0 over integer atoms; the goal
G = cap - I - 1 >= 0 is proved when G minus a sum of up to three constraints is a non-negative
constant.  Incomplete by design; what it cannot prove is reported, never assumed."""
import re
from fractions import Fraction
from itertools import combinations
from .core import poly, padd


def unwrap(a, t):
    T = a.T
    n = T.node(t)
    while n[0] == 'ix':
        t = n[1]
        n = T.node(t)
    return t


def upoly(a, t):
    """polynomial with ix wrappers removed from the atoms"""
    T = a.T
    p = poly(T, unwrap(a, t))
    out = {}
    for m, c in p.items():
        m2 = tuple(sorted(unwrap(a, x) for x in m))
        out[m2] = out.get(m2, 0) + c
    return {m: c for m, c in out.items() if c}


def const_of(p):
    if not p:
        return Fraction(0)
    if list(p.keys()) == [()]:
        return p[()]
    return None


def sub(p, q, k=1):
    d = dict(p)
    padd(d, q, -k)
    return d


def constraints(a, st, atoms_hint=()):
    """list of polys D with D >= 0 known at this point"""
    T = a.T
    out = []

    def add_rel(op, x, y):
        px, py = upoly(a, x), upoly(a, y)
        if op == '<=':
            out.append(sub(py, px))
        elif op == '<':
            d = sub(py, px)
            padd(d, {(): Fraction(1)}, -1)
            out.append(d)
        elif op == '==':
            out.append(sub(py, px))
            out.append(sub(px, py))

    for f in st.facts:
        n = T.node(f)
        if n[0] == 'all':
            n = T.node(n[2])
        if n[0] == 'rel':
            add_rel(n[1], n[2], n[3])
            if n[1] == '!=':
                # i != ULONG_MAX for i = mpz_scan1(X, ..) (GMP's bit scanner: the index of a set bit, or all ones when there is
                # none above the start position and X >= 0)  =>  i <= bits(X) - 1
                for x, y in ((n[2], n[3]), (n[3], n[2])):
                    if T.is_int(y, 2 ** 64 - 1):
                        srcs = [x]
                        if T.op(x) == 'phi':
                            srcs = list(T.phi_src.get((T.node(x)[1], T.node(x)[2]), ()))
                        ops = set()
                        for s_ in srcs:
                            sn = T.node(s_)
                            if sn[0] == 'callr' and sn[1] in ('mpz_scan1',) and len(sn) >= 3:
                                ops.add(sn[2])
                            else:
                                ops.add(None)
                        if len(ops) == 1 and None not in ops:
                            d = sub(upoly(a, T.mk('bits', ops.pop())), upoly(a, x))
                            padd(d, {(): Fraction(1)}, -1)
                            out.append(d)
                # std::string::find(...) != npos  =>  the position found is below length()
                for x, y in ((n[2], n[3]), (n[3], n[2])):
                    xn = T.node(x)
                    if xn[0] == 'mc' and xn[1].startswith('std::basic_string') and xn[1].split('::')[-1] in ('find', 'find_first_of', 'rfind') \
                            and 'npos' in T.show(y, 3):
                        for szname in ('length', 'size'):
                            sz = T.mk('mc', xn[1].rsplit('::', 1)[0] + '::' + szname, xn[2])
                            d = sub(upoly(a, sz), upoly(a, x))
                            padd(d, {(): Fraction(1)}, -1)
                            out.append(d)
        elif n[0] == 'if':
            # (x != a  ->  x == b): x is one of two constants, hence >= min and <= max
            c, F = T.node(n[1]), T.node(n[2])
            if c[0] == 'rel' and c[1] == '!=' and F[0] == 'rel' and F[1] == '==':
                cs = [z for z in (c[2], c[3]) if T.is_int(z)]
                fs = [z for z in (F[2], F[3]) if T.is_int(z)]
                xs = [z for z in (c[2], c[3]) if not T.is_int(z)]
                ys = [z for z in (F[2], F[3]) if not T.is_int(z)]
                if len(cs) == 1 and len(fs) == 1 and xs and ys and xs[0] == ys[0]:
                    lo = min(T.node(cs[0])[1], T.node(fs[0])[1])
                    hi = max(T.node(cs[0])[1], T.node(fs[0])[1])
                    px = upoly(a, xs[0])
                    out.append(sub(px, {(): Fraction(lo)}))
                    out.append(sub({(): Fraction(hi)}, px))
    return out


def atom_constraints(a, atoms):
    """constraints that hold for atoms by their nature: loop counters, sizes, octets"""
    T = a.T
    out = []
    for x in atoms:
        n = T.node(x)
        if n[0] == 'iv':
            b = a.loop_bound.get(n[1])
            if b:
                bound, op, init, step = b
                if step == 1:
                    if init is not None:
                        out.append(sub({(x,): Fraction(1)}, upoly(a, init)))
                    if op == '<':
                        d = sub(upoly(a, bound), {(x,): Fraction(1)})
                        padd(d, {(): Fraction(1)}, -1)
                        out.append(d)
                    elif op == '<=':
                        out.append(sub(upoly(a, bound), {(x,): Fraction(1)}))
                elif step == -1 and init is not None:
                    out.append(sub(upoly(a, init), {(x,): Fraction(1)}))
                    if op == '>':
                        d = sub({(x,): Fraction(1)}, upoly(a, bound))
                        padd(d, {(): Fraction(1)}, -1)
                        out.append(d)
                    elif op == '>=':
                        out.append(sub({(x,): Fraction(1)}, upoly(a, bound)))
        elif n[0] == 'ite' and len(n) == 4 and T.op(n[1]) == 'rel' and T.node(n[1])[1] in ('<', '<='):
            # (a < b) ? a : b is min(a, b); (a < b) ? b : a is max(a, b)
            ca, cb = T.node(n[1])[2], T.node(n[1])[3]
            if (n[2], n[3]) == (ca, cb):
                out.append(sub(upoly(a, ca), {(x,): Fraction(1)}))
                out.append(sub(upoly(a, cb), {(x,): Fraction(1)}))
            elif (n[2], n[3]) == (cb, ca):
                out.append(sub({(x,): Fraction(1)}, upoly(a, ca)))
                out.append(sub({(x,): Fraction(1)}, upoly(a, cb)))
        elif n[0] == 'mc' and n[1].split('::')[-1] in ('size', 'length'):
            out.append({(x,): Fraction(1)})
        elif x in a.octets:
            out.append({(x,): Fraction(1)})
            out.append(sub({(): Fraction(255)}, {(x,): Fraction(1)}))
        elif n[0] == 'op' and n[1] in ('<<', '|', '&') and nonneg(a, x):
            out.append({(x,): Fraction(1)})
    return out


def nonneg(a, x, depth=0):
    """value built from octets with shifts / or / and / + is non-negative"""
    T = a.T
    n = T.node(x)
    if x in a.octets:
        return True
    if n[0] == 'int':
        return n[1] >= 0
    if n[0] == 'ix':
        return nonneg(a, n[1], depth)
    if n[0] == 'op' and n[1] in ('<<', '|', '&', '+', '*') and depth < 6:
        return nonneg(a, n[2], depth + 1) and nonneg(a, n[3], depth + 1)
    return False


def atoms_of(polys):
    s = set()
    for p in polys:
        for m in p:
            s.update(m)
    return s


def prove_ge0(G, cons, depth=6):
    """G >= 0 follows if G = sum k_i * D_i + c with k_i > 0, D_i >= 0 known, c >= 0.  Depth-first:
    pick a non-constant monomial of the remainder and cancel it with a constraint of the right sign."""
    seen = set()

    def rec(R, d):
        c = const_of(R)
        if c is not None:
            return c >= 0
        if d == 0:
            return False
        key = frozenset(R.items())
        if key in seen:
            return False
        seen.add(key)
        m = sorted((k for k in R if k != ()), key=repr)[0]
        coef = R[m]
        for D in cons:
            dc = D.get(m)
            if not dc:
                continue
            k = coef / dc
            if k <= 0:
                continue
            R2 = dict(R)
            padd(R2, D, -k)
            if rec(R2, d - 1):
                return True
        return False
    return rec(dict(G), depth)


def array_len(tstr):
    if not tstr:
        return None
    m = re.search(r'\[(\d+)\]\s*$', tstr)
    if m:
        return int(m.group(1))
    return None


def index_ok(a, st, base_loc, base_type, idx):
    """I < capacity(C) provable at this program point?"""
    T = a.T
    I = upoly(a, idx)
    alen = array_len(base_type)
    cons = constraints(a, st)
    cval = a.read(base_loc, st) if base_loc is not None else None
    heap = None
    if cval is not None and alen is None:
        # a pointer to a new[] block: its capacity is the allocation's size expression
        cands = [cval]
        cn = T.node(cval)
        if cn[0] == 'phi':
            cands = list(T.phi_src.get((cn[1], cn[2]), ()))
        sizes = set(a.alloc_size.get(unwrap(a, c)) for c in cands)
        if len(sizes) == 1 and None not in sizes:
            heap = sizes.pop()
    fill = getattr(a, 'fill_size', {}).get(unwrap(a, cval)) if cval is not None else None
    if base_type and base_type.replace(' ', '') == '__mpz_struct(*)[1]':
        alen = None         # a pointer to mpz_t cells (an mpz_t[] parameter), not an array of one element
    if alen is None and base_type and base_type.replace(' ', '') == '__mpz_struct(*)[1]' and isinstance(base_loc, tuple) and base_loc[0] == 'v' and \
            str(base_loc[2]).startswith('fpowm_table') and getattr(a, 'fpowm_rows', None):
        # a fixed-base table handed in by the caller: TMCG_MAX_FPOWM_T rows by the library-wide contract (every table is
        # allocated with that constant, R08f / R09c)
        alen = a.fpowm_rows
    if alen is not None:
        cap = {(): Fraction(alen)}
    elif fill is not None:
        # a container built by the fill constructor and not resized since
        cap = upoly(a, fill)
    elif heap is not None:
        cap = upoly(a, heap)
    else:
        if cval is None:
            return False
        sz = None
        # the size term as the facts spell it: any member function named size/length on that value
        for D in cons:
            for m in D:
                for x in m:
                    n = T.node(x)
                    if n[0] == 'mc' and n[1].split('::')[-1] in ('size', 'length') and unwrap(a, n[2]) == unwrap(a, cval):
                        sz = x
        if sz is None:
            # maybe the index is bounded by a loop over size() of this very container
            for x in atoms_of([I]):
                if T.op(x) == 'iv':
                    b = a.loop_bound.get(T.node(x)[1])
                    if b:
                        bn = T.node(unwrap(a, b[0]))
                        if bn[0] == 'mc' and bn[1].split('::')[-1] in ('size', 'length') and unwrap(a, bn[2]) == unwrap(a, cval):
                            sz = unwrap(a, b[0])
                        else:
                            for y in atoms_of([upoly(a, b[0])]):
                                yn = T.node(y)
                                if yn[0] == 'mc' and yn[1].split('::')[-1] in ('size', 'length') and unwrap(a, yn[2]) == unwrap(a, cval):
                                    sz = y
        if sz is None:
            return False
        cap = {(sz,): Fraction(1)}
    G = sub(cap, I)
    padd(G, {(): Fraction(1)}, -1)
    ac = atom_constraints(a, atoms_of([G] + cons))
    # the bound of a loop counter may itself be a composite atom (a min/max ternary): one more round for the atoms it brings in
    ac2 = atom_constraints(a, atoms_of(ac) - atoms_of([G] + cons))
    cons = cons + ac + ac2
    return prove_ge0(G, cons)
