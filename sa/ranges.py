"""Intervals of integer terms (A7): octets are 0..255, constants exact, + - * << >> & | evaluated on
intervals, joins (phi / ite) united, everything else unknown (None).  Exact integer arithmetic --
the caller compares the result with the range of the C type the operation is carried out in."""

INF = float('inf')


def interval(a, t, st=None, depth=0, seen=None):
    """(lo, hi) with hi possibly INF, or None when nothing is known"""
    r = interval0(a, t, st, depth, seen)
    if st is not None:
        b = fact_bounds(a, t, st)
        if b is not None:
            lo = b[0] if r is None else (r[0] if b[0] is None else max(r[0], b[0]))
            hi = b[1] if r is None else (r[1] if b[1] is None else min(r[1], b[1]))
            if lo is None or hi is None:
                return r
            return (lo, hi)
    return r


def fact_bounds(a, t, st):
    """constant bounds on t among the must-facts of the program point"""
    T = a.T
    memo = a.__dict__.setdefault('_fact_bounds', {})
    key = id(st.facts)
    tab = memo.get(key)
    if tab is None or tab[0] is not st.facts:
        d = {}
        for f in st.facts:
            fn = T.node(f)
            if fn[0] != 'rel':
                continue
            for x, c, flip in ((fn[2], fn[3], False), (fn[3], fn[2], True)):
                if not T.is_int(c) or T.is_int(x):
                    continue
                while T.op(x) == 'ix':
                    x = T.node(x)[1]
                cv = T.node(c)[1]
                lo, hi = d.get(x, (None, None))
                op = fn[1]
                if op == '==':
                    lo, hi = cv, cv
                elif (op == '<=' and not flip):
                    hi = cv if hi is None else min(hi, cv)
                elif (op == '<' and not flip):
                    hi = cv - 1 if hi is None else min(hi, cv - 1)
                elif (op == '<=' and flip):
                    lo = cv if lo is None else max(lo, cv)
                elif (op == '<' and flip):
                    lo = cv + 1 if lo is None else max(lo, cv + 1)
                d[x] = (lo, hi)
        tab = (st.facts, d)
        memo[key] = tab
    while T.op(t) == 'ix':
        t = T.node(t)[1]
    return tab[1].get(t)


def interval0(a, t, st=None, depth=0, seen=None):
    T = a.T
    if seen is None:
        seen = set()
    n = T.node(t)
    o = n[0]
    if o == 'int':
        return (n[1], n[1])
    if o == 'bool':
        return (0, 1)
    if o == 'ix':
        return interval(a, n[1], st, depth, seen)
    if t in a.octets:
        return (0, 255)
    if depth > 12:
        return None
    if o == 'phi':
        key = (n[1], n[2])
        if key in seen:
            return None          # value carried round a loop: not bounded by this analysis
        seen = seen | {key}
        src = T.phi_src.get(key, ())
        if not src:
            return None
        lo, hi = INF, -INF
        for s in src:
            r = interval(a, s, st, depth + 1, seen)
            if r is None:
                return None
            lo, hi = min(lo, r[0]), max(hi, r[1])
        return (lo, hi)
    if o == 'ite':
        r1 = interval(a, n[2], st, depth + 1, seen)
        r2 = interval(a, n[3], st, depth + 1, seen)
        if r1 is None or r2 is None:
            return None
        return (min(r1[0], r2[0]), max(r1[1], r2[1]))
    if o == 'mc' and n[1].split('::')[-1] in ('size', 'length'):
        return (0, INF)
    if o == 'op':
        op = n[1]
        x = interval(a, n[2], st, depth + 1, seen)
        y = interval(a, n[3], st, depth + 1, seen)
        if op == '&':
            # masking with a non-negative constant bounds the result whatever the other side is
            for r in (x, y):
                if r is not None and r[0] == r[1] and r[0] >= 0:
                    return (0, r[0])
        if op == '%' and y is not None and y[0] == y[1] and y[0] > 0:
            return (0, y[0] - 1)
        if x is None or y is None:
            return None
        if op == '+':
            return (x[0] + y[0], x[1] + y[1])
        if op == '-':
            return (x[0] - y[1], x[1] - y[0])
        if op == '*':
            c = [p * q for p in x for q in y if not (p in (INF, -INF) and q == 0) and not (q in (INF, -INF) and p == 0)]
            return (min(c), max(c)) if c else None
        if op == '<<':
            if x[0] >= 0 and 0 <= y[0] and y[1] < 64:
                return (x[0] << y[0], (x[1] << y[1]) if x[1] != INF else INF)
            return None
        if op == '>>':
            if x[0] >= 0 and 0 <= y[0] and y[1] < 64:
                return (0 if x[0] == INF else (x[0] >> y[1]), x[1] if x[1] == INF else (x[1] >> y[0]))
            return None
        if op == '|' or op == '^':
            if x[0] >= 0 and y[0] >= 0 and x[1] != INF and y[1] != INF:
                m = max(x[1], y[1])
                return (0, (1 << int(m).bit_length()) - 1)
            return None
        if op == '/':
            if y[0] > 0 and x[0] >= 0:
                return (x[0] // y[1] if y[1] != INF else 0, x[1] // y[0] if x[1] != INF else INF)
            return None
        return None
    return None
