"""Template evaluation of octet-sequence builders (A8): the value of one local octet vector at the
point where it is handed to a hash routine, as a sequence of concrete octets and symbolic blocks
('blk', parameter) -- push_back(expr) is evaluated with chosen sizes for the input containers,
insert(end, P.begin(), P.end()) and the copying loop `for (i < P.size()) v.push_back(P[i])` append
the block P, `if` is decided from the chosen sizes, library encoders called with the vector
(PacketScalarFourEncode, ...) are evaluated the same way.  Evaluation of a definition of data
layout over a handful of size assignments; anything else is NotEvaluable (reported, not guessed)."""
from . import evalx
from .facts import walk


class SeqEval:
    def __init__(self, prog, f, sizes, depth=0):
        self.prog = prog
        self.f = f
        self.sizes = sizes          # param name -> size
        self.params = {p['id']: p for p in f['params']}
        self.vecs = {}              # decl id -> list of items
        self.env = {}
        self.depth = depth
        self.result = None
        self.hashcall = None

    def call(self, e, env):
        k = e.get('k')
        if k == 'mcall' and e['f'].split('::')[-1] in ('size', 'length') and e['o'].get('k') == 'var':
            vid = e['o']['id']
            if vid in self.params and self.params[vid]['n'] in self.sizes:
                return self.sizes[self.params[vid]['n']]
            if vid in self.vecs:
                return sum(1 if isinstance(x, int) else self.sizes.get(x[1], 0) for x in self.vecs[vid])
        raise evalx.NotEvaluable('call')

    def ev(self, e):
        return evalx.ev(e, self.env, self.call)

    def vec_of(self, e):
        while isinstance(e, dict) and e.get('k') == 'cast':
            e = e['e']
        if isinstance(e, dict) and e.get('k') == 'var':
            return e['id']
        return None

    def whole(self, x, which):
        while isinstance(x, dict) and (x.get('k') == 'cast' or (x.get('k') == 'ctor' and len(x.get('a', [])) == 1)):
            x = x['e'] if x.get('k') == 'cast' else x['a'][0]
        if isinstance(x, dict) and x.get('k') == 'mcall' and x['f'].split('::')[-1] in (which, 'c' + which) and x['o'].get('k') == 'var':
            return x['o']['id']
        return None

    def block_of(self, vid):
        if vid in self.params and self.params[vid]['n'] in self.sizes:
            return [('blk', self.params[vid]['n'])]
        if vid in self.vecs:
            return list(self.vecs[vid])
        raise evalx.NotEvaluable('unknown source container')

    def hash_in(self, e, tracked):
        """a HashCompute* call inside an expression that is handed the sequence (or an input block)"""
        for x in walk(e):
            if x.get('k') == 'call' and x.get('f', '').split('::')[-1].startswith('HashCompute'):
                for a in x.get('a', []):
                    vid = self.vec_of(a)
                    if vid in tracked:
                        self.result = list(self.vecs[vid])
                        self.hashcall = x
                        return True
                for a in x.get('a', []):
                    vid = self.vec_of(a)
                    if vid in self.params and self.params[vid]['n'] in self.sizes and 'vector<unsigned char' in self.params[vid]['t']:
                        self.result = [('blk', self.params[vid]['n'])]
                        self.hashcall = x
                        return True
        return False

    def mentions(self, s, ids):
        return any(x.get('k') == 'var' and x.get('id') in ids for x in walk(s))

    def stmt(self, s):
        if s is None or self.result is not None:
            return
        k = s.get('k')
        if k == 'block':
            for x in s['s']:
                self.stmt(x)
            return
        if k == 'decl':
            for v in s['v']:
                t = v.get('t', '')
                if 'vector<unsigned char' in t and '&' not in t:
                    self.vecs[v['id']] = []
                elif v.get('init') is not None:
                    try:
                        self.env[v['id']] = evalx.wrap(self.ev(v['init']), t)
                    except evalx.NotEvaluable:
                        pass
            return
        tracked = set(self.vecs)
        if k == 'if':
            if self.hash_in(s.get('c'), tracked):
                return
            if not self.mentions(s, tracked):
                return
            c = self.ev(s['c'])
            self.stmt(s['t'] if c else s.get('e'))
            return
        if k == 'for':
            if not self.mentions(s, tracked):
                return
            # for (i = 0; i < P.size(); i++) v.push_back(P[i]);
            body = s['b']
            while isinstance(body, dict) and body.get('k') == 'block' and len(body['s']) == 1:
                body = body['s'][0]
            ini, cnd = s.get('i'), s.get('c')
            if isinstance(body, dict) and body.get('k') == 'mcall' and body['f'].split('::')[-1] == 'push_back' and self.vec_of(body['o']) in tracked and \
                    isinstance(ini, dict) and ini.get('k') == 'decl' and isinstance(cnd, dict) and cnd.get('op') == '<':
                iv = ini['v'][0]
                a = body['a'][0]
                while isinstance(a, dict) and a.get('k') == 'cast':
                    a = a['e']
                if isinstance(a, dict) and (a.get('k') == 'idx' or (a.get('k') == 'opcall' and a.get('op') == '[]')):
                    src = self.vec_of(a['a'][0])
                    ix = a['a'][1]
                    while isinstance(ix, dict) and ix.get('k') == 'cast':
                        ix = ix['e']
                    bnd = cnd['a'][1]
                    while isinstance(bnd, dict) and bnd.get('k') == 'cast':
                        bnd = bnd['e']
                    zero = iv.get('init', {}).get('k') == 'int' and iv['init'].get('v') == 0
                    if src is not None and isinstance(ix, dict) and ix.get('id') == iv['id'] and zero and \
                            isinstance(bnd, dict) and bnd.get('k') == 'mcall' and bnd['f'].split('::')[-1] in ('size', 'length') and self.vec_of(bnd['o']) == src:
                        self.vecs[self.vec_of(body['o'])].extend(self.block_of(src))
                        return
            raise evalx.NotEvaluable('loop over the sequence')
        if k == 'return':
            return
        if k == 'bin' and s.get('op') == ',':
            self.stmt(s['a'][0]); self.stmt(s['a'][1])
            return
        if k == 'mcall' and self.vec_of(s.get('o')) in tracked:
            v = self.vecs[self.vec_of(s['o'])]
            short = s['f'].split('::')[-1]
            if short == 'push_back':
                v.append(self.ev(s['a'][0]) & 0xFF)
                return
            if short == 'insert' and len(s['a']) == 3 and self.whole(s['a'][0], 'end') == self.vec_of(s['o']):
                b, e = self.whole(s['a'][1], 'begin'), self.whole(s['a'][2], 'end')
                if b is not None and b == e:
                    v.extend(self.block_of(b))
                    return
            if short == 'clear':
                del v[:]
                return
            if short in ('reserve', 'shrink_to_fit'):
                return
            raise evalx.NotEvaluable('vector operation ' + short)
        if k == 'call':
            args = s.get('a', [])
            used = [i for i, a in enumerate(args) if self.vec_of(a) in tracked]
            if not used:
                if s.get('f', '').split('::')[-1].startswith('HashCompute'):
                    self.hash_in(s, tracked)
                return
            name = s.get('f', '').split('::')[-1]
            if name.startswith('HashCompute'):
                self.result = list(self.vecs[self.vec_of(args[used[0]])])
                self.hashcall = s
                return
            g = self.prog.funcs.get(s.get('fid')) if s.get('fid') else None
            if g is not None and g.get('body') and self.depth < 3:
                sub = SeqEval(self.prog, g, {}, self.depth + 1)
                for prm, a in zip(g['params'], args):
                    vid = self.vec_of(a)
                    if vid in tracked:
                        sub.vecs[prm['id']] = self.vecs[vid]
                    else:
                        sub.env[prm['id']] = evalx.wrap(self.ev(a), prm['t'].replace('&', '').replace('const ', '').strip())
                sub.stmt(g['body'])
                return
            raise evalx.NotEvaluable('call ' + name)
        if self.mentions(s, tracked):
            # the hash call may sit inside a condition: if (!HashComputeFile(..., hash_input, hash)) ...
            for x in walk(s):
                if x.get('k') == 'call' and x.get('f', '').split('::')[-1].startswith('HashCompute'):
                    used = [a for a in x.get('a', []) if self.vec_of(a) in tracked]
                    if used:
                        self.result = list(self.vecs[self.vec_of(used[0])])
                        self.hashcall = x
                        return
            raise evalx.NotEvaluable('statement ' + str(k))

    def run(self):
        self.stmt(self.f['body'])
        return self.result
