"""State coverage of hand-written copy assignment (shared by C01/C02/C09/C10/C11).

A data member *carries state* when some member function may read it before writing it (an
upward-exposed use on the statement tree: a cache, a derived value, the key material itself).  A
user-provided `operator=` that does not write such a member leaves the assigned-to object with the
old value next to the new contents -- every later call answers from a mixture of two objects.  The
analysis is a first-access scan of the structured statement tree per member function (must-written
sets intersect at joins, loops may run zero times, handlers may be entered from anywhere), with
summaries for calls of other member functions and of library functions that receive the member by
non-const reference.  Scratch members (always written before they are read) are not state and owe
nothing."""
from .facts import walk

GMP_OBSERVERS = ('mpz_cmp', 'mpz_cmp_ui', 'mpz_cmp_si', 'mpz_cmpabs', 'mpz_cmpabs_ui', 'mpz_sgn', 'mpz_sizeinbase', 'mpz_get_ui', 'mpz_get_si',
                 'mpz_get_str', 'mpz_out_str', 'mpz_odd_p', 'mpz_even_p', 'mpz_probab_prime_p', 'mpz_jacobi', 'mpz_legendre', 'mpz_kronecker',
                 'mpz_tstbit', 'mpz_divisible_p', 'mpz_divisible_ui_p', 'mpz_congruent_p', 'mpz_fdiv_ui', 'mpz_cdiv_ui', 'mpz_tdiv_ui', 'mpz_export',
                 'mpz_fits_ulong_p', 'mpz_size', 'mpz_popcount', 'mpz_perfect_square_p', 'mpz_perfect_power_p', 'mpz_scan0', 'mpz_scan1', 'mpz_getlimbn')
WRITE_METHODS = ('clear', 'assign', 'operator=')
TOP = None          # "unreachable": the must-written set of a path that does not continue


def _meet(a, b):
    if a is TOP:
        return b
    if b is TOP:
        return a
    return a & b


def strip(e):
    while isinstance(e, dict) and (e.get('k') == 'cast' or e.get('k') == 'paren' or (e.get('k') == 'un' and e.get('op') in ('&', '*'))):
        e = e['e'] if 'e' in e else e['a'][0]
    return e


class ClassState:
    def __init__(self, prog, cls):
        self.prog = prog
        self.cls = cls
        self.c = prog.classes[cls]
        self.fields = {f['n']: f for f in self.c['fields']}
        self.methods = [prog.funcs[m['key']] for m in self.c.get('methods', []) if m['key'] in prog.funcs and prog.funcs[m['key']].get('body')]
        self.summ = {}          # function key -> (exposed {member: line}, must-written set, may-written set)
        self.param_summ = {}    # (function key, param index) -> 'write' | 'read'
        self.active = set()

    # -- member recognition ------------------------------------------------------------------
    def member_of(self, e):
        e = strip(e)
        if isinstance(e, dict) and e.get('k') == 'mem' and isinstance(e.get('o'), dict) and e['o'].get('k') == 'this' and e.get('n') in self.fields:
            return e['n']
        return None

    # -- summaries -----------------------------------------------------------------------------
    def summary(self, f):
        key = f['key']
        if key in self.summ:
            return self.summ[key]
        if key in self.active:
            return ({}, set(), set())
        self.active.add(key)
        sc = _Scan(self, f)
        w = sc.stmt(f['body'], frozenset())
        for ini in f.get('inits', []) or []:
            pass
        must = set(self.fields) if w is TOP else set(w)
        if sc.exits:
            ex = sc.exits[0]
            for x in sc.exits[1:]:
                ex = _meet(ex, x)
            must = set(_meet(frozenset(must) if w is not TOP else TOP, ex) or ())
        self.active.discard(key)
        self.summ[key] = (sc.exposed, must, sc.may)
        return self.summ[key]

    def param_first_access(self, g, idx):
        """is the idx-th (reference) parameter of library function g written before it is read?"""
        k = (g['key'], idx)
        if k in self.param_summ:
            return self.param_summ[k]
        self.param_summ[k] = 'write'
        if not g.get('body') or idx >= len(g['params']):
            return 'write'
        pid = g['params'][idx]['id']
        sc = _ParamScan(pid)
        sc.stmt(g['body'], False)
        self.param_summ[k] = 'read' if sc.exposed else 'write'
        return self.param_summ[k]

    def exposed_members(self, skip=()):
        out = {}
        for f in self.methods:
            if f.get('kind') in ('ctor', 'dtor') or f['q'].split('::')[-1] in skip:
                continue
            ex, _, _ = self.summary(f)
            for m, line in ex.items():
                out.setdefault(m, (f, line))
        return out


class _Scan:
    def __init__(self, cs, f):
        self.cs = cs
        self.f = f
        self.exposed = {}
        self.may = set()
        self.exits = []         # must-written sets at return statements

    def read(self, m, W, line):
        if W is not TOP and m not in W and m not in self.exposed:
            self.exposed[m] = line

    def write(self, m, W):
        self.may.add(m)
        return W if W is TOP else W | {m}

    # expressions: returns the must-written set after evaluation
    def expr(self, e, W):
        if not isinstance(e, dict):
            return W
        cs = self.cs
        k = e.get('k')
        line = e.get('l', self.f.get('line'))
        m = cs.member_of(e)
        if m is not None:
            self.read(m, W, line)
            return W
        if k in ('opcall', 'bin') and e.get('op') == '=':
            tgt = cs.member_of(e['a'][0])
            W = self.expr(e['a'][1], W)
            if tgt is not None:
                return self.write(tgt, W)
            return self.expr(e['a'][0], W)
        if k == 'opcall' and e.get('op') == '>>' and len(e.get('a', [])) == 2:
            W = self.expr(e['a'][0], W)
            tgt = cs.member_of(e['a'][1])
            if tgt is not None:
                return self.write(tgt, W)
            return self.expr(e['a'][1], W)
        if k == 'mcall':
            tgt = cs.member_of(e.get('o'))
            for a in e.get('a', []):
                W = self.expr(a, W)
            if tgt is not None:
                if e['f'].split('::')[-1] in WRITE_METHODS:
                    return self.write(tgt, W)
                self.read(tgt, W, line)
                if not e['f'].endswith('const') and e.get('fid', '').endswith('const') is False:
                    self.may.add(tgt)
                return W
            o = strip(e.get('o'))
            if isinstance(o, dict) and o.get('k') == 'this':
                g = cs.prog.funcs.get(e.get('fid'))
                if g is not None and g.get('body') and g.get('cls') == cs.cls:
                    ex, must, may = cs.summary(g)
                    for mm, ln in ex.items():
                        self.read(mm, W, line)
                    self.may |= may
                    return W if W is TOP else W | frozenset(must)
                return W
            return self.expr(e.get('o'), W)
        if k == 'call':
            name = e.get('f', '')
            args = e.get('a', [])
            if name.startswith('mpz_') or name.startswith('__gmpz_'):
                short = name.replace('__gmpz_', 'mpz_')
                if short in GMP_OBSERVERS:
                    for a in args:
                        W = self.expr(a, W)
                    return W
                for a in args[1:]:
                    W = self.expr(a, W)
                tgt = cs.member_of(args[0]) if args else None
                if tgt is not None:
                    return self.write(tgt, W)
                return self.expr(args[0], W) if args else W
            g = cs.prog.funcs.get(e.get('fid')) if e.get('fid') else None
            if g is not None and g.get('cls') == cs.cls and g.get('body') and g.get('kind') not in ('ctor',) and not g.get('static'):
                # an implicit-this call of another member function
                for a in args:
                    W = self.expr(a, W)
                ex, must, may = cs.summary(g)
                for mm, ln in ex.items():
                    self.read(mm, W, line)
                self.may |= may
                return W if W is TOP else W | frozenset(must)
            later = []
            for i, a in enumerate(args):
                tgt = cs.member_of(a)
                if tgt is None:
                    W = self.expr(a, W)
                    continue
                pt = g['params'][i]['t'] if g is not None and i < len(g['params']) else ''
                nonconst_ref = ('&' in pt or '*' in pt or '[' in pt) and not pt.startswith('const ')
                if g is None:
                    # a function without a body in the library: a member handed over is written only if the declared
                    # parameter is a non-const reference (unknown here) -- count it as a read, except for stream extraction
                    self.read(tgt, W, line)
                elif nonconst_ref and cs.param_first_access(g, i) == 'write':
                    later.append(tgt)
                else:
                    self.read(tgt, W, line)
                    if nonconst_ref:
                        self.may.add(tgt)
            for tgt in later:
                W = self.write(tgt, W)
            return W
        if k == 'bin' and e.get('op') in ('&&', '||'):
            W1 = self.expr(e['a'][0], W)
            self.expr(e['a'][1], W1)        # the right operand may not be evaluated
            return W1
        if k == 'cond':
            W1 = self.expr(e['a'][0], W)
            return _meet(self.expr(e['a'][1], W1), self.expr(e['a'][2], W1))
        if k == 'bin' and e.get('op', '').endswith('=') and e['op'] not in ('==', '!=', '<=', '>='):
            tgt = cs.member_of(e['a'][0])
            W = self.expr(e['a'][1], W)
            if tgt is not None:
                self.read(tgt, W, line)
                self.may.add(tgt)
                return W
            return self.expr(e['a'][0], W)
        if k == 'un' and e.get('op') in ('++', '--', 'post++', 'post--'):
            tgt = cs.member_of(e['a'][0])
            if tgt is not None:
                self.read(tgt, W, line)
                self.may.add(tgt)
                return W
        for key in ('o', 'e'):
            if isinstance(e.get(key), dict):
                W = self.expr(e[key], W)
        for a in e.get('a', []) or []:
            W = self.expr(a, W)
        if k == 'lambda' and isinstance(e.get('b'), dict):
            self.stmt(e['b'], W)
        return W

    def stmt(self, s, W):
        if s is None or W is TOP and False:
            return W
        if not isinstance(s, dict):
            return W
        k = s.get('k')
        if k == 'block':
            for x in s['s']:
                W = self.stmt(x, W)
            return W
        if k == 'decl':
            for v in s['v']:
                if v.get('init') is not None:
                    W = self.expr(v['init'], W)
            return W
        if k == 'if':
            W1 = self.expr(s.get('c'), W)
            return _meet(self.stmt(s.get('t'), W1), self.stmt(s.get('e'), W1) if s.get('e') is not None else W1)
        if k in ('for', 'while', 'forrange'):
            W1 = self.stmt(s.get('i'), W) if isinstance(s.get('i'), dict) else W
            if isinstance(s.get('r'), dict):
                W1 = self.expr(s['r'], W1)
            W1 = self.expr(s.get('c'), W1) if isinstance(s.get('c'), dict) else W1
            Wb = self.stmt(s.get('b'), W1)
            if isinstance(s.get('n'), dict):
                self.expr(s['n'], Wb)
            return W1
        if k == 'do':
            Wb = self.stmt(s.get('b'), W)
            return self.expr(s.get('c'), Wb) if isinstance(s.get('c'), dict) else Wb
        if k == 'switch':
            W1 = self.expr(s.get('c'), W)
            body = s['b']['s'] if isinstance(s.get('b'), dict) and s['b'].get('k') == 'block' else [s.get('b')]
            cur = TOP
            out = TOP
            has_default = False
            saved = getattr(self, 'brk', None)
            self.brk = []
            for x in body:
                while isinstance(x, dict) and x.get('k') in ('case', 'default'):
                    has_default = has_default or x['k'] == 'default'
                    cur = _meet(cur, W1) if cur is not TOP else W1
                    x = x.get('s')
                cur = self.stmt(x, cur) if cur is not TOP or True else cur
            out = cur
            for b in self.brk:
                out = _meet(out, b)
            if not has_default:
                out = _meet(out, W1)
            self.brk = saved
            return out
        if k == 'break':
            if getattr(self, 'brk', None) is not None:
                self.brk.append(W)
            return TOP
        if k == 'continue':
            return TOP
        if k == 'return':
            W = self.expr(s.get('e'), W) if isinstance(s.get('e'), dict) else W
            self.exits.append(W)
            return TOP
        if k == 'throw':
            if isinstance(s.get('e'), dict):
                self.expr(s['e'], W)
            return TOP
        if k == 'try':
            Wb = self.stmt(s.get('b'), W)
            out = Wb
            for h in s.get('h', []) or []:
                out = _meet(out, self.stmt(h.get('b') if isinstance(h, dict) and 'b' in h else h, W))
            return out
        if k in ('case', 'default'):
            return self.stmt(s.get('s'), W)
        if k == 'assert':
            return self.expr(s.get('c') or s.get('e'), W)
        return self.expr(s, W)


class _ParamScan:
    """first access of one parameter inside a library function: read or write"""

    def __init__(self, pid):
        self.pid = pid
        self.exposed = False

    def is_p(self, e):
        e = strip(e)
        return isinstance(e, dict) and e.get('k') == 'var' and e.get('id') == self.pid

    def expr(self, e, w):
        if not isinstance(e, dict) or self.exposed:
            return w
        if self.is_p(e):
            if not w:
                self.exposed = True
            return w
        k = e.get('k')
        if k in ('opcall', 'bin') and e.get('op') == '=' and self.is_p(e['a'][0]):
            self.expr(e['a'][1], w)
            return True
        if k == 'mcall' and self.is_p(e.get('o')):
            for a in e.get('a', []):
                self.expr(a, w)
            if e['f'].split('::')[-1] in WRITE_METHODS:
                return True
            if not w:
                self.exposed = True
            return w
        if k == 'call' and (e.get('f', '').startswith('mpz_')) and e.get('a') and self.is_p(e['a'][0]) and e['f'] not in GMP_OBSERVERS:
            for a in e['a'][1:]:
                self.expr(a, w)
            return True
        if k == 'bin' and e.get('op') in ('&&', '||'):
            w1 = self.expr(e['a'][0], w)
            self.expr(e['a'][1], w1)
            return w1
        for key in ('o', 'e'):
            if isinstance(e.get(key), dict):
                w = self.expr(e[key], w)
        for a in e.get('a', []) or []:
            w = self.expr(a, w)
        return w

    def stmt(self, s, w):
        if not isinstance(s, dict) or self.exposed:
            return w
        k = s.get('k')
        if k == 'block':
            for x in s['s']:
                w = self.stmt(x, w)
            return w
        if k == 'decl':
            for v in s['v']:
                if v.get('init') is not None:
                    w = self.expr(v['init'], w)
            return w
        if k == 'if':
            w1 = self.expr(s.get('c'), w)
            a = self.stmt(s.get('t'), w1)
            b = self.stmt(s.get('e'), w1) if s.get('e') is not None else w1
            return a and b
        if k in ('for', 'while', 'forrange', 'do', 'switch', 'try'):
            for key in ('i', 'c', 'b', 'n', 'r'):
                if isinstance(s.get(key), dict):
                    (self.stmt if key in ('i', 'b') else self.expr)(s[key], w)
            for h in s.get('h', []) or []:
                self.stmt(h.get('b') if isinstance(h, dict) and 'b' in h else h, w)
            return w
        if k in ('return', 'throw'):
            if isinstance(s.get('e'), dict):
                self.expr(s['e'], w)
            return True
        if k in ('case', 'default'):
            return self.stmt(s.get('s'), w)
        return self.expr(s, w)


def assignment_gaps(prog, cls):
    """members of `cls` that carry state but are not written by its user-provided copy assignment:
    list of (member, reading function, line); None when the class has no such operator"""
    if cls not in prog.classes:
        return None
    cs = ClassState(prog, cls)
    ops = [f for f in cs.methods if f['q'].split('::')[-1] == 'operator=' and f['params'] and cls in f['params'][0]['t']]
    if not ops:
        return None
    ex = cs.exposed_members(skip=('operator=',))
    out = []
    for op in ops:
        _, must, may = cs.summary(op)
        for m, (f, line) in sorted(ex.items()):
            t = cs.fields[m].get('t', '')
            if t.startswith('const ') or '&' in t:
                continue
            if m not in may and m not in must:
                out.append((m, f, line, op))
    return out, cs, ex, ops
