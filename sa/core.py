"""Rule framework: results, known findings, evidence, exit codes, and small term utilities
(polynomial normal form, pattern helpers) shared by the per-property rule modules."""
import hashlib, json, os, sys, time
from fractions import Fraction

from . import facts, sym

VERIF = facts.VERIF


class Result:
    def __init__(self, rule, key, status, msg, func=None, line=None, file=None, nec=True, detail=None):
        self.rule = rule          # e.g. R06a
        self.key = key            # semantic instance key (function + role), no line numbers
        self.status = status      # ok | violation | note
        self.msg = msg
        self.func = func
        self.line = line
        self.file = file
        self.nec = nec
        self.detail = detail

    def to_json(self):
        return {k: v for k, v in self.__dict__.items() if v is not None}


class Ctx:
    """what a rule module gets: the program, cached analyses, a result sink"""

    def __init__(self, prop, tier, prog):
        self.prop = prop
        self.tier = tier
        self.prog = prog
        self.results = []
        self.floors = []       # (rule, found, floor)
        self.info = {}
        self._an = {}
        self.terms = sym.Terms()

    def analysis(self, func, assume=None):
        k = (func['key'], tuple(sorted((assume or {}).items(), key=repr)))
        a = self._an.get(k)
        if a is None:
            a = sym.Analysis(func, self.prog, assume=assume)
            self._an[k] = a
        return a

    def rel(self, f):
        return self.prog.rel(f)

    def add(self, rule, key, status, msg, func=None, line=None, nec=True, detail=None):
        file = None
        fq = None
        if isinstance(func, dict):
            file = self.rel(func['file'])
            fq = func['q']
            if line is None:
                line = func['line']
        elif func is not None:
            fq = func
        if status == 'violation' and not nec:
            status = 'note'
        self.results.append(Result(rule, key, status, msg, fq, line, file, nec, detail))

    def ok(self, rule, key, msg, func=None, line=None, detail=None, nec=True):
        self.add(rule, key, 'ok', msg, func, line, True, detail)

    def bad(self, rule, key, msg, func=None, line=None, nec=True, detail=None):
        self.add(rule, key, 'violation', msg, func, line, nec, detail)

    def note(self, rule, key, msg, func=None, line=None, detail=None):
        self.add(rule, key, 'note', msg, func, line, False, detail)

    def floor(self, rule, found, floor):
        self.floors.append((rule, found, floor))


def load_known():
    p = os.path.join(VERIF, 'known_findings.json')
    if not os.path.exists(p):
        return []
    return json.load(open(p)).get('findings', [])


def finish(ctx, t0, level_explanation, assumptions, seed=0):
    """print verdict lines, write evidence, return exit code"""
    prop = ctx.prop
    known = [k for k in load_known() if k.get('property') == prop]
    known_keys = {k['key']: k for k in known if k.get('status') == 'known'}
    viol = [r for r in ctx.results if r.status == 'violation']
    notes = [r for r in ctx.results if r.status == 'note']
    oks = [r for r in ctx.results if r.status == 'ok']
    new_viol = []
    seen_known = set()
    for r in viol:
        if r.key in known_keys:
            if r.key not in seen_known:
                seen_known.add(r.key)
                print('KNOWN-FINDING: property=%s %s [%s] %s' % (prop, known_keys[r.key].get('what', r.msg), r.key, loc(r)))
        else:
            new_viol.append(r)
    broken = [(rule, found, fl) for (rule, found, fl) in ctx.floors if found < fl]
    rc = 0
    selftest = bool(os.environ.get('VERIF_SELFTEST'))
    # runs on scratch copies (self-test) leave /verif/evidence and the report directory alone
    repdir = os.path.join(os.environ['VERIF_REPO'], 'reports', prop) if selftest and os.environ.get('VERIF_REPO') else os.path.join(VERIF, 'build', 'reports', prop)
    os.makedirs(repdir, exist_ok=True)
    for r in new_viol:
        h = hashlib.sha1(r.key.encode()).hexdigest()[:12]
        path = os.path.join(repdir, h + '.json')
        json.dump({'property': prop, 'result': r.to_json()}, open(path, 'w'), indent=1)
        print('VIOLATION property=%s replay=%s' % (prop, path))
        print('  rule=%s instance=%s at %s: %s' % (r.rule, r.key, loc(r), r.msg))
        rc = 1
    for r in notes:
        if os.environ.get('VERIF_VERBOSE'):
            print('NOTE %s %s %s: %s' % (r.rule, r.key, loc(r), r.msg))
    if broken and rc == 0:
        for rule, found, fl in broken:
            print('ANALYSIS-BROKEN property=%s rule=%s instances=%d below confirmed floor %d' % (prop, rule, found, fl))
        rc = 2
    if os.environ.get('VERIF_DUMP'):
        json.dump(sorted([r.rule, r.key, r.status] for r in ctx.results), open(os.environ['VERIF_DUMP'], 'w'))
    per_rule = {}
    for r in ctx.results:
        d = per_rule.setdefault(r.rule, {'ok': 0, 'violation': 0, 'note': 0})
        d[r.status] += 1
    distinct = len(set(r.key for r in ctx.results if r.status in ('ok', 'violation')))
    samples = []
    seen_rules = set()
    for r in ctx.results:
        if r.rule not in seen_rules and r.status == 'ok':
            seen_rules.add(r.rule)
            samples.append({'rule': r.rule, 'instance': r.key, 'where': loc(r), 'verdict': r.status, 'what': r.msg, 'detail': r.detail})
    for r in (viol + notes)[:12]:
        samples.append({'rule': r.rule, 'instance': r.key, 'where': loc(r), 'verdict': r.status, 'what': r.msg})
    nob = len(oks) + len(viol)
    ev = {
        'property_id': prop,
        'tier': ctx.tier,
        'seed': seed,
        'level': 'other',
        'coverage': {
            'explanation': level_explanation,
            'obligations': nob,
            'discharged': len(oks),
            'evaluations': max(1, len(ctx.results)),
            'distinct_nontrivial': max(distinct, 0),
            'rule': 'one evaluation per rule instance (function x role); distinct = distinct semantic instance keys with a decided verdict',
            'samples': samples[:40],
            'units_parsed': len(ctx.prog.units),
            'functions_in_program': len(ctx.prog.funcs),
            'per_rule': per_rule,
            'floors': [{'rule': r, 'found': f, 'floor': fl} for r, f, fl in ctx.floors],
            'known_findings_matched': sorted(seen_known),
            'notes': [{'rule': r.rule, 'instance': r.key, 'where': loc(r), 'what': r.msg} for r in notes][:60],
            'info': ctx.info,
            'checker_cmd': './check %s --tier %s' % (prop, ctx.tier),
            'trusted_base': ['clang 14 front end (AST, types, overload resolution)', 'tmcgfacts extractor', 'sa/ rule engine',
                             'semantics table of GMP/libTMCG primitives in sa/sym.py'],
        },
        'assumptions': assumptions,
        'wall_s': round(time.time() - t0, 3),
        'violations': len(new_viol),
    }
    if not selftest:
        os.makedirs(os.path.join(VERIF, 'evidence'), exist_ok=True)
        tmp = os.path.join(VERIF, 'evidence', '.%s.%d.tmp' % (prop, os.getpid()))
        json.dump(ev, open(tmp, 'w'), indent=1, default=str)
        os.replace(tmp, os.path.join(VERIF, 'evidence', prop + '.json'))
    print('%s: %d rule instances, %d discharged, %d violations (%d known), %d notes, %.1fs -> exit %d' % (
        prop, len(ctx.results), len(oks), len(viol), len(viol) - len(new_viol), len(notes), time.time() - t0, rc))
    return rc


def loc(r):
    return '%s:%s (%s)' % (r.file or '?', r.line if r.line is not None else '?', r.func or '?')


# ---------------------------------------------------------------------- term utilities
def poly(T, t, atoms=None):
    """polynomial normal form {monomial(tuple of atom ids sorted): Fraction} of an integer term
    built from add/sub/mul/neg/shl-by-constant/int; anything else is an atom"""
    n = T.node(t)
    o = n[0]
    if o == 'int':
        return {(): Fraction(n[1])} if n[1] else {}
    if o == 'add':
        r = {}
        for a in n[1:]:
            padd(r, poly(T, a))
        return r
    if o == 'sub':
        r = dict(poly(T, n[1]))
        padd(r, poly(T, n[2]), -1)
        return r
    if o == 'neg':
        r = {}
        padd(r, poly(T, n[1]), -1)
        return r
    if o == 'mul':
        r = {(): Fraction(1)}
        for a in n[1:]:
            r = pmul(r, poly(T, a))
        return r
    if o == 'shl' and T.is_int(n[2]):
        return pmul(poly(T, n[1]), {(): Fraction(2 ** T.node(n[2])[1])})
    if o == 'op' and n[1] in ('+', '-', '*'):
        a, b = poly(T, n[2]), poly(T, n[3])
        if n[1] == '+':
            r = dict(a); padd(r, b); return r
        if n[1] == '-':
            r = dict(a); padd(r, b, -1); return r
        return pmul(a, b)
    return {(t,): Fraction(1)}


def padd(r, p, k=1):
    for m, c in p.items():
        v = r.get(m, 0) + k * c
        if v:
            r[m] = v
        else:
            r.pop(m, None)


def pmul(a, b):
    r = {}
    for m1, c1 in a.items():
        for m2, c2 in b.items():
            m = tuple(sorted(m1 + m2))
            v = r.get(m, 0) + c1 * c2
            if v:
                r[m] = v
            else:
                r.pop(m, None)
    return r


def eq_poly(T, fact):
    """for a fact (a == b): canonical difference polynomial (sign-normalised) as a frozenset"""
    n = T.node(fact)
    if n[0] != 'rel' or n[1] != '==':
        return None
    d = dict(poly(T, n[2]))
    padd(d, poly(T, n[3]), -1)
    return norm_poly(d)


def norm_poly(d):
    if not d:
        return frozenset()
    lead = sorted(d.items(), key=lambda kv: (len(kv[0]), kv[0]))[-1][1]
    if lead < 0:
        d = {m: -c for m, c in d.items()}
    return frozenset(d.items())


def facts_plain(T, fs):
    """strip all(...) tags: returns list of (tags or None, fact)"""
    out = []
    for f in fs:
        n = T.node(f)
        if n[0] == 'all':
            out.append((n[1], n[2]))
        else:
            out.append((None, f))
    return out


def is_rel(T, f, op=None):
    n = T.node(f)
    return n[0] == 'rel' and (op is None or n[1] == op)
