"""C10 Rabin key operations are consistent and tamper-evident (structural part).

R10a key validation: every accepting exit of TMCG_PublicKey::check requires the self-signature
     over name|email|type|m|y|nizk to verify; for keys with a validity proof the three stage
     counters are at least the library's round numbers and every round's equation is checked,
R10b generator / validator agreement of the proof format (magic, delimiter, field structure) and
     of the seed of the common random numbers,
R10c signature and ciphertext checks: verify accepts only if the recomputed hash equals the
     transmitted one; decrypt accepts only if the zero redundancy is found."""
from ..facts import walk, AnalysisBroken
from . import c11


def run(ctx):
    prog = ctx.prog
    r10a(ctx)
    r10b(ctx)
    r10e(ctx)
    r10f(ctx)
    r10c(ctx)


def _admissible_sizes(f):
    """the parameter-check prefix of a Rabin operation as a predicate over bits(m): leading declarations with evaluable
    initialisers, assert(c) and `if (c) return false;` statements, up to the first allocation or computation; returns the
    function b -> bool (evaluated with evalx, unsigned wrap-around included) and the number of conditions"""
    from .. import evalx
    conds = []
    decls = []
    for st in f['body']['s']:
        k = st.get('k')
        if k == 'decl':
            stop = False
            for v in st['v']:
                ini = v.get('init')
                if isinstance(ini, dict) and ini.get('k') == 'new':
                    stop = True
                    break
                decls.append(v)
            if stop:
                break
            continue
        if k == 'assert':
            conds.append(('pos', st.get('c') or st.get('e'), decls[:]))
            continue
        if k == 'if' and st.get('e') is None:
            t = st.get('t')
            while isinstance(t, dict) and t.get('k') == 'block' and len(t['s']) == 1:
                t = t['s'][0]
            if isinstance(t, dict) and t.get('k') == 'return' and isinstance(t.get('e'), dict) and t['e'].get('k') == 'bool' and not t['e'].get('v'):
                conds.append(('neg', st['c'], decls[:]))
                continue
        break

    def pred(b):
        def call(e, env):
            if e.get('k') == 'call' and e.get('f') == 'mpz_sizeinbase':
                return b
            raise evalx.NotEvaluable('call')
        for pol, c, ds in conds:
            env = {}
            for v in ds:
                if v.get('init') is None:
                    continue
                try:
                    env[v['id']] = evalx.wrap(evalx.ev(v['init'], env, call), v.get('t'))
                except evalx.NotEvaluable:
                    pass
            val = bool(evalx.ev(c, env, call))
            if (pol == 'pos' and not val) or (pol == 'neg' and val):
                return False
        return True
    return pred, len(conds)


def r10f(ctx):
    """encrypt and decrypt agree on the admissible key sizes: the parameter checks at the head of TMCG_PublicKey::encrypt
    (assertions) and of TMCG_SecretKey::decrypt (refusals) are evaluated as predicates over bits(m) for every size 0..8192
    (finite-domain evaluation with the declared unsigned widths) -- a size that encrypt serves and decrypt refuses means that
    every genuine ciphertext of such a key is refused"""
    from .. import evalx
    prog = ctx.prog
    enc = prog.fn('TMCG_PublicKey::encrypt', 0)
    dec = prog.fn('TMCG_SecretKey::decrypt', 0)
    try:
        pe, ne = _admissible_sizes(enc)
        pd, nd = _admissible_sizes(dec)
        diff = None
        for b in range(0, 8193):
            if pe(b) != pd(b):
                diff = (b, pe(b), pd(b))
                break
    except evalx.NotEvaluable as ex:
        ctx.note('R10f', 'R10f:encrypt<->decrypt:sizes', 'parameter checks not evaluable: %s' % ex, dec)
        ctx.floor('R10f', 0, 1)
        return
    if ne == 0 or nd == 0:
        ctx.note('R10f', 'R10f:encrypt<->decrypt:sizes', 'no parameter-check prefix recognised (encrypt %d, decrypt %d conditions)' % (ne, nd), dec)
    elif diff:
        ctx.bad('R10f', 'R10f:encrypt<->decrypt:sizes', 'encrypt and decrypt disagree on the admissible modulus sizes: for a %d-bit modulus encrypt %s and decrypt %s '
                '(first of the sizes 0..8192 where they differ): genuine ciphertexts of such keys are refused' % (
                    diff[0], 'proceeds' if diff[1] else 'asserts', 'proceeds' if diff[2] else 'refuses'), dec)
    else:
        ctx.ok('R10f', 'R10f:encrypt<->decrypt:sizes', 'the %d assertions of encrypt and the %d refusals of decrypt admit the same modulus sizes (0..8192 bits evaluated)' % (ne, nd), dec)
    ctx.floor('R10f', 1, 1)


def r10e(ctx):
    """copy assignment of the two key classes writes every member that carries state (sa/statecover.py): a member that some
    member function reads before writing it -- key material, a derived root exponent, a cached key id -- and that
    operator= leaves alone makes the assigned-to object answer from a mixture of the old and the new key: valid signatures
    of the new key are refused, the stale id is stamped into ciphertexts, check() refuses an untouched generated key"""
    from ..statecover import assignment_gaps
    n = 0
    for cls in ('TMCG_PublicKey', 'TMCG_SecretKey'):
        r = assignment_gaps(ctx.prog, cls)
        if r is None:
            ctx.note('R10e', 'R10e:%s' % cls, 'no user-provided copy assignment (the implicit one copies every member)', None)
            n += 1
            continue
        gaps, cs, ex, ops = r
        n += 1
        if gaps:
            for m, f, line, op in gaps:
                ctx.bad('R10e', 'R10e:%s:%s' % (cls, m), 'operator= does not write the member %s, which %s reads before writing it (line %d): after '
                        'an assignment the object combines the new key with the old %s' % (m, f['q'], line, m), op)
        else:
            ctx.ok('R10e', 'R10e:%s' % cls, 'operator= writes all %d state-carrying members (%s); scratch members: %s' % (
                len(ex), ', '.join(sorted(ex)), ', '.join(sorted(set(cs.fields) - set(ex))) or 'none'), ops[0])
    ctx.floor('R10e', n, 2)


def macro_consts(f, prefix):
    out = {}
    for e in walk(f.get('body')):
        if e.get('k') == 'int' and e.get('m', '').startswith(prefix):
            out[e['m']] = e['v']
    return out


def r10a(ctx):
    prog = ctx.prog
    f = prog.fn('TMCG_PublicKey::check', 0)
    a = ctx.analysis(f)
    T = a.T
    exits = a.accept_exits()
    if not exits:
        ctx.bad('R10a', 'R10a:check:accept', 'TMCG_PublicKey::check has no accepting exit', f)
        return
    # the round numbers are taken from the generator (what honest keys contain), not from the validator
    stages = macro_consts(prog.fn('TMCG_SecretKey::generate', 0), 'TMCG_KEY_NIZK_STAGE')
    ctx.floor('R10a-stages', len(stages), 3)
    n_sig = 0
    ok_sig = True
    nizk_exits = 0
    ok_stage = {k: True for k in stages}
    for n_, facts in exits:
        n_sig += 1
        sig = False
        for fa in facts:
            fn_ = T.node(fa)
            if fn_[0] == 'truthy':
                inner = T.node(fn_[1])
                if inner[0] == 'mc' and inner[1].endswith('::verify'):
                    data = inner[3] if len(inner) > 3 else None
                    if data is not None:
                        names = set(T.node(x)[1] for x in T.subterms(data) if T.node(x)[0] == 'this')
                        if {'name', 'email', 'type', 'm', 'y', 'nizk'} <= names and T.mk('this', 'sig') in inner[3:]:
                            sig = True
        if not sig:
            ok_sig = False
        plain = any(T.node(fa)[0] == 'rel' and T.node(fa)[1] == '==' and 'find' in T.show(fa, 3) and 'npos' in T.show(fa, 4) for fa in facts) or \
            any(T.node(fa)[0] == 'rel' and T.node(fa)[1] == '==' and T.contains(fa, lambda z: z[0] == 'mc' and z[1].endswith('::find')) for fa in facts)
        if plain:
            continue
        nizk_exits += 1
        # the k-th stage loop (in source order) runs to the k-th parsed counter: that counter must
        # be at least the k-th round number
        sl = sorted((h for h in a.loops_on_accept_path() if a.loop_bound.get(h) and
                     T.contains(a.loop_bound[h][0], lambda z: z[0] == 'callr' and z[1] in ('strtoul', 'std::strtoul'))),
                    key=lambda h: a.cfg.loops[h]['line'])
        for idx, name in enumerate(sorted(stages)):
            val = stages[name]
            if idx >= len(sl):
                ok_stage[name] = False
                continue
            B = a.loop_bound[sl[idx]][0]
            got = any(T.node(fa)[0] == 'rel' and T.node(fa)[1] == '<=' and T.is_int(T.node(fa)[2]) and T.node(T.node(fa)[2])[1] >= val and
                      T.node(fa)[3] == B for fa in facts)
            if not got:
                ok_stage[name] = False
    (ctx.ok if ok_sig else ctx.bad)('R10a', 'R10a:check:self-signature', 'every accepting exit requires the self-signature over name|email|type|m|y|nizk to verify' if ok_sig else
                                    'a key can be accepted although its self-signature over name|email|type|m|y|nizk was not verified', f)
    if not stages or nizk_exits == 0:
        ctx.bad('R10a', 'R10a:check:stages', 'validity-proof section not found in TMCG_PublicKey::check (anchor changed)', f, nec=False)
    for name in sorted(stages):
        okv = ok_stage[name] and nizk_exits > 0
        (ctx.ok if okv else ctx.bad)('R10a', 'R10a:check:' + name, 'a proof with fewer than %s = %d rounds is refused' % (name, stages[name]) if okv else
                                     'a validity proof with fewer than %s rounds is accepted' % name, f)
    # every stage loop checks its equation in every iteration
    eq_loops = 0
    for h in a.loops_on_accept_path():
        b = a.loop_bound.get(h)
        if not b or not T.contains(b[0], lambda z: z[0] == 'callr' and z[1] in ('strtoul', 'std::strtoul')):
            continue
        itf = a.iteration_facts(h)
        has_eq = any((T.node(fa)[0] == 'rel' and T.node(fa)[1] == '==' and T.contains(fa, lambda z: z[0] in ('powm', 'hash'))) or
                     (T.node(fa)[0] in ('truthy', 'if') and T.contains(fa, lambda z: z[0] == 'congruent')) or
                     (T.node(fa)[0] == 'rel' and T.node(fa)[1] == '==' and T.contains(fa, lambda z: z[0] in ('jacobi', 'gcd'))) for fa in itf)
        eq_loops += 1
        key = 'R10a:check:stage-loop@%d' % eq_loops
        (ctx.ok if has_eq else ctx.bad)('R10a', key, 'each round of this stage checks its relation against the common random number' if has_eq else
                                        'a stage of the validity proof reads its rounds without checking them', f, line=a.cfg.loops[h]['line'])
    ctx.floor('R10a-stage-loops', eq_loops, 3)


def local_stream_tokens(f, pick):
    """Fmt tokens of a *local* stream / string variable selected by pick(vardecl)"""
    vid = None
    for e in walk(f.get('body')):
        if e.get('k') == 'decl':
            for v in e['v']:
                if pick(v):
                    vid = v['id']
    if vid is None:
        return None
    fm = c11.Fmt(f)
    fm.outs = set([vid])
    fm.strs = set([vid])
    fm.ins = set()
    return fm.tokens()


def r10b(ctx):
    prog = ctx.prog
    c11.Fmt.prog = prog
    gen = prog.fn('TMCG_SecretKey::generate', 0)
    chk = prog.fn('TMCG_PublicKey::check', 0)
    # writer: the ostringstream that receives "nzk^"
    writers = []
    for e in walk(gen['body']):
        if e.get('k') == 'opcall' and e.get('op') == '<<' and isinstance(e['a'][1], dict) and e['a'][1].get('k') == 'str' and e['a'][1]['v'].startswith('nzk'):
            r = e['a'][0]
            while isinstance(r, dict) and r.get('k') == 'opcall':
                r = r['a'][0]
            if isinstance(r, dict) and r.get('k') == 'var':
                writers.append(r['id'])
    if not writers:
        ctx.bad('R10b', 'R10b:format', 'the generator no longer writes the proof block (anchor changed)', gen, nec=False)
        return
    wt = local_stream_tokens(gen, lambda v: v['id'] == writers[0])
    # reader: calls of TMCG_ParseHelper on the string that holds the proof
    fm = c11.Fmt(chk)
    rt = fm.tokens()
    wm, wd, ws = c11.delim_signature_writer(wt)
    # the reader parses two blocks in check(): restrict to what follows the magic 'nzk'
    rm = rd = None
    rs = []
    seen = False

    def take(ts):
        nonlocal rm, rd, seen
        out = []
        for t in ts:
            if t[0] == 'magic':
                if t[1] == wm:
                    rm, rd, seen = t[1], t[2], True
                continue
            if not seen:
                continue
            if t[0] == 'F' and (len(t) < 3 or t[2] == rd):
                out.append('F')
            elif t[0] == 'loop':
                inner = take(t[1])
                if inner:
                    out.append(('loop', tuple(inner)))
        return out
    rs = tuple(take(rt))
    probs = []
    if rm != wm:
        probs.append('generator writes magic %r, the validator expects %r' % (wm, rm))
    if rd != wd:
        probs.append('delimiter %r written, %r parsed' % (wd, rd))
    if flat(ws) != flat(rs):
        probs.append('structure written [%s] differs from the structure read [%s]' % (c11.show_struct(ws), c11.show_struct(rs)))
    if probs:
        ctx.bad('R10b', 'R10b:format', 'generated validity proofs are rejected by the validator: ' + '; '.join(probs), chk)
    else:
        ctx.ok('R10b', 'R10b:format', 'proof block: magic %r, delimiter %r, structure [%s] agree between generate and check' % (wm, wd, c11.show_struct(ws)), gen)
    # both sides seed the common random numbers with m ^ y
    def seed(f):
        for e in walk(f['body']):
            if e.get('k') == 'opcall' and e.get('op') == '<<' and isinstance(e['a'][1], dict):
                # input << m << "^" << y
                chain = []
                x = e
                while isinstance(x, dict) and x.get('k') == 'opcall' and x.get('op') == '<<':
                    chain.append(x['a'][1])
                    x = x['a'][0]
                names = [c.get('n') if c.get('k') in ('mem', 'var') else (c.get('v') if c.get('k') == 'str' else None) for c in reversed(chain)]
                if names[:3] == ['m', '^', 'y']:
                    return names[:3]
        return None
    sg, sc = seed(gen), seed(chk)
    oks = sg is not None and sg == sc
    (ctx.ok if oks else ctx.bad)('R10b', 'R10b:seed', 'both sides derive the common random numbers from m ^ y' if oks else
                                 'generator and validator seed the common random numbers differently (%s vs %s)' % (sg, sc), chk)


def flat(st):
    """field structure with loops that carry no field removed (retry loops)"""
    out = []
    for x in st:
        if isinstance(x, tuple):
            inner = flat(x[1])
            if inner:
                out.append(('loop', inner))
        else:
            out.append(x)
    # a loop whose body is a single loop is the retry loop around it
    out2 = []
    for x in out:
        while isinstance(x, tuple) and len(x[1]) == 1 and isinstance(x[1][0], tuple):
            x = x[1][0]
        out2.append(x)
    return tuple(out2)


def r10c(ctx):
    prog = ctx.prog
    f = prog.fn('TMCG_PublicKey::verify', 0)
    a = ctx.analysis(f)
    T = a.T
    exits = a.accept_exits()

    def hash_compare(facts):
        for fa in facts:
            for x in T.subterms(fa):
                n = T.node(x)
                if n[0] == 'rel' and n[1] == '==' and (T.is_int(n[2], 0) or T.is_int(n[3], 0)):
                    other = n[3] if T.is_int(n[2], 0) else n[2]
                    on = T.node(other)
                    if on[0] == 'callr' and on[1] == 'memcmp' and any(T.contains(y, lambda z: z[0] == 'hash' and z[1] == 'tmcg_h') for y in on[2:] if isinstance(y, int)):
                        return True
        return False
    okv = bool(exits) and all(hash_compare(facts) for n_, facts in exits)
    (ctx.ok if okv else ctx.bad)('R10c', 'R10c:verify:hash', 'a signature is accepted only if the hash recomputed over data and salt equals the transmitted one' if okv else
                                 'TMCG_PublicKey::verify accepts without comparing the recomputed hash', f)
    # the redundancy gamma: everything of the recovered value that is neither the hash w nor the salt r
    # must be compared with the mask generator's output -- a shorter comparison leaves the tail free,
    # and a value with a free tail can be produced by an integer square root without the key
    from ..core import poly, padd
    exp = [ev for nid, ev in a.all_events('call') if ev[1] == 'mpz_export' and len(ev[2]) >= 7]
    whole = None
    if exp:
        whole = exp[0][2][3]
    okg = False
    why = 'no comparison of the redundancy with the mask generator output guards acceptance'
    if whole is not None and exits:
        okg = True
        for n_, facts in exits:
            lens_h, lens_g = [], []
            for fa in facts:
                for x in T.subterms(fa):
                    nn = T.node(x)
                    if nn[0] == 'callr' and nn[1] == 'memcmp' and len(nn) == 5:
                        if any(T.contains(y, lambda z: z[0] == 'hash' and z[1] == 'tmcg_h') for y in nn[2:4]):
                            lens_h.append(nn[4])
                        elif any(T.contains(y, lambda z: z[0] in ('hash', 'out', 'callr') and 'tmcg_g' in str(z[1:3])) for y in nn[2:4]):
                            lens_g.append(nn[4])
            good = False
            for lh in lens_h:
                for lg in lens_g:
                    d = poly(T, whole)
                    padd(d, poly(T, lh), -1)
                    padd(d, poly(T, lg), -1)
                    rest = {m: c for m, c in d.items() if c}
                    if set(rest.keys()) <= {()} and rest.get((), 0) > 0:
                        good = True
            if not good:
                okg = False
                why = 'the redundancy comparison does not cover everything behind hash and salt (lengths compared: hash %s, redundancy %s; recovered value %s octets)' % (
                    [T.show(x, 2) for x in lens_h], [T.show(x, 2) for x in lens_g], T.show(whole, 2))
    (ctx.ok if okg else ctx.bad)('R10c', 'R10c:verify:redundancy', 'hash, salt and redundancy together cover the whole recovered value; the redundancy is compared in full' if okg else why, f)
    g = prog.fn('TMCG_SecretKey::decrypt', 0)
    b = ctx.analysis(g)
    Tb = b.T
    exits = b.accept_exits()

    def redundancy(facts):
        for fa in facts:
            for x in Tb.subterms(fa):
                n = Tb.node(x)
                if n[0] == 'rel' and n[1] == '==' and (Tb.is_int(n[2], 0) or Tb.is_int(n[3], 0)):
                    other = n[3] if Tb.is_int(n[2], 0) else n[2]
                    on = Tb.node(other)
                    if on[0] == 'callr' and on[1] == 'memcmp':
                        return True
        return False
    okd = bool(exits) and all(redundancy(facts) for n_, facts in exits)
    (ctx.ok if okd else ctx.bad)('R10c', 'R10c:decrypt:redundancy', 'a plaintext is handed out only if the zero redundancy of the padding is found' if okd else
                                 'TMCG_SecretKey::decrypt accepts a root without checking the padding redundancy', g)
    okq = bool(exits) and all(any(Tb.node(fa)[0] == 'truthy' and Tb.contains(fa, lambda z: z[0] == 'callr' and z[1] == 'tmcg_mpz_qrmn_p') for fa in facts) for n_, facts in exits)
    (ctx.ok if okq else ctx.bad)('R10c', 'R10c:decrypt:square', 'roots are taken only of values that are squares modulo both primes' if okq else
                                 'decrypt takes square roots of a value that was not tested to be a square modulo both primes (the negated ciphertext m - c decrypts as well)', g)


EXPLANATION = ("Static gate and agreement analysis of the Rabin key code: every accepting exit of TMCG_PublicKey::check requires the "
               "self-signature over name|email|type|m|y|nizk; for keys with a validity proof each stage counter is compared with the "
               "library's round number and each stage loop checks its relation per round; the proof block the generator writes has the "
               "magic, delimiter and field structure the validator parses and both seed the common random numbers with m^y; verify accepts "
               "only on equality of the recomputed hash, decrypt only on the padding redundancy; copy assignment of the key classes writes every "
               "member that a member function reads before writing it (no stale key id or root exponent after `a = b`). Round-trip success for every key size and "
               "rejection of every altered field are not decided.")
ASSUMPTIONS = ["the hash functions tmcg_h / tmcg_g are collision resistant (not checked)", "writer/reader structure is compared up to retry loops"]
