"""C06 Parameter validation accepts exactly well-formed groups.

R06a clause inventory of every CheckGroup (guard domination over normalised terms),
R06b element checks, R06f no refusal outside the three clauses of an element test, R06c sibling matrix, R06e generator-derivation agreement between
constructor and checker (writer/reader agreement of the 'ggen' procedure)."""
from ..core import eq_poly, poly, padd, facts_plain, norm_poly
from fractions import Fraction

# class -> specification; generators are taken from the class's own members
GROUP_CLASSES = {
    'BarnettSmartVTMF_dlog': {'form': 'kq+1', 'gens': ['g']},   # h is the common key, not a parameter
    'BarnettSmartVTMF_dlog_GroupQR': {'form': '2q+1', 'gens': ['g']},
    'PedersenCommitmentScheme': {'form': 'kq+1'},
    'HooghSchoenmakersSkoricVillegasVRHE': {'form': 'kq+1'},
    'PedersenVSS': {'form': 'kq+1', 'canonical_always': True},
    'GennaroJareckiKrawczykRabinDKG': {'form': 'kq+1'},
    'GennaroJareckiKrawczykRabinNTS': {'form': 'kq+1', 'delegate': 'GennaroJareckiKrawczykRabinDKG::CheckGroup'},
    'CanettiGennaroJareckiKrawczykRabinRVSS': {'form': 'kq+1'},
    'CanettiGennaroJareckiKrawczykRabinZVSS': {'form': 'kq+1'},
    'CanettiGennaroJareckiKrawczykRabinDKG': {'form': 'kq+1', 'delegate': 'CanettiGennaroJareckiKrawczykRabinRVSS::CheckGroup'},
    'CanettiGennaroJareckiKrawczykRabinDSS': {'form': 'kq+1', 'delegate': 'CanettiGennaroJareckiKrawczykRabinDKG::CheckGroup'},
    'PedersenTrapdoorCommitmentScheme': {'form': 'kq+1'},
    'JareckiLysyanskayaRVSS': {'form': 'kq+1'},
    'NaorPinkasEOTP': {'form': 'kq+1'},
}
# pure delegates: must return the delegate's verdict (plus the listed extra size clauses)
DELEGATES = {
    'GrothSKC': {'delegate': 'PedersenCommitmentScheme::CheckGroup'},
    'GrothVSSHE': {'delegate': 'GrothSKC::CheckGroup', 'bits_q_ge': ['l_e', 'l_e_nizk']},
    'JareckiLysyanskayaEDCF': {'delegate': 'JareckiLysyanskayaRVSS::CheckGroup'},
}
ELEMENT_CLASSES = {
    'BarnettSmartVTMF_dlog': 'order', 'BarnettSmartVTMF_dlog_GroupQR': 'jacobi',
    'HooghSchoenmakersSkoricVillegasPUBROTZK': 'order', 'HooghSchoenmakersSkoricVillegasVRHE': 'order',
    'PedersenVSS': 'order', 'GennaroJareckiKrawczykRabinDKG': 'order',
    'CanettiGennaroJareckiKrawczykRabinRVSS': 'order', 'CanettiGennaroJareckiKrawczykRabinZVSS': 'order',
    'CanettiGennaroJareckiKrawczykRabinDKG': 'order', 'CanettiGennaroJareckiKrawczykRabinDSS': 'order',
    'JareckiLysyanskayaRVSS': 'order', 'NaorPinkasEOTP': 'order',
}
MPZ = '__mpz_struct[1]'


def all_fields(prog, cls):
    out = []
    seen = set()
    st = [cls]
    while st:
        c = st.pop()
        if c in seen or c not in prog.classes:
            continue
        seen.add(c)
        out.extend(prog.classes[c]['fields'])
        st.extend(prog.classes[c]['bases'])
    return out


class M:
    """matchers over one analysis' accept facts"""

    def __init__(self, a, fs):
        self.a = a
        self.T = a.T
        self.facts = facts_plain(a.T, fs)

    def this(self, name):
        return self.T.mk('this', name)

    def rels(self, op):
        for tags, f in self.facts:
            n = self.T.node(f)
            if n[0] == 'rel' and n[1] == op:
                yield tags, n[2], n[3]

    def has_rel(self, op, x, y, sym=False, tagged=None):
        for tags, a, b in self.rels(op):
            if tagged is not None and not tagged(tags):
                continue
            if (a == x and b == y) or (sym and a == y and b == x):
                return True
        return False

    def lt(self, x, y, tagged=None):
        """x < y in any of the equivalent normal forms with integer constants"""
        T = self.T
        if self.has_rel('<', x, y, tagged=tagged):
            return True
        if T.is_int(x) and self.has_rel('<=', T.int(T.node(x)[1] + 1), y, tagged=tagged):
            return True
        if T.is_int(y) and self.has_rel('<=', x, T.int(T.node(y)[1] - 1), tagged=tagged):
            return True
        return False

    def le(self, x, y, tagged=None):
        T = self.T
        if self.has_rel('<=', x, y, tagged=tagged):
            return True
        if T.is_int(x) and self.has_rel('<', T.int(T.node(x)[1] - 1), y, tagged=tagged):
            return True
        return False

    def eq(self, x, y, tagged=None):
        return self.has_rel('==', x, y, sym=True, tagged=tagged)

    def ne(self, x, y, tagged=None):
        return self.has_rel('!=', x, y, sym=True, tagged=tagged)

    def truthy(self, pred):
        for tags, f in self.facts:
            n = self.T.node(f)
            if n[0] == 'truthy' and pred(self.T.node(n[1]), n[1]):
                return True
        return False

    def falsy(self, pred):
        for tags, f in self.facts:
            n = self.T.node(f)
            if n[0] == 'falsy' and pred(self.T.node(n[1]), n[1]):
                return True
        return False

    def eq_polys(self):
        out = []
        for tags, f in self.facts:
            if tags is None:
                p = eq_poly(self.T, f)
                if p is not None:
                    out.append(p)
        return out


def canon_str(a, t, subst, depth=0, stack=()):
    """printable canonical form of a term with member values replaced by member names and phi
    nodes expanded into the sorted set of their sources"""
    T = a.T
    if t in subst:
        return subst[t]
    n = T.node(t)
    o = n[0]
    if o == 'phi':
        if t in stack or depth > 12:
            return 'SELF'
        srcs = T.phi_src.get((n[1], n[2]), ())
        return 'phi{' + '|'.join(sorted(set(canon_str(a, s, subst, depth + 1, stack + (t,)) for s in srcs))) + '}'
    if o in ('int', 'str', 'bool'):
        return repr(n[1])
    if o == 'this':
        return 'this.' + n[1]
    if o == 'fresh':
        return 'fresh'
    if o in ('param', 'local', 'glob', 'iv', 'wire', 'rand', 'sym', 'new', 'null', 'thisobj', 'float'):
        return o
    if depth > 12:
        return o + '(..)'
    from ..sym import RAWARGS
    raw = RAWARGS.get(o, ())
    parts = []
    for i, x in enumerate(n[1:]):
        if i in raw or not isinstance(x, int) or isinstance(x, bool):
            # node ids inside rd/cat are positions, not semantics
            parts.append(str(x) if o not in ('rd', 'upd') else '_')
        else:
            parts.append(canon_str(a, x, subst, depth + 1, stack))
    return o + '(' + ','.join(parts) + ')'


def run(ctx):
    prog = ctx.prog
    T = None
    matrix = {}
    n_clauses = 0
    # ------------------------------------------------------------------ R06a
    for cls, spec in GROUP_CLASSES.items():
        f = prog.fn(cls + '::CheckGroup', 0)
        fields = all_fields(prog, cls)
        fnames = {x['n']: x['t'] for x in fields}
        assume = {}
        if 'canonical_g' in fnames:
            assume[('m', 'canonical_g')] = True
        a = ctx.analysis(f, assume)
        fs = a.accept_facts()
        key0 = 'R06a:' + cls
        if fs is None:
            ctx.bad('R06a', key0 + ':accept', 'CheckGroup has no accepting exit', f)
            continue
        m = M(a, fs)
        T = a.T
        p, q = m.this('p'), m.this('q')
        row = matrix.setdefault(cls, {})

        def clause(name, okv, what, line=None):
            nonlocal n_clauses
            n_clauses += 1
            row[name] = bool(okv)
            if okv:
                ctx.ok('R06a', '%s:%s' % (key0, name), what, f)
            else:
                ctx.bad('R06a', '%s:%s' % (key0, name), 'accepting exit of CheckGroup is not guarded by: ' + what, f)

        clause('size_p', m.le(m.this('F_size'), T.mk('bits', p)), 'bits(p) >= F_size')
        clause('size_q', m.le(m.this('G_size'), T.mk('bits', q)), 'bits(q) >= G_size')
        clause('prime_p', m.truthy(lambda n, t: n[0] == 'isprime' and n[1] == p and T.is_int(n[2]) and T.node(n[2])[1] >= 1), 'p is (probable) prime')
        clause('prime_q', m.truthy(lambda n, t: n[0] == 'isprime' and n[1] == q and T.is_int(n[2]) and T.node(n[2])[1] >= 1), 'q is (probable) prime')
        eqs = m.eq_polys()
        if spec['form'] == '2q+1':
            want = {(p,): Fraction(1), (q,): Fraction(-2), (): Fraction(-1)}
            clause('form', norm_poly(want) in eqs, 'p = 2q + 1')
            clause('p_7_mod_8', m.truthy(lambda n, t: n[0] == 'callr' and n[1] == 'mpz_congruent_ui_p' and n[2] == p and T.is_int(n[3], 7) and T.is_int(n[4], 8))
                   or m.eq(T.mk('mod', p, T.int(8)), T.int(7)), 'p = 7 (mod 8)')
            Ks = []
        else:
            Ks = []
            if fnames.get('k') == MPZ:
                Ks.append(m.this('k'))
            Ks.append(T.mk('div', T.mk('sub', p, T.int(1)), q))
            okf = False
            Kused = None
            for K in Ks:
                want = {(p,): Fraction(1), tuple(sorted((q, K))): Fraction(-1), (): Fraction(-1)}
                if norm_poly(want) in eqs:
                    okf = True
                    Kused = K
            Kdiv = T.mk('div', T.mk('sub', p, T.int(1)), q)
            if not okf and (m.eq(T.mk('mod', T.mk('sub', p, T.int(1)), q), T.int(0)) or
                            m.truthy(lambda n, t: n[0] == 'divisible' and n[1] == T.mk('sub', p, T.int(1)) and n[2] == q)):
                # q | p - 1 established directly: then p = kq + 1 for the quotient k = (p-1) div q
                okf = True
                Kused = Kdiv
            clause('form', okf, 'p = kq + 1')
            okc = any(m.eq(T.int(1), T.mk('gcd', *sorted((q, K)))) for K in Ks)
            if not okc and row.get('prime_q'):
                # for a prime q: gcd(q, k) = 1 iff q does not divide k
                okc = any(m.falsy(lambda n, t, K=K: n[0] == 'divisible' and n[1] == K and n[2] == q) or m.ne(T.mk('mod', K, q), T.int(0)) for K in Ks)
            clause('coprime', okc, 'gcd(q, k) = 1')
            if Kused is not None and T.op(Kused) == 'div':
                # k is computed by a division: q != 0 must be established (C12 shares this clause)
                row['q_nonzero'] = m.ne(T.int(0), q) or m.lt(T.int(0), q)        # q > 0 implies q != 0
                if not row['q_nonzero']:
                    ctx.note('R06a', key0 + ':q_nonzero', 'k = (p-1) div q computed without q != 0 guard', f)
        # generators
        gens = []
        for g in spec.get('gens', ('g', 'h')):
            if fnames.get(g) == MPZ:
                gens.append((g, m.this(g), None))
            elif fnames.get(g, '').startswith('std::vector<__mpz_struct *'):
                gens.append((g + '[*]', T.mk('elem', m.this(g), '*'), g))
        pm1 = T.mk('sub', p, T.int(1))
        for name, gt, vec in gens:
            tagged = None
            if vec:
                def tagged(tags, vec=vec):
                    # established in a counting loop over the whole vector
                    if not tags:
                        return False
                    for L in tags:
                        b = a.loop_bound.get(L)
                        if not b:
                            return False
                        bound, op, init, step = b
                        bn = T.node(bound)
                        full = (bn[0] == 'mc' and bn[1].endswith('::size') and bn[2] == m.this(vec) and op == '<' and step == 1)
                        if not full:
                            return False
                    return True
            else:
                def tagged(tags):
                    return tags is None
            clause('gt1_' + name, m.lt(T.int(1), gt, tagged), '%s > 1' % name)
            clause('ltp1_' + name, m.lt(gt, pm1, tagged) or m.le(gt, T.mk('sub', p, T.int(2)), tagged), '%s < p-1' % name)
            if spec['form'] == '2q+1':
                clause('order_' + name, m.eq(T.int(1), T.mk('jacobi', gt, p), tagged), 'Jacobi(%s, p) = 1' % name)
            else:
                clause('order_' + name, m.eq(T.int(1), T.mk('powm', gt, q, p), tagged), '%s^q = 1 (mod p)' % name)
        for i in range(len(gens)):
            for j in range(i + 1, len(gens)):
                ni, gi, vi = gens[i]
                nj, gj, vj = gens[j]
                clause('distinct_%s_%s' % (ni, nj), m.ne(gi, gj, lambda tags: True), '%s != %s' % (ni, nj))
        for name, gt, vec in gens:
            if vec:
                def pair(tags):
                    if not tags or len(tags) != 2:
                        return False
                    L1, L2 = tags
                    b1, b2 = a.loop_bound.get(L1), a.loop_bound.get(L2)
                    if not (b1 and b2):
                        return False
                    # inner loop starts at outer index + 1 and both run to size()
                    ini = T.node(b2[2]) if b2[2] is not None else None
                    inner_ok = (ini is not None and ini[0] == 'op' and ini[1] == '+' and
                                set((ini[2], ini[3])) == set((T.mk('iv', L1), T.int(1))))
                    return b1[0] == b2[0] and b1[1] == '<' and b2[1] == '<' and inner_ok
                clause('distinct_pairwise_' + name, m.ne(gt, gt, pair), 'all pairs %s differ' % name)
        # canonical generator
        if 'canonical_g' in fnames or spec.get('canonical_always'):
            gterm = m.this('g')
            derived = None
            for tags, x, y in m.rels('=='):
                other = y if x == gterm else (x if y == gterm else None)
                if other is not None and T.contains(other, lambda n: n[0] in ('hash', 'pow')) and gterm not in T.subterms(other):
                    derived = other
            clause('canonical', derived is not None, 'g equals the verifiably derived generator (when canonical generation is in use)')
            if derived is not None:
                check_derivation(ctx, prog, cls, f, a, derived)
        if spec.get('delegate'):
            d = spec['delegate']
            clause('delegate', m.truthy(lambda n, t: n[0] == 'mc' and n[1] == d), 'verdict of %s is required' % d)
    for cls, spec in DELEGATES.items():
        f = prog.fn(cls + '::CheckGroup', 0)
        a = ctx.analysis(f)
        fs = a.accept_facts()
        key0 = 'R06a:' + cls
        row = matrix.setdefault(cls, {})
        if fs is None:
            ctx.bad('R06a', key0 + ':accept', 'CheckGroup has no accepting exit', f)
            continue
        m = M(a, fs)
        T = a.T
        d = spec['delegate']
        okd = m.truthy(lambda n, t: n[0] == 'mc' and n[1] == d)
        row['delegate'] = okd
        n_clauses += 1
        (ctx.ok if okd else ctx.bad)('R06a', key0 + ':delegate', 'verdict of %s is required for acceptance' % d, f)
        for fld in spec.get('bits_q_ge', []):
            okb = m.le(m.this(fld), T.mk('bits', m.this('q')))
            row['bits_q_ge_' + fld] = okb
            n_clauses += 1
            (ctx.ok if okb else ctx.bad)('R06a', '%s:bits_q_ge_%s' % (key0, fld), 'bits(q) >= %s' % fld, f)
    ctx.floor('R06a', n_clauses, 180)
    # ------------------------------------------------------------------ R06b
    n_el = 0
    for cls, kind in ELEMENT_CLASSES.items():
        f = prog.fn(cls + '::CheckElement', 0)
        a = ctx.analysis(f)
        fs = a.accept_facts()
        key0 = 'R06b:' + cls
        if fs is None:
            ctx.bad('R06b', key0 + ':accept', 'CheckElement has no accepting exit', f)
            continue
        T = a.T
        x = T.mk('param', f['params'][0]['n'])
        # per accepting exit: an exit reached under a = 1 owes neither a > 0 nor the order test
        # (1^q = 1, Jacobi(1, p) = 1), it still owes a < p
        per_exit = []
        for n_, facts_ in a.accept_exits():
            m = M(a, set(facts_))
            p, q = m.this('p'), m.this('q')
            unit = m.eq(x, T.int(1))
            e_ = {'gt0': bool(m.lt(T.int(0), x)) or bool(unit), 'ltp': bool(m.lt(x, p))}
            if kind == 'jacobi':
                e_['order'] = bool(m.eq(T.int(1), T.mk('jacobi', x, p))) or bool(unit)
            else:
                e_['order'] = bool(m.eq(T.int(1), T.mk('powm', x, q, p))) or bool(unit)
            per_exit.append(e_)
        cl = [('gt0', all(e_['gt0'] for e_ in per_exit), 'a > 0'), ('ltp', all(e_['ltp'] for e_ in per_exit), 'a < p'),
              ('order', all(e_['order'] for e_ in per_exit), 'Jacobi(a, p) = 1' if kind == 'jacobi' else 'a^q = 1 (mod p)')]
        for name, okv, what in cl:
            n_el += 1
            matrix.setdefault(cls + '::CheckElement', {})[name] = bool(okv)
            (ctx.ok if okv else ctx.bad)('R06b', '%s:%s' % (key0, name), ('' if okv else 'CheckElement accepts without: ') + what, f)
    # ------------------------------------------------------------------ R06f: nothing else is refused
    # "accepts exactly": an element test that refuses on any condition other than its three clauses
    # (or one that implies them) turns away valid elements -- every protocol on top then rejects
    # honest messages for the groups concerned
    n_f = 0
    for cls, kind in ELEMENT_CLASSES.items():
        f = prog.fn(cls + '::CheckElement', 0)
        a = ctx.analysis(f)
        T = a.T
        x = T.mk('param', f['params'][0]['n'])
        p_, q_ = T.mk('this', 'p'), T.mk('this', 'q')
        allowed_terms = {x, T.int(0), T.int(1), p_, T.mk('sub', p_, T.int(1)), T.mk('powm', x, q_, p_), T.mk('jacobi', x, p_)}
        extra = []
        for nd in a.cfg.rpo:
            if nd.kind != 'branch':
                continue
            for i, sx in enumerate(nd.succ):
                for fa in (a.gen.get((nd.id, i)) or ()):
                    fn_ = T.node(fa)
                    if fn_[0] == 'all':
                        fn_ = T.node(fn_[2])
                    if not T.contains(fa, lambda z: z == T.node(x)):
                        continue
                    if fn_[0] == 'rel':
                        sides = set(fn_[2:])
                        if sides <= allowed_terms:
                            continue
                        # a length pre-check that implies a >= p
                        if sides == {T.mk('bits', x), T.mk('bits', p_)}:
                            continue
                    elif fn_[0] in ('truthy', 'falsy') and T.node(fn_[1])[0] in ('invertible',):
                        continue
                    extra.append((nd.line, fa))
        n_f += 1
        key = 'R06f:%s' % cls
        if extra:
            ctx.bad('R06f', key, 'CheckElement decides on a condition that is none of a > 0, a < p, a^q = 1 (resp. Jacobi symbol): %s -- valid elements can be refused' %
                    '; '.join(sorted(set(T.show(fa, 4) for ln, fa in extra)))[:300], f, line=extra[0][0])
        else:
            ctx.ok('R06f', key, 'the element test branches on its three clauses only', f)
    ctx.floor('R06f', n_f, 12)
    f = prog.fn('PedersenCommitmentScheme::TestMembership', 0)
    a = ctx.analysis(f)
    fs = a.accept_facts() or set()
    m = M(a, fs)
    T = a.T
    x = T.mk('param', f['params'][0]['n'])
    for name, okv, what in [('gt0', m.lt(T.int(0), x), 'c > 0'), ('ltp', m.lt(x, m.this('p')), 'c < p')]:
        n_el += 1
        (ctx.ok if okv else ctx.bad)('R06b', 'R06b:PedersenCommitmentScheme::TestMembership:' + name,
                                     ('' if okv else 'TestMembership accepts without: ') + what, f)
    ctx.floor('R06b', n_el, 38)
    # ------------------------------------------------------------------ R06c: discovered siblings
    known = set(GROUP_CLASSES) | set(DELEGATES)
    found = set(q.rsplit('::', 1)[0] for q in prog.by_q if q.endswith('::CheckGroup'))
    for c in sorted(found - known):
        ctx.bad('R06c', 'R06c:unlisted:' + c, 'class %s defines CheckGroup but is not in the clause table (new sibling: add it after reading)' % c,
                prog.fn(c + '::CheckGroup', 0), nec=False)
    foundE = set(q.rsplit('::', 1)[0] for q in prog.by_q if q.endswith('::CheckElement'))
    for c in sorted(foundE - set(ELEMENT_CLASSES)):
        ctx.bad('R06c', 'R06c:unlisted-element:' + c, 'class %s defines CheckElement but is not in the table' % c,
                prog.fn(c + '::CheckElement', 0), nec=False)
    ctx.info['clause_matrix'] = matrix
    ctx.info['classes_with_CheckGroup'] = sorted(found)
    ctx.info['classes_with_CheckElement'] = sorted(foundE)


def member_subst(a, st):
    """value term -> 'this.member' for the member values held in state st"""
    sub = {}
    for l, v in st.env.items():
        if l[0] == 'm' and a.T.op(v) not in ('int', 'bool', 'str'):
            sub.setdefault(v, 'this.' + l[1])
    return sub


def check_derivation(ctx, prog, cls, fcheck, acheck, derived):
    """R06e: the generator derivation in the constructors is term-equal to the one re-done by
    CheckGroup (otherwise groups the library generates itself are rejected)"""
    want = canon_str(acheck, derived, {})
    ctors = [f for f in prog.by_q.get(cls + '::' + cls.split('::')[-1], []) if f['kind'] == 'ctor']
    n = 0
    for c in ctors:
        assume = {}
        for p_ in c['params']:
            if 'canonical' in p_['n']:
                assume[('v', p_['id'], p_['n'])] = True
        a = ctx.analysis(c, assume)
        T = a.T
        # every value written to member g that involves a hash
        cands = []
        for nid, ev in a.all_events('write'):
            if ev[1] == ('m', 'g') and T.contains(ev[2], lambda n_: n_[0] == 'hash'):
                st = a.instate.get(nid)
                cands.append((ev[2], st, ev[3]))
        if not cands:
            continue
        n += 1
        got = set()
        for v, st, line in cands:
            got.add(canon_str(a, v, member_subst(a, st)))
        key = 'R06e:%s:%s' % (cls, 'stream' if any('istream' in p_['t'] for p_ in c['params']) else 'generate')
        if want in got:
            ctx.ok('R06e', key, 'constructor derives g exactly as CheckGroup re-derives it', c, detail=want[:300])
        else:
            ctx.bad('R06e', key, 'generator derivation of the constructor differs from the one CheckGroup re-computes: ctor=%s check=%s' % (
                sorted(got)[0][:200], want[:200]), c, nec=False)


EXPLANATION = ("Static guard-domination inventory: for each of the 14 CheckGroup implementations, 3 delegating ones, 12 CheckElement "
               "implementations and TestMembership, the accepting exit is shown (by a forward must-fact dataflow over the function's CFG "
               "with GMP-aware term normalisation) to be reachable only through every reject clause the property lists for the members "
               "that class owns: sizes, p=kq+1 / p=2q+1 and p=7 mod 8, primality of p and q, gcd(q,k)=1, and per generator 1<g<p-1, "
               "order q (Jacobi in the QR group), pairwise inequality, equality with the re-derived canonical generator. Decides the "
               "refusal half of C06 structurally; does not execute anything and does not decide that generated groups are accepted "
               "beyond constructor/checker agreement of the derivation procedure (R06e, informational).")
ASSUMPTIONS = ["clang's AST and overload resolution are correct", "GMP primitives have their documented semantics (sa/sym.py table)",
               "probabilistic primality test is treated as 'is prime'", "arrays are summarised per container (all cells share one abstract value)"]
