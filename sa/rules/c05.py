"""C05 Proofs bind every public input and every transmitted value (structural part).

R05b nothing unbound: every wire read and every data parameter of an offered verifier is an
     input of at least one check that guards acceptance (backward slice via term leaves),
R05d refusal instead of silent reduction: wire values used as exponents carry a range fact, wire
     values used as bases / group elements carry a membership fact,
R05e the fixed-base powers refuse a base that differs from their table,
R05a variadic hash arity: a count below the number of values passed leaves the trailing ones out of
     the challenge (violation); a count above it is C12's; R05c informational,
R05g Fiat-Shamir coverage on the proving side: in a function that sends a response computed from a
     challenge hash, every other value it sends on that stream is an input of a challenge hash
     (a first-move value left out can be chosen after the challenge is known)."""
import ast
from . import invcheck, verifiers
from .. import inventory
from ..facts import walk

DATA_PARAM = ('__mpz_struct', 'std::vector', 'std::pair', 'VTMF_Card', 'TMCG_Card', 'TMCG_Stack', 'TMCG_OpenStack')
# (function, wire ordinal or parameter) that are deliberately not bound, one reason each
UNBOUND_OK = {
    ('BarnettSmartVTMF_dlog::KeyGenerationProtocol_RemoveKey', 'W1'): 'removal reads and skips the proof that was verified when the key was added',
    ('BarnettSmartVTMF_dlog::KeyGenerationProtocol_RemoveKey', 'W2'): 'same',
}
DLOG_SCOPE = ('BarnettSmartVTMF_dlog', 'GrothSKC', 'GrothVSSHE', 'HooghSchoenmakersSkoricVillegasPUBROTZK',
              'HooghSchoenmakersSkoricVillegasVRHE', 'PedersenCommitmentScheme', 'NaorPinkasEOTP', 'JareckiLysyanskayaEDCF',
              'JareckiLysyanskayaRVSS')


def run(ctx):
    prog = ctx.prog
    # refusal clauses (range and membership tests) of every receiver, from the frozen inventory
    def refusal(k, fp):
        kk = k.split(':')[-1]
        body = fp[1:] if fp[0] == '@loop' else fp
        if kk == 'if':
            body = body[2]
            kk = body[0].split(':')[-1]
        if kk == 'range':
            return True
        if kk == 'call' and body[1].split('::')[-1] in ('CheckElement', 'TestMembership'):
            return True
        if kk == 'eq':
            return any(s == 'int:1' for s, l in body[1]) and any(s == 'powm' for s, l in body[1])
        return False
    nfun, n = invcheck.check_inventory(ctx, 'C05', 'R05i', kinds=refusal)
    ctx.floor('R05i', n, 120)
    sel = [(f, props) for f, props in verifiers.selected(prog) if 'C05' in props]
    nb = 0
    nd = 0
    for f, props in sel:
        if 'C18' in props or 'ProveKey' in f['q']:
            continue        # oblivious transfer moves and the prover's side are not proof verifications
        nb += r05b(ctx, f, params='C04' in props)
        if f.get('cls') in DLOG_SCOPE:
            nd += r05d(ctx, f)
    ctx.floor('R05b', nb, 150)
    ctx.floor('R05d', nd, 50)
    r05e(ctx)
    r05a(ctx)
    r05g(ctx)
    r05h(ctx)
    r05j(ctx)


def r05h(ctx):
    """the element tests R05d accepts as sanitizers really refuse other representatives: every accepting exit of
    CheckElement / TestMembership of the classes in scope holds 0 < a and a < p for the tested value (an exit under a = 1
    owes only a < p).  A test that checks the order through a power but not the range accepts a + kp, which every later
    use silently reduces -- the second sentence of the property."""
    from . import c06
    prog = ctx.prog
    n = 0
    for cls in DLOG_SCOPE:
        for name in ('CheckElement', 'TestMembership'):
            fs_ = prog.by_q.get(cls + '::' + name, [])
            fs_ = [f for f in fs_ if f.get('body') and f['params'] and 'mpz' in f['params'][0]['t']]
            if not fs_:
                continue
            f = fs_[0]
            a = ctx.analysis(f)
            T = a.T
            x = T.mk('param', f['params'][0]['n'])
            exits = list(a.accept_exits())
            if not exits:
                continue        # a pure delegate without a verdict of its own is covered where it delegates to
            missing = set()
            delegated = False
            for n_, facts_ in exits:
                m = c06.M(a, set(facts_))
                if any(T.node(fa)[0] == 'truthy' and T.node(T.node(fa)[1])[0] == 'mc' and T.node(T.node(fa)[1])[1].split('::')[-1] in ('CheckElement', 'TestMembership')
                       for fa in facts_):
                    delegated = True
                    continue
                unit = m.eq(x, T.int(1))
                if not (m.lt(T.int(0), x) or unit):
                    missing.add('a > 0')
                if not m.lt(x, m.this('p')):
                    missing.add('a < p')
            n += 1
            key = 'R05h:%s::%s' % (cls, name)
            if missing:
                ctx.bad('R05h', key, '%s accepts without %s: other representatives of a group element (a + kp) pass the test and are silently '
                        'reduced by the verifiers that rely on it' % (name, ' and '.join(sorted(missing))), f)
            else:
                ctx.ok('R05h', key, 'every accepting exit holds 0 < a < p%s' % (' (through the element test it delegates to)' if delegated else ''), f)
    ctx.floor('R05h', n, 6)


def r05j(ctx):
    """the group and the common key are public inputs of the two sigma-protocol verifiers every card operation of the
    discrete-log encoding rests on (CP_Verify: masking, re-masking and decryption-share proofs; OR_Verify): in every variant
    of their bool parameters each of p, q, g, h is an input of a check that guards acceptance.  R05b cannot see this -- it
    follows parameters and wire values and folds all members into one root -- so the per-variant inventory is used: a member
    that is bound only on the fixed-base path (where it is compared with the base argument) is unbound on the other path
    as soon as it leaves the challenge hash."""
    prog = ctx.prog
    n = 0
    for q in ('BarnettSmartVTMF_dlog::CP_Verify', 'BarnettSmartVTMF_dlog::OR_Verify'):
        for f in prog.by_q.get(q, []):
            if not f.get('body'):
                continue
            inv, hashes = inventory.inventory(ctx, f)
            variants = sorted(set(l for labs in inv.values() for l in labs))
            for v in variants:
                bound = set()
                for fp, labs in inv.items():
                    if v not in labs:
                        continue
                    body = fp[1:] if fp[0] == '@loop' else fp
                    kk = invcheck.kind_of(fp).split(':')[-1]
                    if kk == 'if':
                        bound |= leaves_of_fp(body[1])
                        body = body[2]
                        kk = body[0].split(':')[-1]
                    if kk in ('invertible', 'range'):
                        continue
                    bound |= leaves_of_fp(body)
                n += 1
                missing = [m for m in ('this.p', 'this.q', 'this.g', 'this.h') if m not in bound]
                key = 'R05j:%s:%s' % (f['q'], v or 'all')
                if missing:
                    ctx.bad('R05j', key, 'in the variant %s the public input%s %s no longer influence%s any check that guards acceptance: a proof made under one '
                            'common key / group verifies under another' % (v or '(all)', 's' if len(missing) > 1 else '', ', '.join(x[5:] for x in missing),
                                                                       '' if len(missing) > 1 else 's'), f)
                else:
                    ctx.ok('R05j', key, 'p, q, g and the common key h are inputs of checks guarding acceptance', f)
    ctx.floor('R05j', n, 4)


def bound_leaves(ctx, f):
    inv, hashes = inventory.inventory(ctx, f)
    bound = set()
    for fp, labs in inv.items():
        k = invcheck.kind_of(fp)
        body = fp[1:] if fp[0] == '@loop' else fp
        kk = k.split(':')[-1]
        if kk == 'if':
            # the condition selects which check applies: it depends on its inputs as well
            bound |= leaves_of_fp(body[1])
            body = body[2]
            kk = body[0].split(':')[-1]
        # a range or invertibility test bounds a value, it does not bind it
        if kk in ('invertible', 'range'):
            continue
        bound |= leaves_of_fp(body)
    return bound, inv


def leaves_of_fp(fp):
    out = set()

    def rec(x):
        if isinstance(x, tuple):
            for y in x:
                rec(y)
        elif isinstance(x, str) and (x.startswith('W') or x.startswith('P') or x.startswith('this.')):
            if x[0] in 'WP' and len(x) > 1 and (x[1].isdigit()):
                out.add(x)
            elif x.startswith('this.'):
                out.add(x)
    rec(fp)
    return out


def root(name):
    for i, ch in enumerate(name):
        if ch in '.[':
            return name[:i]
    return name


def r05b(ctx, f, params=True):
    a = ctx.analysis(f)
    bound, inv = bound_leaves(ctx, f)
    roots = set(root(x) for x in bound)
    n = 0
    for k, (line, name) in enumerate(a.wire_sites):
        w = 'W%d' % k
        n += 1
        key = 'R05b:%s:%s' % (f['q'] + invcheck.sig_suffix(f['key']), w)
        if w in roots:
            ctx.ok('R05b', key, 'transmitted value #%d (%s) is an input of a check guarding acceptance' % (k, name), f, line=line)
        elif (f['q'], w) in UNBOUND_OK:
            ctx.note('R05b', key, 'unbound by design: ' + UNBOUND_OK[(f['q'], w)], f, line=line)
        else:
            ctx.bad('R05b', key, 'transmitted value #%d (read into %s) does not influence any check that guards acceptance' % (k, name), f, line=line)
    for i, p in enumerate(f['params'] if params else []):
        if not any(d in p['t'] for d in DATA_PARAM) or 'stream' in p['t']:
            continue
        if not (p['t'].startswith('const ') or p['t'].startswith('std::vector') or p['t'].startswith('std::pair')):
            # output parameter
            if not p['t'].startswith('const'):
                continue
        n += 1
        key = 'R05b:%s:P%d' % (f['q'] + invcheck.sig_suffix(f['key']), i)
        if 'P%d' % i in roots:
            ctx.ok('R05b', key, 'public input %s is an input of a check guarding acceptance' % p['n'], f)
        else:
            ctx.bad('R05b', key, 'public input %s does not influence any check that guards acceptance' % p['n'], f)
    return n


def wire_roots(a, t):
    """wire ordinals a term *is* (directly, through ix wrappers and phi sources), not merely depends on"""
    T = a.T
    out = set()
    seen = set()
    st = [t]
    while st:
        x = st.pop()
        if x in seen:
            continue
        seen.add(x)
        n = T.node(x)
        if n[0] == 'wire':
            out.add(n[1])
        elif n[0] == 'ix':
            st.append(n[1])
        elif n[0] == 'phi':
            st.extend(T.phi_src.get((n[1], n[2]), ()))
        elif n[0] in ('fld', 'elem'):
            st.append(n[1])
    return out


def r05d(ctx, f):
    """every wire value used as an exponent is range-checked, every wire value used as a base is
    membership-checked, on the paths to acceptance (facts at the accepting exits)"""
    a = ctx.analysis(f)
    bound, inv = bound_leaves(ctx, f)
    ranged = set()
    member = set()
    # index range over which each wire array was read (per wire ordinal)
    T0 = a.T
    readcov = {}
    for nid, ev in a.all_events('rcv'):
        w = ev[2]
        if T0.op(w) != 'wire':
            continue
        loops = [h for h, body in a.loop_nodes.items() if nid in body and a.cfg.loops[h].get('iv')]
        if loops:
            inner = min(loops, key=lambda h: len(a.loop_nodes[h]))
            readcov['W%d' % T0.node(w)[1]] = inventory.coverage(a, (inner,), f)
    for fp in inv:
        k = invcheck.kind_of(fp)
        body = fp[1:] if fp[0] == '@loop' else fp
        cov = [x for x in body if isinstance(x, tuple) and len(x) == 2 and x[0] == 'cov']
        if cov:
            body = tuple(x for x in body if x not in cov)
            # a quantified sanitizer counts only if its loop covers the range the values were read over
            ws = [root(x) for x in leaves_of_fp(body) if x.startswith('W')]
            if any(w in readcov and readcov[w] != cov[0][1] for w in ws):
                continue
        kk = k.split(':')[-1]
        if kk == 'if':
            # a sanitizer under the condition the read itself is under
            body = body[2]
            kk = body[0].split(':')[-1]
        if kk == 'range':
            # (op, shapeL, leavesL, shapeR, leavesR): the smaller side is a single wire
            if len(body[3]) == 1 and body[3][0].startswith('W') and body[2] not in ('bits',):
                ranged.add(root(body[3][0]))
            if body[2] == 'bits' and len(body[3]) == 1 and body[3][0].startswith('W') and body[1] in ('<', '<='):
                ranged.add(root(body[3][0]))
        elif kk == 'call' and body[1].split('::')[-1] in ('CheckElement', 'TestMembership'):
            for l in body[2]:
                if l.startswith('W'):
                    member.add(root(l))
        elif kk == 'eq':
            (s1, l1), (s2, l2) = body[1]
            for (sa, la), (sb, lb) in (((s1, l1), (s2, l2)), ((s2, l2), (s1, l1))):
                if sa == 'int:1' and sb == 'powm':
                    for l in lb:
                        if l.startswith('W'):
                            member.add(root(l) + '?order')
    # explicit form of the membership test: 0 < v, v < p and v^q = 1
    lower = set()
    upper = set()
    for fp in inv:
        body = fp[1:] if fp[0] == '@loop' else fp
        if body[0].split(':')[-1] == 'range' and body[1] in ('<', '<='):
            if body[2].startswith('int:') and len(body[5]) == 1 and body[5][0].startswith('W'):
                lower.add(root(body[5][0]))
            if len(body[3]) == 1 and body[3][0].startswith('W') and any(x.endswith('.p') for x in body[5]):
                upper.add(root(body[3][0]))
    for w in list(member):
        if w.endswith('?order'):
            b = w[:-6]
            if b in lower and b in upper:
                member.add(b)
    n = 0
    seen = set()
    for nid, ev in a.all_events('pow'):
        base, exp, mod, fname, line, table = ev[1:7]
        for w in wire_roots(a, exp):
            if ('e', w) in seen:
                continue
            seen.add(('e', w))
            n += 1
            key = 'R05d:%s:W%d' % (f['q'] + invcheck.sig_suffix(f['key']), w)
            if 'W%d' % w in ranged:
                ctx.ok('R05d', key, 'wire value #%d used as exponent is range-checked before acceptance' % w, f, line=line)
            else:
                ctx.bad('R05d', key, 'wire value #%d (%s) is used as an exponent but no range check guards acceptance' % (w, a.wire_sites[w][1]), f, line=line)
        for w in wire_roots(a, base):
            if ('b', w) in seen:
                continue
            seen.add(('b', w))
            n += 1
            key = 'R05d:%s:W%d:base' % (f['q'] + invcheck.sig_suffix(f['key']), w)
            if 'W%d' % w in member:
                ctx.ok('R05d', key, 'wire value #%d used as base is membership-checked before acceptance' % w, f, line=line)
            elif 'W%d?order' % w in member:
                ctx.bad('R05d', key + ':range', 'wire value #%d (%s) is used as a group element: its order is checked but not its range (v+p is silently reduced)' % (
                    w, a.wire_sites[w][1]), f, line=line)
            else:
                ctx.bad('R05d', key, 'wire value #%d (%s) is used as a base but no membership check guards acceptance' % (w, a.wire_sites[w][1]), f, line=line)
    return n


def r05e(ctx):
    prog = ctx.prog
    n = 0
    for q in ('tmcg_mpz_fpowm', 'tmcg_mpz_fpowm_ui', 'tmcg_mpz_fspowm'):
        f = prog.fn(q, 0)
        a = ctx.analysis(f)
        T = a.T
        base = T.mk('param', f['params'][2]['n'])
        tab0 = None
        # facts holding at every normal (non-throwing) exit
        fs = None
        for nnode, kind, val, st in a.exits():
            if kind in ('return', 'end'):
                fs = set(st.facts) if fs is None else fs & st.facts
        okv = False
        for x in (fs or ()):
            nn = T.node(x)
            if nn[0] == 'rel' and nn[1] == '==' and base in (nn[2], nn[3]):
                other = nn[3] if nn[2] == base else nn[2]
                on = T.node(other)
                if on[0] == 'elem' and T.node(on[1])[0] == 'param' and T.is_int(on[2], 0):
                    okv = True
        n += 1
        if okv:
            ctx.ok('R05e', 'R05e:' + q, 'returns normally only when base == table[0]', f)
        else:
            ctx.bad('R05e', 'R05e:' + q, 'fixed-base power no longer refuses a base that differs from its table', f)
    ctx.floor('R05e', n, 3)


def r05a(ctx, rule='R05a'):
    """variadic hash arity: the count argument equals the number of variadic mpz arguments"""
    prog = ctx.prog
    n = 0
    occ = {}
    for key, f in prog.funcs.items():
        for e in walk(f.get('body')):
            if e.get('k') == 'call' and e.get('f', '').startswith('tmcg_mpz_shash') and e.get('va') is not None:
                fixed = e['va']
                args = e['a']
                if len(args) < fixed:
                    continue
                cnt = args[fixed - 1]
                nvar = len(args) - fixed
                n += 1
                k2 = rule + ':%s:%d' % (f['q'], e.get('l', 0))
                if isinstance(cnt, dict) and cnt.get('k') == 'int':
                    if cnt['v'] == nvar:
                        ctx.ok(rule, rule + ':%s:%s' % (f['q'], e['f']), 'hash count argument equals the number of variadic arguments', f, line=e.get('l'))
                    elif cnt['v'] > nvar:
                        ctx.note(rule, k2, 'hash count %d exceeds the %d arguments passed (reads past the argument list; reported under C12)' % (cnt['v'], nvar), f, line=e.get('l'))
                    else:
                        # values handed to the Fiat-Shamir hash but cut off by its count are not bound by the
                        # challenge although the call site says they are (no honest run notices: prover and
                        # verifier share the slip); occurrence-numbered key, no line numbers
                        occ[(f['q'], e['f'])] = occ.get((f['q'], e['f']), 0) + 1
                        ctx.bad(rule, rule + ':%s:%s#%d' % (f['q'], e['f'], occ[(f['q'], e['f'])]),
                                'the hash is told to read %d values but %d are passed: the last %d (%s) are silently left out of the challenge' % (
                                    cnt['v'], nvar, nvar - cnt['v'], ', '.join(str(x.get('n') or x.get('k')) for x in args[fixed + cnt['v']:])), f, line=e.get('l'))
                else:
                    ctx.note(rule, k2, 'hash count is not a constant', f, line=e.get('l'))
    ctx.info['variadic_hash_sites'] = n


EXPLANATION = ("Static dependence and sanitizer analysis over every offered verifier/receiver: (R05b) each value read from the wire and each "
               "data parameter is shown to be an input (leaf of the normalised term, through arithmetic, hashes and sub-verifier arguments) "
               "of at least one check that guards the accepting exits, so no transmitted value or public input is unbound; (R05d) in the "
               "discrete-log classes each wire value used as an exponent carries a range fact and each wire value used as a base a "
               "membership fact at acceptance; (R05e) the three fixed-base powers return normally only when base == table[0]. Necessary "
               "conditions of binding and of 'refused instead of silently reduced'; the behaviour 'changing X makes verification fail' "
               "itself is not decided.")
ASSUMPTIONS = ["dependence is syntactic/term-level: a check that depends on a value is assumed to constrain it",
               "arrays summarised per container", "quadratic-residue proofs of SchindelhauerTMCG are outside the refusal clause (R05d scope table)"]


# values a Fiat-Shamir prover sends without hashing them, one reason each
FS_UNHASHED_OK = {
    ('BarnettSmartVTMF_dlog::OR_ProveFirst', 'c_2'): 'simulated branch of the OR composition: its challenge share is drawn before the hash by construction; the verifier checks c_1 + c_2 = H(...)',
    ('BarnettSmartVTMF_dlog::OR_ProveFirst', 'r_2'): 'simulated branch of the OR composition: response drawn with the challenge share',
    ('BarnettSmartVTMF_dlog::OR_ProveSecond', 'c_1'): 'simulated branch of the OR composition (mirror image)',
    ('BarnettSmartVTMF_dlog::OR_ProveSecond', 'r_1'): 'simulated branch of the OR composition (mirror image)',
}


def r05g(ctx):
    prog = ctx.prog

    def rootloc(l):
        while isinstance(l, tuple) and l[0] in ('f', 'e', 'stream'):
            l = l[1]
        return l
    nfun = 0
    nval = 0
    for k, f in sorted(prog.funcs.items(), key=lambda kv: (kv[1]['q'], kv[0])):
        if not f.get('body') or prog.is_helper(f) or not any(f['q'].startswith(c + '::') for c in DLOG_SCOPE):
            continue
        hc = [e for e in walk(f['body']) if e.get('k') == 'call' and e.get('f', '').startswith('tmcg_mpz_shash')]
        outs = set(p['id'] for p in f['params'] if 'ostream' in p['t'] and p['n'] != 'err')
        if not hc or not outs:
            continue
        a = ctx.analysis(f)
        T = a.T
        hterms = set(ev[2] for nid, ev in a.all_events('write') if T.op(ev[2]) == 'hash')
        snds = [(nid, ev) for nid, ev in a.all_events('snd') if ev[1] and ev[1][0] == 'v' and ev[1][1] in outs and len(ev) > 5]

        def depends(v):
            return any(T.contains(v, lambda z, h=h: z == T.node(h)) for h in hterms)
        if not any(depends(ev[2]) and ev[2] not in hterms for nid, ev in snds):
            continue        # no response computed from a challenge: not a Fiat-Shamir prover
        nfun += 1
        H = set()
        for e in hc:
            for x in e['a'][1:]:
                for y in walk(x):
                    if y.get('k') == 'var':
                        H.add(('v', y['id'], y['n']))
                    if y.get('k') == 'mem' and isinstance(y.get('o'), dict) and y['o'].get('k') == 'this':
                        H.add(('m', y['n']))
        seen = set()
        for nid, ev in sorted(snds, key=lambda x: (x[1][3], x[0])):
            v, l = ev[2], ev[5]
            if depends(v):
                continue
            vn = T.node(v)
            if vn[0] in ('str', 'int', 'sym'):
                continue    # separators
            r = rootloc(l) if l else None
            name = r[2] if r and r[0] == 'v' else (r[1] if r and r[0] == 'm' else T.show(v, 2))
            key = 'R05g:%s:%s' % (f['q'], name)
            if key in seen:
                continue
            seen.add(key)
            nval += 1
            if r in H:
                ctx.ok('R05g', key, 'first-move value is an input of the challenge hash', f, line=ev[3])
            elif (f['q'], name) in FS_UNHASHED_OK:
                ctx.note('R05g', key, 'sent without being hashed, by design: ' + FS_UNHASHED_OK[(f['q'], name)], f, line=ev[3])
            else:
                ctx.bad('R05g', key, 'the prover sends %s without it being an input of any challenge hash of this proof: the value is not bound to the '
                        'challenge and can be chosen after the challenge is known' % name, f, line=ev[3])
    ctx.info['R05g_provers'] = nfun
    ctx.floor('R05g', nval, 12)
