"""C02 A shuffle is exactly a permutation plus re-masking (structural part).

R02a the stack-secret importer accepts only bijections (range of every index + presence or
     distinctness), and operator>> turns a failed import into failbit,
R02b index-role agreement of the mixing / glue routines (symbolic index terms),
R02c the permutation constructors only swap / rotate and return the matching offset."""
from ..facts import walk, AnalysisBroken
from ..sym import State


def find_calls(tree, pred):
    for e in walk(tree):
        if e.get('k') in ('call', 'mcall') and pred(e):
            yield e


def node_of_line(a, line, kind=None):
    return [n for n in a.cfg.rpo if n.line == line and (kind is None or n.kind == kind)]


def eval_at(a, expr, line):
    """term of a sub-expression evaluated in the state that enters the first node on that line"""
    for n in a.cfg.rpo:
        if n.line == line and n.id in a.instate:
            st = a.instate[n.id].copy()
            save = a.events.get(n.id)
            t = a.ev(expr, st, n.id)
            a.events[n.id] = save if save is not None else []
            return t
    return None


def index_expr(e):
    """(base expr, index expr) of an element access x[i] (operator[] or builtin)"""
    if not isinstance(e, dict):
        return None
    if e.get('k') == 'opcall' and e.get('op') == '[]' and len(e['a']) == 2:
        return e['a'][0], e['a'][1]
    if e.get('k') == 'idx':
        return e['a'][0], e['a'][1]
    if e.get('k') == 'un' and e['op'] in ('&', '*'):
        return index_expr(e['a'][0])
    return None


def strip_mem(e, name):
    if isinstance(e, dict) and e.get('k') == 'mem' and e.get('n') == name:
        return e.get('o')
    return None


def unix(a, t):
    """(term without ix wrappers, set of loop ids whose induction variable indexed it)"""
    loops = a.ix_loops(t)
    return a.strip_ix(t, loops), loops


def run(ctx):
    prog = ctx.prog
    r02a(ctx)
    r02b(ctx)
    r02c(ctx)
    r02d(ctx)
    r02e(ctx)


def r02e(ctx):
    """size of the generated index vector: for every stack size n = 1..64 the two constructors leave exactly n cells in `pi`
    (interval evaluation of the constructor for each concrete n, sa/drawinterp.py: loop bounds are concrete, draws are
    intervals).  A stack secret built from fewer cells is not a bijection on {0..n-1}; a shortcut for 'nothing to permute'
    that returns before the identity fill produces the empty secret for a one-card stack."""
    from ..drawinterp import DrawInterp
    from .. import evalx
    prog = ctx.prog
    SAMPLERS = ('tmcg_mpz_srandom_mod', 'tmcg_mpz_ssrandom_mod', 'tmcg_mpz_wrandom_mod')
    n_ok = 0
    for q in ('random_permutation_fast', 'random_rotation'):
        f = prog.fn(q, 0)
        npar, pip = f['params'][0], f['params'][1]
        bad = None
        try:
            for n in range(1, 65):
                di = DrawInterp(f, {npar['n']: n}, SAMPLERS).run()
                got = di.vsize.get(pip['id'])
                if got != n:
                    bad = 'for n = %d the index vector has %s cells' % (n, got)
                    break
        except evalx.NotEvaluable as ex:
            ctx.note('R02e', 'R02e:%s:size' % q, 'not evaluable by intervals: %s' % ex, f)
            n_ok += 1           # examined; a constructor that cannot be evaluated is undecided here, not broken
            continue
        n_ok += 1
        if bad:
            ctx.bad('R02e', 'R02e:%s:size' % q, '%s: the stack secret built from it is not a bijection on {0..n-1}' % bad, f)
        else:
            ctx.ok('R02e', 'R02e:%s:size' % q, 'exactly n cells for every n = 1..64', f)
    ctx.floor('R02e', n_ok, 2)


def r02d(ctx):
    """the inverse lookup of a stack secret (find_position, find) is what glue, the import check and
    the verifiers index with: it must be a function of the current `stack` alone.  If it reads any
    other member (a cached table), every member function that can change `stack` -- assignment,
    push, clear, import, and the non-const operator[] that hands out a mutable reference -- must
    write that member too, otherwise the lookup answers for an earlier permutation"""
    prog = ctx.prog

    def members(body, writes_only=False):
        out = set()
        for e in walk(body):
            if e.get('k') == 'mem' and isinstance(e.get('o'), dict) and e['o'].get('k') == 'this':
                out.add(e['n'])
        return out
    n = 0
    classes = sorted(set(q.rsplit('::', 1)[0] for q in prog.by_q if q.startswith('TMCG_StackSecret<') and q.endswith('::find_position')))
    for cls in classes:
        methods = [f for q, fl in prog.by_q.items() if q.rsplit('::', 1)[0] == cls for f in fl if f.get('body')]
        for lk in ('find_position', 'find'):
            for f in prog.by_q.get('%s::%s' % (cls, lk), []):
                if not f.get('body'):
                    continue
                n += 1
                key = 'R02d:%s::%s' % (cls, lk)
                extra = members(f['body']) - {'stack'}
                # members reached through other member functions called on this object
                for e in walk(f['body']):
                    if e.get('k') == 'mcall' and isinstance(e.get('o'), dict) and e['o'].get('k') == 'this':
                        for g in prog.by_q.get(e['f'], []):
                            if g.get('body'):
                                extra |= members(g['body']) - {'stack'}
                if not extra:
                    ctx.ok('R02d', key, 'the lookup reads the member stack only', f)
                    continue
                stale = []
                for g in methods:
                    short = g['q'].split('::')[-1]
                    if short in (lk, 'find_position', 'find') or short == cls.split('<')[0]:
                        continue
                    const = (g.get('key', '') or '').rstrip().endswith('const')
                    if const or 'stack' not in members(g['body']):
                        continue
                    if short == 'operator[]':
                        stale.append('the non-const operator[] hands out a mutable reference into stack')
                    elif not (extra <= members(g['body'])):
                        stale.append('%s changes stack without touching %s' % (short, ', '.join(sorted(extra - members(g['body'])))))
                if stale:
                    ctx.bad('R02d', key, 'the lookup answers from the cached member %s, which can be out of date: %s' % (', '.join(sorted(extra)), '; '.join(sorted(set(stale)))), f)
                else:
                    ctx.ok('R02d', key, 'cached member %s is rewritten by every member function that changes stack' % ', '.join(sorted(extra)), f)
    ctx.floor('R02d', n, 2)


def r02a(ctx, rule='R02a'):
    prog = ctx.prog
    n = 0
    imps = [f for q, fl in prog.by_q.items() if q.startswith('TMCG_StackSecret<') and q.endswith('::import') for f in fl]
    if len(imps) < 2:
        raise AnalysisBroken('TMCG_StackSecret<...>::import instantiations not found')
    for f in imps:
        a = ctx.analysis(f)
        T = a.T
        key0 = rule + ':' + f['q']
        # the loop that fills the stack
        pushes = [(nid, ev) for nid, ev in a.all_events('mcall') if ev[1].endswith('::push_back') and ev[6] == ('m', 'stack')]
        if not pushes:
            ctx.bad(rule, key0 + ':push', 'importer no longer stores the parsed pairs (anchor changed)', f, nec=False)
            continue
        nid, ev = pushes[0]
        loop = None
        for h, body in a.loop_nodes.items():
            if nid in body and a.cfg.loops[h].get('iv'):
                if loop is None or len(body) < len(a.loop_nodes[loop]):
                    loop = h
        n += 1
        if loop is None:
            ctx.bad(rule, key0 + ':range', 'pairs are not stored in a counting loop', f)
            continue
        bound = a.loop_bound[loop][0]
        # value of the index component at the push
        st = a.instate[nid]
        arg = ev[3][0]
        first_val = None
        an = T.node(arg)
        cands = [x for x in T.subterms(arg)]
        # first component = value of location <pushed var>.first in the state before the push
        for l, v in st.env.items():
            if l[0] == 'f' and l[2] == 'first' and v in cands:
                first_val = v
        itf = a.iteration_facts(loop)
        okr = first_val is not None and any(T.node(x)[0] == 'rel' and T.node(x)[1] == '<' and T.node(x)[2] == first_val and T.node(x)[3] == bound for x in itf)
        if okr:
            ctx.ok(rule, key0 + ':range', 'every parsed index is < size before it is stored', f, line=ev[4])
        else:
            ctx.bad(rule, key0 + ':range', 'a parsed permutation index is stored without the check index < size', f, line=ev[4])
        # bijectivity: presence of every i < size afterwards, or distinctness while parsing
        n += 1
        present = False
        for h in a.loops_on_accept_path():
            if h == loop or not a.cfg.loops[h].get('iv'):
                continue
            b = a.loop_bound[h]
            if b[1] != '<' or not T.is_int(b[2], 0) or b[3] != 1:
                continue
            if b[0] != bound and not (T.op(b[0]) == 'mc' and T.node(b[0])[1].endswith('::size')):
                continue
            for x in a.iteration_facts(h):
                xn = T.node(x)
                if xn[0] == 'rel' and xn[1] == '<':
                    l = T.node(xn[2])
                    if l[0] == 'mc' and l[1].endswith('::find_position') and T.op(l[3]) == 'iv' and T.node(l[3])[1] == h and \
                            (xn[3] == bound or (T.op(xn[3]) == 'mc' and T.node(xn[3])[1].endswith('::size'))):
                        present = True
        distinct = False
        if first_val is not None:
            for x in itf:
                if T.contains(x, lambda nn: nn[0] == 'mc' and 'find' in nn[1].split('::')[-1]) and first_val in T.subterms(x):
                    distinct = True
        if present or distinct:
            ctx.ok(rule, key0 + ':bijection', 'acceptance requires every index 0..size-1 to be present' if present else 'acceptance requires pairwise distinct indices', f)
        else:
            ctx.bad(rule, key0 + ':bijection', 'importer accepts index vectors that are not permutations (no presence / distinctness check guards acceptance)', f)
    # operator>> : failed import => failbit
    for q, fl in prog.by_q.items():
        pass
    ops = [f for f in prog.funcs.values() if f['q'] == 'operator>>' and any('TMCG_StackSecret<' in p['t'] for p in f['params'])]
    for f in ops:
        a = ctx.analysis(f)
        T = a.T
        n += 1
        okv = False
        for nid, ev in a.all_events('mcall'):
            if ev[1].endswith('::setstate'):
                st = a.instate[nid]
                if any(T.node(x)[0] == 'falsy' and T.node(T.node(x)[1])[0] == 'mc' and T.node(T.node(x)[1])[1].endswith('::import') for x in st.facts):
                    okv = True
        key = rule + ':operator>>:' + [p['t'] for p in f['params'] if 'StackSecret' in p['t']][0]
        if okv:
            ctx.ok(rule, key, 'failed import sets failbit', f)
        else:
            ctx.bad(rule, key, 'operator>> does not signal a refused stack secret (failbit)', f)
    ctx.floor(rule, n, 6)


def r02b(ctx):
    prog = ctx.prog
    n = 0
    for f in prog.fn('SchindelhauerTMCG::TMCG_MixStack'):
        a = ctx.analysis(f)
        T = a.T
        key0 = 'R02b:TMCG_MixStack:' + f['params'][0]['t']
        calls = list(find_calls(f['body'], lambda e: e['f'].endswith('::TMCG_MaskCard')))
        n += 1
        if len(calls) != 1:
            ctx.bad('R02b', key0 + ':mask', 'expected exactly one masking call per mixed card, found %d' % len(calls), f)
            continue
        c = calls[0]
        s_p, s2_p, ss_p = f['params'][0]['n'], f['params'][1]['n'], f['params'][2]['n']
        ie0 = index_expr(c['a'][0])
        sec = strip_mem(c['a'][2], 'second')
        ie2 = index_expr(sec) if sec is not None else None
        if not ie0 or not ie2:
            ctx.bad('R02b', key0 + ':mask', 'masking call no longer takes s[..] and ss[..].second', f, line=c.get('l'))
            continue
        I0 = eval_at(a, ie0[1], c['l'])
        I2 = eval_at(a, ie2[1], c['l'])
        B0 = eval_at(a, ie0[0], c['l'])
        B2 = eval_at(a, ie2[0], c['l'])
        # expected index: first component of the secret's pair at the loop index
        loop = None
        for h, body in a.loop_nodes.items():
            if any(nn.line == c['l'] and nn.id in body for nn in a.cfg.rpo):
                loop = h
        want = T.mk('fld', T.mk('elem', T.mk('param', ss_p), '*'), 'first')
        S0, L0 = unix(a, I0) if I0 is not None else (None, set())
        ok1 = (S0 == want and L0 == set([loop]) and B0 == T.mk('param', s_p))
        ok2 = (I2 == I0 and B2 == T.mk('param', ss_p))
        if ok1:
            ctx.ok('R02b', key0 + ':card', 'output card i is the mask of s[ss[i].first]', f, line=c['l'])
        else:
            ctx.bad('R02b', key0 + ':card', 'output card i is not the mask of the input card designated by ss[i].first (index term %s)' % (T.show(I0) if I0 is not None else '?'), f, line=c['l'])
        n += 1
        if ok2:
            ctx.ok('R02b', key0 + ':secret', 'the masking secret is the one stored at the same index', f, line=c['l'])
        else:
            ctx.bad('R02b', key0 + ':secret', 'masking secret taken from another position than the card (index term %s vs %s)' % (
                T.show(I2) if I2 is not None else '?', T.show(I0) if I0 is not None else '?'), f, line=c['l'])
        # one push per iteration over the whole input
        n += 1
        pushes = [(nid, ev) for nid, ev in a.all_events('mcall') if ev[1].endswith('::push') and ev[6] == ('v', f['params'][1]['id'], s2_p)]
        lb = a.loop_bound.get(loop) if loop is not None else None
        full = lb is not None and T.op(lb[0]) == 'mc' and T.node(lb[0])[1].endswith('::size') and T.node(lb[0])[2] == T.mk('param', s_p) and lb[1] == '<' and T.is_int(lb[2], 0) and lb[3] == 1
        inloop = [p for p in pushes if loop is not None and p[0] in a.loop_nodes[loop]]
        if len(pushes) == 1 and len(inloop) == 1 and full and unconditional(a, inloop[0][0], loop):
            ctx.ok('R02b', key0 + ':size', 'exactly one card is pushed per input position, over the whole input stack', f)
        else:
            ctx.bad('R02b', key0 + ':size', 'mixed stack is not built with exactly one push per input position', f)
    for f in prog.fn('SchindelhauerTMCG::TMCG_GlueStackSecret'):
        a = ctx.analysis(f)
        T = a.T
        key0 = 'R02b:TMCG_GlueStackSecret:' + f['params'][0]['t']
        sig, pi = f['params'][0]['n'], f['params'][1]['n']
        pushes = list(find_calls(f['body'], lambda e: e['f'].endswith('::push') and len(e['a']) == 2))
        n += 1
        okv = False
        where = None
        for c in pushes:
            # index component: sigma[pi[i].first].first
            m1 = strip_mem(c['a'][0], 'first')
            ie = index_expr(m1) if m1 is not None else None
            if not ie:
                continue
            B = eval_at(a, ie[0], c['l'])
            I = eval_at(a, ie[1], c['l'])
            if B == T.mk('param', sig) and I is not None:
                S, Ls = unix(a, I)
                if S == T.mk('fld', T.mk('elem', T.mk('param', pi), '*'), 'first') and len(Ls) == 1:
                    okv = True
                    where = c['l']
        if okv:
            ctx.ok('R02b', key0 + ':index', 'glued index is sigma[pi[i].first].first', f, line=where)
        else:
            ctx.bad('R02b', key0 + ':index', 'composition of two stack secrets does not take its index from sigma at pi[i].first', f)
        # the secret components come from sigma[i] and pi[find_position(i)]
        n += 1
        fp = list(find_calls(f['body'], lambda e: e['f'].endswith('::find_position')))
        okf = False
        for c in fp:
            o = eval_at(a, c['o'], c['l']) if c.get('o') else None
            arg = eval_at(a, c['a'][0], c['l'])
            if o == T.mk('param', sig) and arg is not None and T.op(arg) == 'iv':
                okf = True
        if okf:
            ctx.ok('R02b', key0 + ':inverse', 'partner position is sigma.find_position(i)', f)
        else:
            ctx.bad('R02b', key0 + ':inverse', 'partner secret is no longer looked up by sigma.find_position(i)', f)
    ctx.floor('R02b', n, 10)


def unconditional(a, nid, loop):
    """node nid lies on every path from the loop head back to the head (approximation: it is not
    control dependent on a branch inside the loop body other than the loop condition)"""
    body = a.loop_nodes[loop]
    head = [x for x in a.cfg.rpo if x.id == loop][0]
    # remove nid: can the back edge still be reached from the body entry?
    cond = head.succ[0]
    entry = cond.succ[0] if cond.kind == 'branch' and cond.succ else cond
    seen = set()
    st = [entry]
    while st:
        x = st.pop()
        if x.id in seen or x.id == nid or x.id not in body:
            continue
        seen.add(x.id)
        if x is head:
            return False
        st.extend(x.succ)
    return True


def r02c(ctx):
    """permutation constructors.  Accepted idioms (enumerated from the code and from the standard
    library forms a maintainer would use): identity fill by push_back(i) / pi[i] = i / std::iota(.., 0);
    exchange of two cells through a temporary or std::swap; rotation fill pi[i] = (R + i) mod n or
    std::iota + std::rotate(begin, begin + R, end) (resp. end - X, which is R = n - X); the returned
    offset must be congruent to n - R."""
    from ..core import poly, padd
    prog = ctx.prog
    n = 0
    f = prog.fn('random_rotation', 0)
    a = ctx.analysis(f)
    T = a.T
    npar = T.mk('param', f['params'][0]['n'])
    pi_p = f['params'][1]
    n += 1
    R = None        # polynomial of the shift: pi[i] = (i + R) mod n
    how = None
    for nid, ev in a.all_events('mcall'):
        if ev[1].endswith('::push_back') and ev[3]:
            v = ev[3][0]
            vn = T.node(v)
            if vn[0] == 'op' and vn[1] == '%' and vn[3] == npar:
                sn = T.node(vn[2])
                if sn[0] == 'op' and sn[1] == '+':
                    ivs = [x for x in (sn[2], sn[3]) if T.op(x) == 'iv']
                    oth = [x for x in (sn[2], sn[3]) if T.op(x) != 'iv']
                    if len(ivs) == 1 and len(oth) == 1:
                        R = poly(T, oth[0])
                        how = 'pi[i] = (r + i) mod n'
    for nid, ev in a.all_events('write'):
        # pi[i] = (r + i) % n by assignment
        if ev[1][0] == 'e' and ev[1][1] == ('v', pi_p['id'], pi_p['n']):
            vn = T.node(a.strip_ix(ev[2], a.ix_loops(ev[2])))
            if vn[0] == 'op' and vn[1] == '%' and vn[3] == npar:
                sn = T.node(vn[2])
                if sn[0] == 'op' and sn[1] == '+':
                    ivs = [x for x in (sn[2], sn[3]) if T.op(x) == 'iv']
                    oth = [x for x in (sn[2], sn[3]) if T.op(x) != 'iv']
                    if len(ivs) == 1 and len(oth) == 1:
                        R = poly(T, oth[0])
                        how = 'pi[i] = (r + i) mod n'
    if R is None:
        # wrapping counter: idx = r; push_back(idx); if (++idx == n) idx = 0;  with 0 <= r < n
        for nid, ev in a.all_events('mcall'):
            if not (ev[1].endswith('::push_back') and ev[3]):
                continue
            P = ev[3][0]
            pn = T.node(P)
            if pn[0] != 'phi':
                continue
            src = list(T.phi_src.get((pn[1], pn[2]), ()))
            joins = [x for x in src if T.op(x) == 'phi']
            inits = [x for x in src if T.op(x) != 'phi']
            if len(joins) != 1 or len(inits) != 1:
                continue
            jn = T.node(joins[0])
            jsrc = set(T.phi_src.get((jn[1], jn[2]), ()))
            inc = T.mk('op', '+', T.int(1), P)
            inc2 = T.mk('op', '+', P, T.int(1))
            step = inc if inc in jsrc else (inc2 if inc2 in jsrc else None)
            if step is None or jsrc != {step, T.int(0)}:
                continue
            r0 = inits[0]
            rn = T.node(r0)
            below_n = (rn[0] == 'callr' and rn[1].split('::')[-1] in ('tmcg_mpz_srandom_mod', 'tmcg_mpz_wrandom_mod') and rn[2] == npar) or \
                (rn[0] == 'op' and rn[1] == '%' and rn[3] == npar)
            # the reset to 0 happens exactly when the incremented counter has reached n
            resets = [n2 for n2, e2 in a.all_events('write') if T.is_int(e2[2], 0) and e2[1] == pn[2]]
            guarded = [n2 for n2 in resets if a.rel('==', step, npar) in a.instate[n2].facts]
            if below_n and guarded and len(guarded) == len(resets):
                R = poly(T, r0)
                how = 'counter started at r < n, advanced by one and wrapped to 0 exactly at n'
    calls = list(a.all_events('call'))
    iota = [ev for nid, ev in calls if ev[1].split('::')[-1] == 'iota' and len(ev[2]) == 3 and T.is_int(ev[2][2], 0)]
    rot = [ev for nid, ev in calls if ev[1].split('::')[-1] == 'rotate' and len(ev[2]) == 3]
    if R is None and iota and len(rot) == 1:
        mid = T.node(rot[0][2][1])
        if mid[0] == 'opc' and mid[1] in ('+', '-') and len(mid) == 4:
            base, off = T.node(mid[2]), mid[3]
            if base[0] == 'mc' and base[1].split('::')[-1] == 'begin' and mid[1] == '+':
                R = poly(T, off)
                how = 'identity rotated left by r'
            elif base[0] == 'mc' and base[1].split('::')[-1] == 'end' and mid[1] == '-':
                R = poly(T, npar)
                padd(R, poly(T, off), -1)
                how = 'identity rotated left by n - x'
    if R is None:
        # two ascending runs: std::iota(begin, begin + RUN, r); std::iota(begin + RUN, end, 0) with RUN = n - r
        io = [ev for nid, ev in calls if ev[1].split('::')[-1] == 'iota' and len(ev[2]) == 3]
        if len(io) == 2:
            def off_of(t, which):
                tn = T.node(t)
                if tn[0] == 'mc' and tn[1].split('::')[-1] == which:
                    return T.int(0) if which == 'begin' else None
                if tn[0] == 'opc' and tn[1] == '+' and len(tn) == 4 and T.node(tn[2])[0] == 'mc' and T.node(tn[2])[1].split('::')[-1] == 'begin':
                    return tn[3]
                return 'bad'
            first = [ev for ev in io if off_of(ev[2][0], 'begin') is not None and off_of(ev[2][0], 'begin') != 'bad' and T.is_int(off_of(ev[2][0], 'begin'), 0)]
            second = [ev for ev in io if ev not in first]
            if len(first) == 1 and len(second) == 1:
                run1 = off_of(first[0][2][1], 'begin')
                run2 = off_of(second[0][2][0], 'begin')
                end2 = T.node(second[0][2][1])
                if run1 not in (None, 'bad') and run1 == run2 and end2[0] == 'mc' and end2[1].split('::')[-1] == 'end' and T.is_int(second[0][2][2], 0):
                    r0 = first[0][2][2]
                    d = poly(T, run1)
                    padd(d, poly(T, r0), 1)
                    padd(d, poly(T, npar), -1)
                    if not {m: c for m, c in d.items() if c}:
                        R = poly(T, r0)
                        how = 'two ascending runs r..n-1 and 0..r-1 (std::iota twice, first run of length n - r)'
    okp = R is not None
    if okp:
        ctx.ok('R02c', 'R02c:random_rotation:fill', how, f)
    else:
        # an unrecognised construction is not a proof of a violation: undecided, i.e. analysis broken
        ctx.note('R02c', 'R02c:random_rotation:fill', 'rotation is not filled by any recognised idiom ((r + i) mod n, iota + rotate, wrapping counter): not decided', f)
    ctx.floor('R02c:rotation-idiom-recognised', 1 if okp else 0, 1)
    n += 1
    okr = False
    if R is not None:
        for nn, kind, val, st in a.exits():
            if kind == 'return' and val is not None:
                def arm_ok(v, zero_shift=False):
                    vn = T.node(v)
                    inner = vn[2] if (vn[0] == 'op' and vn[1] == '%' and vn[3] == npar) else v
                    # returned + R must be a multiple of n (with the shift known to be 0 on this arm: returned itself)
                    d = poly(T, inner)
                    if not zero_shift:
                        padd(d, R, 1)
                    rest = {m: c for m, c in d.items() if c}
                    if zero_shift:
                        return all(m == (npar,) for m in rest) and all(c == int(c) for c in rest.values())
                    return all(m == (npar,) for m in rest) and all(c == int(c) for c in rest.values()) and bool(rest)
                vn = T.node(val)
                if vn[0] == 'ite' and len(vn) == 4 and T.op(vn[1]) == 'rel' and T.node(vn[1])[1] == '==':
                    # (r == 0) ? 0 : n - r
                    cn = T.node(vn[1])
                    xs = [z for z in (cn[2], cn[3]) if not T.is_int(z)]
                    zs = [z for z in (cn[2], cn[3]) if T.is_int(z, 0)]
                    shift_is_zero = len(xs) == 1 and len(zs) == 1 and poly(T, xs[0]) == R
                    if shift_is_zero and arm_ok(vn[2], zero_shift=True) and arm_ok(vn[3]):
                        okr = True
                elif arm_ok(val):
                    okr = True
    if R is None:
        ctx.note('R02c', 'R02c:random_rotation:offset', 'shift of the rotation not determined: offset not decided', f)
    else:
        (ctx.ok if okr else ctx.bad)('R02c', 'R02c:random_rotation:offset', 'returned offset is congruent to n - r' if okr else
                                     'returned rotation offset is not (n - r) mod n for the shift r the rotation was filled with', f)
    # Fisher-Yates: cells are written only by the identity fill and by a swap of two cells
    f = prog.fn('random_permutation_fast', 0)
    a = ctx.analysis(f)
    T = a.T
    pi_p = f['params'][1]
    n += 1
    writes = []
    for e in walk(f['body']):
        if e.get('k') == 'opcall' and e.get('op') == '=' or (e.get('k') == 'bin' and e.get('op') == '='):
            ie = index_expr(e['a'][0])
            if ie and isinstance(ie[0], dict) and ie[0].get('k') == 'var' and ie[0]['id'] == pi_p['id']:
                writes.append(e)
    swaps = []
    for e in walk(f['body']):
        if e.get('k') == 'call' and e.get('f', '').split('::')[-1] in ('swap', 'iter_swap') and len(e.get('a', [])) == 2:
            i1, i2 = index_expr(e['a'][0]), index_expr(e['a'][1])
            if i1 and i2 and all(isinstance(x[0], dict) and x[0].get('k') == 'var' and x[0]['id'] == pi_p['id'] for x in (i1, i2)):
                t1, t2 = eval_at(a, i1[1], e['l']), eval_at(a, i2[1], e['l'])
                swaps.append(t1 is not None and t2 is not None and t1 != t2)
    okw = False
    identity_by_assign = False
    def swap_pair(w1, w2):
        i1 = eval_at(a, index_expr(w1['a'][0])[1], w1['l'])
        i2 = eval_at(a, index_expr(w2['a'][0])[1], w2['l'])
        r1 = index_expr(w1['a'][1])
        src1 = eval_at(a, r1[1], w1['l']) if r1 else None
        # second write stores the saved old value of the first cell
        v2 = w2['a'][1]
        saved_ok = False
        if isinstance(v2, dict) and v2.get('k') == 'var':
            # its single reaching definition is pi[i1]
            for e in walk(f['body']):
                if e.get('k') == 'decl':
                    for v in e['v']:
                        if v['id'] == v2['id'] and v.get('init'):
                            ii = index_expr(v['init'])
                            if ii and eval_at(a, ii[1], e['l']) == i1:
                                saved_ok = True
        return i1 is not None and i2 is not None and src1 == i2 and saved_ok and i1 != i2
    if writes and len(writes) % 2 == 0 and not swaps:
        # one three-statement exchange per generation strategy (a function may have several, selected by the size)
        okw = all(swap_pair(writes[k], writes[k + 1]) for k in range(0, len(writes), 2))
    elif swaps and all(swaps):
        # std::swap(pi[i], pi[rnd]); any direct cell write besides it must be the identity fill pi[i] = i
        rest_ok = True
        for w in writes:
            it = eval_at(a, index_expr(w['a'][0])[1], w['l'])
            vt = eval_at(a, w['a'][1], w['l'])
            if it is not None and it == vt and T.op(it) == 'iv':
                identity_by_assign = True
            else:
                rest_ok = False
        okw = rest_ok
    (ctx.ok if okw else ctx.bad)('R02c', 'R02c:random_permutation_fast:swap', 'cells change only by exchanging pi[i] and pi[rnd]' if okw else
                                 'permutation cells are written other than by a swap of two cells (duplicates possible)', f)
    n += 1
    fills = [ev for nid, ev in a.all_events('mcall') if ev[1].endswith('::push_back')]
    iota = [ev for nid, ev in a.all_events('call') if ev[1].split('::')[-1] == 'iota' and len(ev[2]) == 3 and T.is_int(ev[2][2], 0)]
    okf = (len(fills) == 1 and T.op(fills[0][3][0]) == 'iv') or (not fills and len(iota) == 1) or (not fills and identity_by_assign)
    (ctx.ok if okf else ctx.bad)('R02c', 'R02c:random_permutation_fast:identity', 'initialised with the identity' if okf else 'not initialised with the identity permutation', f)
    ctx.floor('R02c', n, 4)


EXPLANATION = ("Static structural check of the shuffle code: (R02a) both instantiations of the stack-secret importer accept only after every "
               "parsed index passed index < size and either every i < size was found or the indices were checked pairwise distinct (iteration "
               "must-facts of the parse / check loops), and operator>> maps a refused import to failbit; (R02b) the two TMCG_MixStack and two "
               "TMCG_GlueStackSecret routines use, as symbolic terms, the index and secret positions the recorded permutation designates and "
               "push exactly one card per input position; (R02c) the permutation constructors only swap cells / fill a rotation and return the "
               "matching offset. Necessary conditions; that re-masking preserves types is algebra and not decided.")
ASSUMPTIONS = ["container cells are summarised; index terms are compared symbolically", "TMCG_MixOpenStack is private and uncalled (latent), not checked"]
