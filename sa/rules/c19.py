"""C19 OpenPGP encodings conform to the standard and round-trip (tables and finite domains).

Oracle: RFC 4880 tables and formulas typed into this file, independent of the library.
R19a radix-64 alphabet and inverse table, CRC-24 constants, line length, armor header strings,
R19b body-length forms: encoder and decoder against the RFC over all boundary regions,
R19c iterated-S2K count expression over all 256 count octets,
R19d scalar / MPI / time codecs: big-endian field agreement,
R19e armor decoding refuses a wrong checksum,
R19g iterated S2K hashing: salt+passphrase is hashed completely at least once (RFC 4880 3.7.1.3),
     only the repetitions are cut off at the octet count,
R19h in the packet decoders the nonce length of an AEAD packet is that of the AEAD algorithm read,
R19f fingerprint framing: v4 = SHA-1 over 0x99 | 2-octet length | body, v5 = SHA-256 over 0x9A |
     4-octet length | body; key ids are the low 64 bits (v4) / high 64 bits (v5) of the fingerprint."""
from .. import evalx, seqeval
from ..pieceeval import PieceEval
from ..facts import walk, AnalysisBroken

CLS = 'CallasDonnerhackeFinneyShawThayerRFC4880'
RFC_ALPHABET = 'ABCDEFGHIJKLMNOPQRSTUVWXYZabcdefghijklmnopqrstuvwxyz0123456789+/'
RFC_CRC24_INIT = 0xB704CE
RFC_CRC24_POLY = 0x1864CFB
RFC_ARMOR = ['PGP MESSAGE', 'PGP PUBLIC KEY BLOCK', 'PGP PRIVATE KEY BLOCK', 'PGP SIGNATURE']


def rfc_len_encode(n):
    if n < 192:
        return [n]
    if n < 8384:
        return [((n - 192) >> 8) + 192, (n - 192) & 0xFF]
    return [0xFF, (n >> 24) & 0xFF, (n >> 16) & 0xFF, (n >> 8) & 0xFF, n & 0xFF]


def rfc_len_decode(o):
    """(header octets, length, partial) for new-format headers"""
    if o[0] < 192:
        return 1, o[0], False
    if o[0] < 224:
        return 2, ((o[0] - 192) << 8) + o[1] + 192, False
    if o[0] == 255:
        return 5, (o[1] << 24) | (o[2] << 16) | (o[3] << 8) | o[4], False
    return 1, 1 << (o[0] & 0x1F), True


def run(ctx):
    prog = ctx.prog
    r19a(ctx)
    r19b(ctx)
    r19c(ctx)
    r19d(ctx)
    r19e(ctx)
    r19f(ctx)
    r19h(ctx)
    r19g(ctx)
    r19i(ctx)
    r19j(ctx)
    r19k(ctx)


def global_value(prog, name):
    g = prog.globals.get(name)
    if g is None:
        raise AnalysisBroken('global table %s not found' % name)
    ini = g['init']
    if ini.get('k') == 'str':
        return [ord(c) for c in ini['v']]
    if ini.get('k') == 'init':
        return [x.get('v') for x in ini['a']]
    raise AnalysisBroken('global table %s has an unexpected initialiser' % name)


def r19a(ctx):
    prog = ctx.prog
    t = global_value(prog, 'tmcg_openpgp_tRadix64')
    okt = t[:64] == [ord(c) for c in RFC_ALPHABET]
    (ctx.ok if okt else ctx.bad)('R19a', 'R19a:alphabet', 'radix-64 alphabet equals RFC 4880 section 6.3' if okt else 'radix-64 alphabet differs from RFC 4880', None)
    fr = global_value(prog, 'tmcg_openpgp_fRadix64')
    want = [255] * 256
    for i, c in enumerate(RFC_ALPHABET):
        want[ord(c)] = i
    bad = [i for i in range(min(256, len(fr))) if fr[i] != want[i]]
    okf = len(fr) == 256 and not bad
    (ctx.ok if okf else ctx.bad)('R19a', 'R19a:inverse-table', 'inverse table maps exactly the 64 alphabet characters to their index (256 entries)' if okf else
                                 'inverse radix-64 table wrong at character codes %s' % bad[:8], None)
    # CRC-24 constants and line length as they reach the code (macro-expanded literals)
    consts = {}
    for q in (CLS + '::CRC24Compute', CLS + '::CRC24Encode', CLS + '::Radix64Encode', CLS + '::ArmorEncode'):
        for f in prog.by_q.get(q, []):
            for e in walk(f['body']):
                if e.get('k') == 'int' and e.get('m'):
                    consts.setdefault(e['m'], set()).add(e['v'])
    for name, wantv in (('TMCG_OPENPGP_CRC24_INIT', RFC_CRC24_INIT), ('TMCG_OPENPGP_CRC24_POLY', RFC_CRC24_POLY)):
        got = consts.get(name)
        okc = got == {wantv}
        (ctx.ok if okc else ctx.bad)('R19a', 'R19a:' + name, '%s = 0x%X as in RFC 4880 section 6.1' % (name, wantv) if okc else
                                     '%s is %s, RFC 4880 says 0x%X' % (name, sorted(got) if got else 'not used', wantv), None)
    mc = consts.get('TMCG_OPENPGP_RADIX64_MC')
    okm = mc is not None and len(mc) == 1 and 0 < list(mc)[0] <= 76 and list(mc)[0] % 4 == 0
    (ctx.ok if okm else ctx.bad)('R19a', 'R19a:line-length', 'armor lines have at most 76 characters (multiple of four)' if okm else 'armor line length %s violates the 76 character limit' % mc, None)
    # armor header strings: encoder and decoder use the RFC strings
    def strings(q):
        out = set()
        for f in prog.by_q.get(q, []):
            for e in walk(f['body']):
                if e.get('k') == 'str' and 'PGP' in e['v']:
                    out.add(e['v'])
        return out
    enc, dec = strings(CLS + '::ArmorEncode'), strings(CLS + '::ArmorDecode')
    for name in RFC_ARMOR:
        for side, ss in (('encode', enc), ('decode', dec)):
            okb = any(s == '-----BEGIN %s-----' % name or s.startswith('-----BEGIN %s-----' % name) for s in ss)
            oke = any(s == '-----END %s-----' % name or s.startswith('-----END %s-----' % name) for s in ss)
            okv = okb and oke
            (ctx.ok if okv else ctx.bad)('R19a', 'R19a:armor:%s:%s' % (side, name), 'BEGIN/END lines for %s as in RFC 4880 section 6.2' % name if okv else
                                         'armor %s side lacks the exact BEGIN/END line for "%s"' % (side, name), None)


def r19b(ctx):
    prog = ctx.prog
    enc = prog.fn(CLS + '::PacketLengthEncode', 0)
    dec = prog.fn(CLS + '::PacketLengthDecode', 0)
    pn = [p['n'] for p in enc['params']]
    lens = list(range(0, 9000)) + [65535, 65536, 65537, 1 << 24, (1 << 24) + 1, (1 << 31) - 1, 1 << 31, (1 << 32) - 1]
    bad = None
    n = 0
    try:
        for L in lens:
            pe = PieceEval(enc, {pn[0]: L, pn[1]: []})
            pe.run()
            got = pe.out(pn[1])
            n += 1
            if got != rfc_len_encode(L):
                bad = 'length %d is encoded as %s, RFC 4880 section 4.2.2 prescribes %s' % (L, got, rfc_len_encode(L))
                break
    except evalx.NotEvaluable as ex:
        raise AnalysisBroken('PacketLengthEncode is no longer a loop-free definition: %s' % ex)
    (ctx.ok if not bad else ctx.bad)('R19b', 'R19b:encode', 'body-length encoder equals the RFC for %d lengths incl. 191/192, 8383/8384, 2^16, 2^32-1' % n if not bad else bad, enc)
    dn = [p['n'] for p in dec['params']]
    cases = []
    for o0 in range(256):
        for o1 in (0, 1, 127, 255):
            cases.append([o0, o1, 0x12, 0x34, 0x56])
    cases += [[255, 255, 255, 255, 255], [255, 0, 0, 0, 0], [223, 255, 0, 0, 0], [192, 0, 0, 0, 0], [191], [224], [254]]
    bad = None
    n = 0
    try:
        for o in cases:
            pe = PieceEval(dec, {dn[0]: list(o), dn[1]: 1, dn[2]: 0, dn[3]: 0, dn[4]: 0})
            head = pe.run()
            n += 1
            need = 1 if o[0] < 192 or (224 <= o[0] < 255) else (2 if o[0] < 224 else 5)
            if len(o) < need:
                if head != 0:
                    bad = 'truncated length header %s accepted' % o
                    break
                continue
            wh, wl, wp = rfc_len_decode(o)
            gl, gp = pe.out(dn[3]), pe.out(dn[4])
            if (head, gl, bool(gp)) != (wh, wl, wp):
                bad = 'header %s decodes to (octets=%s, length=%s, partial=%s), RFC 4880 says (%d, %d, %s)' % (o[:wh], head, gl, bool(gp), wh, wl, wp)
                break
        # old format length types
        for lt, octs, want in ((0, [0x9A, 1, 2, 3], (1, 0x9A)), (1, [0x12, 0x34, 5, 6], (2, 0x1234)), (2, [0x01, 0x02, 0x03, 0x04], (4, 0x01020304))):
            pe = PieceEval(dec, {dn[0]: list(octs), dn[1]: 0, dn[2]: lt, dn[3]: 0, dn[4]: 0})
            head = pe.run()
            n += 1
            if (head, pe.out(dn[3])) != want:
                bad = 'old-format length type %d decodes %s to (%s, %s), expected %s' % (lt, octs, head, pe.out(dn[3]), want)
    except evalx.NotEvaluable as ex:
        raise AnalysisBroken('PacketLengthDecode is no longer a loop-free definition: %s' % ex)
    (ctx.ok if not bad else ctx.bad)('R19b', 'R19b:decode', 'body-length decoder equals the RFC for %d headers (all first octets x 4 second octets, partial lengths, old format)' % n if not bad else bad, dec)
    ctx.floor('R19b', n, 1000)
    # signature subpackets: length (incl. the type octet) in the same 1/2/5 octet forms, no partial lengths
    sp = prog.fn(CLS + '::SubpacketEncode', 0)
    sn = [p['n'] for p in sp['params']]
    bad = None
    m = 0
    try:
        for blen in list(range(0, 400)) + [8380, 8381, 8382, 8383, 8384, 8385, 65534, 65535, 65536]:
            for crit in (0, 1):
                pe = PieceEval(sp, {sn[0]: 26, sn[1]: crit, sn[2]: [0x41] * blen, sn[3]: []}, prog=prog)
                pe.run()
                got = pe.out(sn[3])
                want = rfc_len_encode(blen + 1) + [26 | (0x80 if crit else 0)] + [0x41] * blen
                m += 1
                if got != want and bad is None:
                    bad = 'subpacket with a %d octet body starts with %s, RFC 4880 section 5.2.3.1 prescribes %s' % (
                        blen, got[:6], want[:6])
    except evalx.NotEvaluable as ex:
        raise AnalysisBroken('SubpacketEncode is no longer a loop-free definition: %s' % ex)
    (ctx.ok if not bad else ctx.bad)('R19b', 'R19b:subpacket-encode', 'subpacket header equals the RFC for %d (body length, critical) cases incl. 190/191/192 and 8382/8383/8384' % m if not bad else bad, sp)


def r19c(ctx):
    """iterated S2K count: in the S2K routines every shift expression over one octet-typed parameter
    (named local constants substituted) is a candidate for the count formula and is evaluated for all
    256 octets; the routine is fine when a candidate equals the formula of RFC 4880 3.7.1.3"""
    prog = ctx.prog
    found = 0
    for key, f in prog.funcs.items():
        if 'RFC4880' not in f['file'] or 'S2K' not in f['q'].split('::')[-1] or not f.get('body'):
            continue
        octs = set(p['id'] for p in f['params'] if p['t'].replace('const ', '').strip() in ('unsigned char', 'tmcg_openpgp_byte_t'))
        cenv = local_consts(f)
        cands = []
        for e in walk(f.get('body')):
            if e.get('k') == 'bin' and e.get('op') == '<<':
                txt = list(walk(e))
                vars_ = set(x['id'] for x in txt if x.get('k') == 'var' and x['id'] not in cenv)
                if len(vars_) == 1 and vars_ <= octs and not any(x.get('k') in ('call', 'mcall', 'opcall', 'idx') for x in txt):
                    cands.append((e, next(iter(vars_))))
        if not cands:
            continue
        found += 1
        key2 = 'R19c:%s' % f['q']
        firstbad = None
        good = None
        for e, vid in cands:
            bad = None
            try:
                for c in range(256):
                    got = evalx.ev(e, dict(cenv, **{}) | {vid: c})
                    want = (16 + (c & 15)) << ((c >> 4) + 6)
                    if got != want:
                        bad = (c, got, want)
                        break
            except evalx.NotEvaluable:
                continue
            if bad is None:
                good = e
                break
            firstbad = firstbad or (e, bad)
        if good is not None:
            ctx.ok('R19c', key2, 'S2K count expression equals (16 + (c & 15)) << ((c >> 4) + 6) for all 256 octets', f, line=good.get('l'))
        elif firstbad is not None:
            ctx.bad('R19c', key2, 'iterated S2K count for octet %d is %d, RFC 4880 section 3.7.1.3 prescribes %d' % firstbad[1], f, line=firstbad[0].get('l'))
        else:
            found -= 1
    ctx.floor('R19c', found, 1)


def r19d(ctx):
    """big-endian scalar codecs: encoder evaluated over sample values, decoder expression shape"""
    prog = ctx.prog
    n = 0
    for name, width in (('PacketScalarFourEncode', 4), ('PacketTimeEncode', 4), ('PacketScalarEightEncode', 8)):
        for f in prog.by_q.get('%s::%s' % (CLS, name), []):
            if len(f['params']) != 2:
                continue
            pn = [p['n'] for p in f['params']]
            bad = None
            for v in (0, 1, 0x01020304, 0xFFFFFFFF, 0x0102030405060708, 0x80000000):
                if v >= 1 << (8 * width):
                    continue
                try:
                    pe = PieceEval(f, {pn[0]: v, pn[1]: []})
                    pe.run()
                except evalx.NotEvaluable:
                    bad = 'not evaluable'
                    break
                want = [(v >> (8 * (width - 1 - i))) & 0xFF for i in range(width)]
                if pe.out(pn[1]) != want:
                    bad = 'value 0x%X is encoded as %s, expected big-endian %s' % (v, pe.out(pn[1]), want)
                    break
            n += 1
            if bad == 'not evaluable':
                ctx.note('R19d', 'R19d:' + name, 'encoder is not a loop-free definition any more; not evaluated', f)
            elif bad:
                ctx.bad('R19d', 'R19d:' + name, bad, f)
            else:
                ctx.ok('R19d', 'R19d:' + name, '%d-octet scalar is written big-endian' % width, f)
    ctx.info['scalar_codecs'] = n


def r19e(ctx):
    prog = ctx.prog
    f = prog.fn(CLS + '::ArmorDecode', 0)
    a = ctx.analysis(f)
    T = a.T
    # exits that return a recognised armor type must be dominated by a checksum comparison
    okc = True
    nex = 0
    for n_, kind, val, st in a.exits():
        if kind != 'return' or val is None:
            continue
        vn = T.node(val)
        if vn[0] == 'int' and vn[1] == 0:
            continue        # TMCG_OPENPGP_ARMOR_UNKNOWN
        nex += 1
        has = False
        for fa in st.facts:
            fn_ = T.node(fa)
            if fn_[0] == 'if':
                fn_ = T.node(fn_[2])
            if fn_[0] == 'rel' and fn_[1] == '==':
                sides = [T.show(fn_[2], 8), T.show(fn_[3], 8)]
                if any('CRC24Encode' in s for s in sides) and any('substr' in s and 'CRC24Encode' not in s for s in sides):
                    has = True
        if not has:
            okc = False
    if nex == 0:
        ctx.bad('R19e', 'R19e:ArmorDecode', 'ArmorDecode has no accepting exit (anchor changed)', f, nec=False)
    else:
        (ctx.ok if okc else ctx.bad)('R19e', 'R19e:ArmorDecode:checksum', 'an armor type is reported only after the CRC-24 of the decoded body was compared with the transmitted checksum' if okc else
                                     'ArmorDecode accepts a block without comparing the CRC-24 checksum', f)


EXPLANATION = ("Conformance of the finite parts decided against RFC 4880 tables and formulas typed into the checker: alphabet, 256-entry inverse "
               "table, CRC-24 constants, line length, BEGIN/END strings of encoder and decoder; the body-length encoder and decoder (loop-free "
               "definitions extracted from the source) evaluated piecewise over all boundary regions (0..8999, 2^16, 2^24, 2^31, 2^32-1; all "
               "256 first octets incl. partial lengths; old-format length types); the iterated-S2K count expression over all 256 octets; "
               "big-endian scalar encoders; the CRC comparison guarding ArmorDecode's accepting exits; the framing of the fingerprint hash input "
               "(tag octet, length octets, offset, hash algorithm, digest length) and the key-id slice for v4 and v5 keys; the octet layout of the "
               "loop-free packet encoders (PKESK x3, signature x2, public key / subkey v4 and v5 for every public-key algorithm number 0..255, literal, "
               "user id, SED, SEIPD, MDC, AEAD) evaluated as templates against the field order of RFC 4880 5.1/5.2/5.5.2/5.7/5.9/5.11/5.13/5.14, RFC 6637 9 "
               "and the v5/AEAD draft, with the packet length compared with the size of what follows. The passphrase-protected form of the secret-key encoders (S2K and encryption inside; the unprotected "
               "form is evaluated), the octets of MPIs and blocks, and agreement with GnuPG are not decided.")
ASSUMPTIONS = ["RFC 4880 constants as typed in sa/rules/c19.py", "piecewise evaluation interprets unsigned arithmetic with the declared widths"]


def unwrap_iter(x):
    while isinstance(x, dict) and (x.get('k') == 'cast' or (x.get('k') == 'ctor' and len(x.get('a', [])) == 1)):
        x = x['e'] if x.get('k') == 'cast' else x['a'][0]
    return x


def is_begin_of(x, vid):
    return isinstance(x, dict) and x.get('k') == 'mcall' and x['f'].split('::')[-1] in ('begin', 'cbegin') and unwrap_iter(x.get('o')).get('id') == vid


def is_end_of(x, vid):
    return isinstance(x, dict) and x.get('k') == 'mcall' and x['f'].split('::')[-1] in ('end', 'cend') and unwrap_iter(x.get('o')).get('id') == vid


def const_of(x, env=None):
    x = unwrap_iter(x)
    if isinstance(x, dict) and x.get('k') == 'int':
        return x['v']
    if env is not None and isinstance(x, dict):
        try:
            return int(evalx.ev(x, env))
        except evalx.NotEvaluable:
            return None
    return None


def ptr_offset(x, vid, env=None):
    """constant K of the pointer expression  p + K  (or plain p: 0); vid=None accepts any base variable;
    K may be a named constant whose value env holds"""
    x = unwrap_iter(x)
    if isinstance(x, dict) and x.get('k') == 'var' and (vid is None or x.get('id') == vid):
        return 0
    if isinstance(x, dict) and x.get('k') in ('bin', 'opcall') and x.get('op') == '+' and len(x.get('a', [])) == 2:
        a0, a1 = unwrap_iter(x['a'][0]), unwrap_iter(x['a'][1])
        if isinstance(a0, dict) and a0.get('k') == 'var' and (vid is None or a0.get('id') == vid):
            return const_of(a1, env)
    return None


def iter_offset(x, env=None):
    """constant K of  v.begin() + K  (or v.begin(): 0)"""
    x = unwrap_iter(x)
    if isinstance(x, dict) and x.get('k') == 'mcall' and x['f'].split('::')[-1] in ('begin', 'cbegin'):
        return 0
    if isinstance(x, dict) and x.get('k') in ('bin', 'opcall') and x.get('op') == '+' and len(x.get('a', [])) == 2:
        a0, a1 = unwrap_iter(x['a'][0]), unwrap_iter(x['a'][1])
        if isinstance(a0, dict) and a0.get('k') == 'mcall' and a0['f'].split('::')[-1] in ('begin', 'cbegin'):
            return const_of(a1, env)
    return None


def local_consts(f, call=None):
    """values of the named constants declared in a function (const size_t hashlen = 20;)"""
    env = {}
    for st in walk(f['body']):
        if st.get('k') == 'decl':
            for v in st['v']:
                if v.get('init') is not None and 'const' in v.get('t', '') and '*' not in v.get('t', '') and '&' not in v.get('t', ''):
                    try:
                        env[v['id']] = evalx.wrap(evalx.ev(v['init'], env, call), v['t'].replace('const ', '').strip())
                    except evalx.NotEvaluable:
                        pass
    return env


class _HashBufEval(seqeval.SeqEval):
    """the octet vector handed to gcry_md_hash_buffer (as &v[0] / v.data()) at the call"""
    def __init__(self, prog, f, sizes, hcall, bid):
        super().__init__(prog, f, sizes)
        self.hcall, self.bid, self.snap = hcall, bid, None

    def stmt(self, s):
        if s is None or self.snap is not None:
            return
        if s.get('k') not in ('block', 'if', 'for', 'while') and any(x is self.hcall for x in walk(s)):
            self.snap = (list(self.vecs.get(self.bid, [])), self.ev(self.hcall['a'][3]))
            return
        super().stmt(s)


def r19f(ctx):
    """fingerprint framing (RFC 4880 12.2, v5 per the crypto-refresh draft the library follows):
    the header octets written in front of the key material, the offset the material is copied to,
    the hashed length, the hash algorithm and the digest length are read off the source and
    evaluated for a set of body lengths"""
    prog = ctx.prog
    spec = {
        'FingerprintCompute': (0x99, 2, 'GCRY_MD_SHA1', 20, (0, 1, 255, 256, 4660, 65535)),
        'FingerprintComputeV5': (0x9A, 4, 'GCRY_MD_SHA256', 32, (0, 1, 255, 256, 65536, (1 << 24) + 5, (1 << 32) - 1)),
    }
    for name, (tagoct, nlen, algo, dlen, sizes) in spec.items():
        f = prog.fn(CLS + '::' + name, 0)
        key = 'R19f:' + name
        inp = f['params'][0]
        hcall = None
        for e in walk(f['body']):
            if e.get('k') == 'call' and e.get('f') == 'gcry_md_hash_buffer':
                hcall = e
        if hcall is None or len(hcall['a']) != 4:
            ctx.note('R19f', key, 'hash input is not built in a buffer handed to gcry_md_hash_buffer any more; framing not evaluated', f)
            continue

        def strip(x):
            while isinstance(x, dict) and x.get('k') == 'cast':
                x = x['e']
            return x
        al = strip(hcall['a'][0])
        buf = strip(hcall['a'][2])
        problems = []
        if not (isinstance(al, dict) and al.get('n') == algo):
            problems.append('hash algorithm is %s, the standard prescribes %s' % (al.get('n', al.get('v')) if isinstance(al, dict) else '?', algo))
        vbuf = None
        if isinstance(buf, dict) and buf.get('k') == 'un' and buf.get('op') == '&':
            b2 = strip(buf['a'][0])
            if isinstance(b2, dict) and (b2.get('k') == 'idx' or (b2.get('k') == 'opcall' and b2.get('op') == '[]')) and const_of(b2['a'][1]) == 0:
                vbuf = strip(b2['a'][0])
        elif isinstance(buf, dict) and buf.get('k') == 'mcall' and buf['f'].split('::')[-1] == 'data':
            vbuf = strip(buf.get('o'))
        if isinstance(vbuf, dict) and vbuf.get('k') == 'var' and 'vector<unsigned char' in vbuf.get('t', ''):
            # the hash input is built in a local octet vector: evaluate the builder for each body length
            for N in sizes:
                try:
                    se = _HashBufEval(prog, f, {inp['n']: N}, hcall, vbuf['id'])
                    se.run()
                except evalx.NotEvaluable as ex:
                    problems = None
                    ctx.note('R19f', key, 'hash input builder not evaluable (%s); framing not evaluated' % ex, f)
                    break
                if se.snap is None:
                    problems = None
                    ctx.note('R19f', key, 'hash call not reached by the evaluation; framing not evaluated', f)
                    break
                got, hl = se.snap
                want = [tagoct] + [(N >> (8 * (nlen - 1 - j))) & 0xFF for j in range(nlen)] + [('blk', inp['n'])]
                if got != want:
                    problems.append('for a %d-octet key body the hash input is %s, the standard prescribes %s' % (N, got, want))
                    break
                if hl != N + 1 + nlen:
                    problems.append('for a %d-octet key body %d octets are hashed instead of %d' % (N, hl, N + 1 + nlen))
                    break
            if problems is None:
                continue
            buf = None
        elif not (isinstance(buf, dict) and buf.get('k') == 'var'):
            ctx.note('R19f', key, 'hash input buffer is not a plain variable; framing not evaluated', f)
            continue
        bid = buf['id'] if buf is not None else None
        if bid is not None:
            consts = {}
            body_off = None
            for st in walk(f['body']):
                if st.get('k') == 'bin' and st.get('op') == '=' and st['a'][0].get('k') == 'idx' and strip(st['a'][0]['a'][0]).get('id') == bid:
                    ie = st['a'][0]['a'][1]
                    rhs = strip(st['a'][1])
                    if ie.get('k') == 'int':
                        consts[ie['v']] = st['a'][1]
                    elif rhs.get('k') in ('idx', 'opcall') and strip(rhs['a'][0]).get('id') == inp['id']:
                        # buffer[OFF + i] = in[i]
                        iv = strip(rhs['a'][1])
                        if iv.get('k') == 'var':
                            try:
                                body_off = evalx.ev(ie, dict(list(local_consts(f).items()) + [(iv['id'], 0)]))
                            except evalx.NotEvaluable:
                                body_off = None
            if body_off is None:
                # std::copy(in.begin(), in.end(), buffer + OFF)  /  memcpy(buffer + OFF, &in[0], in.size())
                for st in walk(f['body']):
                    if st.get('k') == 'call' and st.get('f', '').split('::')[-1] == 'copy' and len(st.get('a', [])) == 3:
                        b0, b1, dst = [unwrap_iter(x) for x in st['a']]
                        if is_begin_of(b0, inp['id']) and is_end_of(b1, inp['id']):
                            off = ptr_offset(dst, bid, local_consts(f))
                            if off is not None:
                                body_off = off
            if body_off is None:
                ctx.note('R19f', key, 'copy of the key material into the hash buffer not recognised; framing not evaluated', f)
                continue

            for N in sizes:
                def call(e, env, N=N):
                    if e.get('k') == 'mcall' and e['f'].split('::')[-1] == 'size' and strip(e['o']).get('id') == inp['id']:
                        return N
                    raise evalx.NotEvaluable('call')
                try:
                    env = local_consts(f, call)
                    got = [evalx.ev(consts[k2], env, call) & 0xFF if k2 in consts else None for k2 in range(body_off)]
                    hl = evalx.ev(hcall['a'][3], env, call)
                except evalx.NotEvaluable as ex:
                    ctx.note('R19f', key, 'framing expressions not evaluable (%s); not evaluated' % ex, f)
                    problems = None
                    break
                want = [tagoct] + [(N >> (8 * (nlen - 1 - j))) & 0xFF for j in range(nlen)]
                if got != want:
                    problems.append('for a %d-octet key body the hash input starts with %s, the standard prescribes %s' % (N, got, want))
                    break
                if hl != N + 1 + nlen:
                    problems.append('for a %d-octet key body %d octets are hashed instead of %d' % (N, hl, N + 1 + nlen))
                    break
        if problems is None:
            continue
        # digest length handed out
        outp = f['params'][1]
        nout = None
        cenv = local_consts(f)
        for st in walk(f['body']):
            if st.get('k') == 'for' and isinstance(st.get('c'), dict) and st['c'].get('op') == '<' and const_of(st['c']['a'][1], cenv) is not None:
                if any(e.get('k') == 'mcall' and e['f'].endswith('push_back') and strip(e['o']).get('id') == outp['id'] for e in walk(st['b'])):
                    nout = const_of(st['c']['a'][1], cenv)
        if nout is None:
            # out.insert(out.end(), hash, hash + N)
            for st in walk(f['body']):
                if st.get('k') == 'mcall' and st['f'].split('::')[-1] == 'insert' and strip(st.get('o')).get('id') == outp['id'] and len(st.get('a', [])) == 3:
                    lo = ptr_offset(unwrap_iter(st['a'][1]), None, cenv)
                    hi = ptr_offset(unwrap_iter(st['a'][2]), None, cenv)
                    if lo is not None and hi is not None:
                        nout = hi - lo
        if nout is not None and nout != dlen:
            problems.append('%d digest octets are returned, the fingerprint has %d' % (nout, dlen))
        if problems:
            ctx.bad('R19f', key, problems[0], f)
        else:
            ctx.ok('R19f', key, 'hash input = 0x%02X | %d-octet big-endian length | body, %s, %d octets' % (tagoct, nlen, algo, dlen), f)
    # key id slices
    for name, (lo, hi, what) in {'KeyidCompute': (12, 20, 'low 64 bits of the v4 fingerprint'), 'KeyidComputeV5': (0, 8, 'high 64 bits of the v5 fingerprint')}.items():
        f = prog.fn(CLS + '::' + name, 0)
        key = 'R19f:' + name
        rng = None
        for st in walk(f['body']):
            if st.get('k') == 'for' and isinstance(st.get('c'), dict) and st['c'].get('op') == '<' and isinstance(st.get('i'), dict) and st['i'].get('k') == 'decl':
                init = st['i']['v'][0].get('init')
                b = st['c']['a'][1]
                while isinstance(b, dict) and b.get('k') == 'cast':
                    b = b['e']
                while isinstance(init, dict) and init.get('k') == 'cast':
                    init = init['e']
                if isinstance(init, dict) and init.get('k') == 'int' and isinstance(b, dict) and b.get('k') == 'int':
                    rng = (init['v'], b['v'])
        if rng is None:
            # out.insert(out.end(), fpr.begin() + lo, fpr.begin() + hi)
            for st in walk(f['body']):
                if st.get('k') == 'mcall' and st['f'].split('::')[-1] == 'insert' and len(st.get('a', [])) == 3:
                    lo = iter_offset(unwrap_iter(st['a'][1]))
                    hi = iter_offset(unwrap_iter(st['a'][2]))
                    if lo is not None and hi is not None:
                        rng = (lo, hi)
        if rng is None:
            ctx.note('R19f', key, 'key-id slice not recognised; not evaluated', f)
        elif rng == (lo, hi):
            ctx.ok('R19f', key, 'key id = octets %d..%d of the fingerprint (%s)' % (lo, hi - 1, what), f)
        else:
            ctx.bad('R19f', key, 'key id is taken from octets %d..%d of the fingerprint, the standard prescribes %d..%d (%s)' % (rng[0], rng[1] - 1, lo, hi - 1, what), f)
    ctx.floor('R19f', sum(1 for r in ctx.results if r.rule == 'R19f' and r.status == 'ok'), 4)


def r19h(ctx):
    """nonce length of AEAD packets: in a packet decoder, once the AEAD algorithm octet of the packet
    has been read (on every path to this point), the length of the starting IV / nonce is the one of
    that AEAD algorithm (RFC 4880bis 5.16: OCB 15 octets, EAX 16), not the cipher's block size --
    the two functions share a name and are overloaded on the enum type"""
    import re
    prog = ctx.prog
    n = 0
    for k, f in sorted(prog.funcs.items(), key=lambda kv: kv[1]['q']):
        if 'RFC4880' not in f['file'] or not re.search(r'PacketDecodeTag\d+$', f['q']) or not f.get('body'):
            continue
        outp = [p_ for p_ in f['params'] if p_['n'] == 'out']
        if not outp:
            continue
        a = ctx.analysis(f)
        T = a.T
        occ = 0
        for nid, ev in sorted(a.all_events('call'), key=lambda x: (x[1][3], x[0])):
            if ev[1].split('::')[-1] != 'AlgorithmIVLength' or len(ev[2]) != 1:
                continue
            st = a.instate[nid]
            al = st.env.get(('f', ('v', outp[0]['id'], 'out'), 'aeadalgo'))
            if al is None or T.op(al) == 'phi':
                continue        # no AEAD algorithm read on (all paths to) this point
            occ += 1
            n += 1
            key = 'R19h:%s#%d' % (f['q'].split('::')[-1], occ)
            if ev[2][0] == al:
                ctx.ok('R19h', key, 'the nonce length is taken from the AEAD algorithm read from the packet', f, line=ev[3])
            else:
                ctx.bad('R19h', key, 'the packet names an AEAD algorithm (%s) but the length of its nonce is derived from %s: for OCB (15 octets) the first '
                        'ciphertext octet is taken for the IV' % (T.show(al, 3), T.show(ev[2][0], 3)), f, line=ev[3])
    ctx.floor('R19h', n, 4)


def r19g(ctx):
    """RFC 4880 3.7.1.3: "the entire salt+passphrase is always hashed at least once": in the counted
    hash routine behind the iterated S2K there must be a pass over the whole input whose octets are
    fed to the hash without reference to the octet count; only the repetitions are bounded by it."""
    prog = ctx.prog
    fs = [f for f in prog.fn(CLS + '::HashCompute') if len(f['params']) == 5 and f.get('body')]
    n = 0
    for f in fs:
        a = ctx.analysis(f)
        T = a.T
        cntp = T.mk('param', f['params'][1]['n'])
        inp = f['params'][3]
        reads = [(nid, ev) for nid, ev in a.all_events('index') if ev[1] == ('v', inp['id'], inp['n'])]
        key = 'R19g:HashCompute:%d' % fs.index(f)
        n += 1
        if not reads:
            ctx.note('R19g', key, 'the input is no longer read element-wise; not evaluated', f)
            continue
        full = False
        counted = False
        for nid, ev in reads:
            st = a.instate[nid]
            mentions = any(cntp in T.subterms(fa) for fa in st.facts)
            loops = [h for h, b in a.loop_nodes.items() if nid in b]
            whole = False
            for h in loops:
                lb = a.loop_bound.get(h)
                if lb and lb[1] == '<' and lb[3] == 1 and T.is_int(lb[2], 0):
                    bn = T.node(lb[0])
                    if bn[0] == 'mc' and bn[1].split('::')[-1] == 'size':
                        whole = True
            if mentions:
                counted = True
            elif whole and T.op(ev[2]) == 'iv':
                full = True
        if full:
            ctx.ok('R19g', key, 'the whole input is hashed once unconditionally; only the repetitions are bounded by the octet count', f)
        elif counted:
            ctx.bad('R19g', key, 'every octet of salt+passphrase is fed to the hash only under the octet counter: an input longer than the '
                    'count is truncated, RFC 4880 3.7.1.3 requires it to be hashed completely at least once', f)
        else:
            ctx.note('R19g', key, 'shape of the counted hashing not recognised; not evaluated', f)
    ctx.floor('R19g', sum(1 for r in ctx.results if r.rule == 'R19g' and r.status == 'ok'), 2)


# ---- R19i: layout of emitted packets --------------------------------------------------------------
# RFC 4880 public-key algorithm numbers (9.1), RFC 6637 (18, 19), draft-koch-eddsa (22)
RSA_ALGOS, ELGAMAL, DSA, ECDH, ECDSA, EDDSA = (1, 2, 3), 16, 17, 18, 19, 22


def _be(n, k):
    return [(n >> (8 * (k - 1 - j))) & 0xFF for j in range(k)]


def _show_seq(seq):
    return ' '.join('%02X' % x if isinstance(x, int) else '<%s>' % ' '.join(str(y) for y in x) for x in seq)


def r19i(ctx):
    """every loop-free packet encoder, evaluated as a template (sa/pkteval.py) for chosen sizes and for
    every public-key algorithm number, emits the field sequence the standard prescribes, and the packet
    length it announces is the size of what follows"""
    from ..pkteval import PacketEval, item_size
    prog = ctx.prog
    C = 'CallasDonnerhackeFinneyShawThayerRFC4880::'
    T0 = 0x01020304

    def key_material(algo, mp):
        if algo in RSA_ALGOS:
            return [mp('p'), mp('q')]
        if algo == ELGAMAL:
            return [mp('p'), mp('g'), mp('y')]
        if algo == DSA:
            return [mp('p'), mp('q'), mp('g'), mp('y')]
        return None

    def ecc_material(algo, a, sz, mp):
        if algo in (ECDSA, EDDSA):
            return [a['oidlen'] & 0xFF, ('blk', 'oid', a['oidlen']), mp('ecpk')]
        if algo == ECDH:
            return [a['oidlen'] & 0xFF, ('blk', 'oid', a['oidlen']), mp('ecpk'), 0x03, 0x01, a['kdf_hashalgo'], a['kdf_skalgo']]
        return None

    def key_packet(tag, ver, ecc):
        def want(a, sz, bits):
            def mp(n):
                return ('mpi', n, (bits[n] + 7) // 8)
            mat = (ecc_material(a['algo'], a, sz, mp) if ecc else key_material(a['algo'], mp))
            if mat is None:
                return []
            body = [ver] + _be(T0, 4) + [a['algo']]
            if ver == 5:
                body += _be(sum(item_size(x) for x in mat), 4)
            body += mat
            return [0xC0 | tag, ('len', sum(item_size(x) for x in body))] + body
        return want

    def sec_packet(tag):
        # RFC 4880 5.5.3 with string-to-key usage 0: public part, 0x00, the secret MPIs in the clear, two-octet checksum
        # (high octet first); the library emits secret keys for DSA and Elgamal only
        def want(a, sz, bits):
            def mp(n):
                return ('mpi', n, (bits[n] + 7) // 8)
            mat = key_material(a['algo'], mp) if a['algo'] in (ELGAMAL, DSA) else None
            if mat is None:
                return []
            from ..pkteval import CHECKSUM
            body = [4] + _be(T0, 4) + [a['algo']] + mat + [0, mp('x'), CHECKSUM >> 8, CHECKSUM & 0xFF]
            return [0xC0 | tag, ('len', sum(item_size(x) for x in body))] + body
        return want

    def simple(tag, fn):
        def want(a, sz, bits):
            def mp(n):
                return ('mpi', n, (bits[n] + 7) // 8)

            def blk(n):
                return ('blk', n, sz[n])
            body = fn(a, blk, mp)
            return [0xC0 | tag, ('len', sum(item_size(x) for x in body))] + body
        return want
    NOW = 0x5A5B5C5D
    TABLE = {
        ('PacketPkeskEncode', ('keyid', 'gk', 'myk', 'out')): simple(1, lambda a, blk, mp: [3, blk('keyid'), ELGAMAL, mp('gk'), mp('myk')]),
        ('PacketPkeskEncode', ('keyid', 'me', 'out')): simple(1, lambda a, blk, mp: [3, blk('keyid'), 1, mp('me')]),
        ('PacketPkeskEncode', ('keyid', 'ecepk', 'rkwlen', 'rkw', 'out')):
            simple(1, lambda a, blk, mp: [3, blk('keyid'), ECDH, mp('ecepk'), a['rkwlen'] & 0xFF, ('blk', 'rkw', a['rkwlen'])]),
        ('PacketSigEncode', ('in', 'left', 'r', 's', 'out')): simple(2, lambda a, blk, mp: [blk('in'), 0, 0, blk('left'), mp('r'), mp('s')]),
        ('PacketSigEncode', ('in', 'left', 's', 'out')): simple(2, lambda a, blk, mp: [blk('in'), 0, 0, blk('left'), mp('s')]),
        ('PacketPubEncode', ('keytime', 'algo', 'p', 'q', 'g', 'y', 'out')): key_packet(6, 4, False),
        ('PacketPubEncodeV5', ('keytime', 'algo', 'p', 'q', 'g', 'y', 'out')): key_packet(6, 5, False),
        ('PacketSubEncode', ('keytime', 'algo', 'p', 'q', 'g', 'y', 'out')): key_packet(14, 4, False),
        ('PacketSubEncodeV5', ('keytime', 'algo', 'p', 'q', 'g', 'y', 'out')): key_packet(14, 5, False),
        ('PacketPubEncode', ('keytime', 'algo', 'oidlen', 'oid', 'ecpk', 'kdf_hashalgo', 'kdf_skalgo', 'out')): key_packet(6, 4, True),
        ('PacketPubEncodeV5', ('keytime', 'algo', 'oidlen', 'oid', 'ecpk', 'kdf_hashalgo', 'kdf_skalgo', 'out')): key_packet(6, 5, True),
        ('PacketSubEncode', ('keytime', 'algo', 'oidlen', 'oid', 'ecpk', 'kdf_hashalgo', 'kdf_skalgo', 'out')): key_packet(14, 4, True),
        ('PacketSubEncodeV5', ('keytime', 'algo', 'oidlen', 'oid', 'ecpk', 'kdf_hashalgo', 'kdf_skalgo', 'out')): key_packet(14, 5, True),
        ('PacketSecEncode', ('keytime', 'algo', 'p', 'q', 'g', 'y', 'x', 'passphrase', 'out')): (sec_packet(5), {'passphrase': 0}),
        ('PacketSsbEncode', ('keytime', 'algo', 'p', 'q', 'g', 'y', 'x', 'passphrase', 'out')): (sec_packet(7), {'passphrase': 0}),
        ('PacketLitEncode', ('in', 'out')): simple(11, lambda a, blk, mp: [0x62, 0] + _be(NOW, 4) + [blk('in')]),
        ('PacketUidEncode', ('uid', 'out')): simple(13, lambda a, blk, mp: [blk('uid')]),
        ('PacketSedEncode', ('in', 'out')): simple(9, lambda a, blk, mp: [blk('in')]),
        ('PacketSeipdEncode', ('in', 'out')): simple(18, lambda a, blk, mp: [1, blk('in')]),
        ('PacketMdcEncode', ('in', 'out')): (lambda a, sz, bits: [0xC0 | 19, 20, ('blk', 'in', sz['in'])]),
        ('PacketAeadEncode', ('skalgo', 'aeadalgo', 'chunksize', 'iv', 'in', 'out')):
            simple(20, lambda a, blk, mp: [1, a['skalgo'], a['aeadalgo'], a['chunksize'], blk('iv'), blk('in')]),
    }
    n_ok = 0
    seen = set()
    for (name, pnames), want in sorted(TABLE.items(), key=lambda kv: kv[0]):
        fixed = {}
        if isinstance(want, tuple):
            want, fixed = want
        cands = [f for f in prog.fn(C + name) if tuple(p['n'] for p in f['params']) == pnames]
        key = 'R19i:%s(%s)' % (name, ','.join(pnames[:-1]))
        if not cands:
            # the overload may have been renamed: any overload with the same parameter *types* would have matched by
            # name above; a vanished encoder is an anchor problem, not a pass
            raise AnalysisBroken('packet encoder %s(%s) not found' % (name, ', '.join(pnames)))
        f = cands[0]
        seen.add(id(f))
        ptypes = {p['n']: p['t'] for p in f['params']}
        has_algo = 'algo' in pnames
        algos = list(range(0, 256)) if has_algo else [None]
        bad = None
        nev = 0
        for scen in (0, 1):
            for algo in algos:
                a, sz, bits = {}, {}, {}
                for i, pn in enumerate(pnames[:-1]):
                    t = ptypes[pn]
                    if 'gcry_mpi' in t:
                        bits[pn] = (1021 + 64 * i) if scen else (9 + 8 * i + (i % 7))
                    elif ('vector<unsigned char' in t and 'const' in t) or 'basic_string' in t:
                        sz[pn] = (3000 + 1111 * i) if scen else (8 + 3 * i)
                    elif t.endswith('*'):
                        pass
                    elif pn == 'keytime':
                        a[pn] = T0
                    elif pn == 'algo':
                        a[pn] = algo
                    elif pn in ('oidlen', 'rkwlen'):
                        a[pn] = 9 + i + 20 * scen
                    else:
                        a[pn] = 0x61 + i
                for pn in pnames:
                    if ptypes[pn].endswith('*') and 'gcry_mpi' not in ptypes[pn]:
                        sz[pn] = a[pnames[pnames.index(pn) - 1]]
                sz.update(fixed)
                try:
                    got = PacketEval(f, a, sz, bits, prog).run()
                except evalx.NotEvaluable as ex:
                    bad = ('note', 'not evaluable: %s' % ex)
                    break
                nev += 1
                exp = want(a, sz, bits)
                if got != exp:
                    li = [i for i, x in enumerate(got or []) if isinstance(x, tuple) and x[0] == 'len']
                    incons = ''
                    if li:
                        rest = sum(item_size(x) for x in got[li[0] + 1:])
                        if got[li[0]][1] != rest:
                            incons = '; the announced packet length %d differs from the %d octets that follow' % (got[li[0]][1], rest)
                    bad = ('bad', 'for %s the encoder emits  %s  but the standard prescribes  %s%s' % (
                        ('public-key algorithm %d' % algo) if has_algo else 'block sizes %s' % sorted(sz.items()), _show_seq(got or []), _show_seq(exp), incons))
                    break
            if bad:
                break
        if bad is None:
            n_ok += 1
            ctx.ok('R19i', key, 'emitted layout matches the standard (%d evaluations%s%s)' % (nev, ', all 256 algorithm numbers' if has_algo else '',
                                                                                              ''.join(', %s of size %d only' % kv for kv in sorted(fixed.items()))), f)
        elif bad[0] == 'note':
            ctx.note('R19i', key, bad[1], f)
        else:
            ctx.bad('R19i', key, bad[1], f)
    # encoders outside the table: listed, not decided
    rest = sorted({f['q'].split('::')[-1] for f in prog.funcs.values() if f['q'].startswith(C + 'Packet') and 'Encode' in f['q'] and f.get('body') and
                   id(f) not in seen and 'Experimental' in f['q']})
    if rest:
        ctx.note('R19i', 'R19i:not-decided', 'layout of %s is not evaluated (S2K, encryption and checksum inside the encoder)' % ', '.join(rest), None)
    ctx.floor('R19i', n_ok, 21)


def r19j(ctx):
    """hashed area of the signatures the library prepares (RFC 4880 5.2.3; v5 per the draft): version, type, public-key
    and hash algorithm octets, two-octet count equal to the size of the sub-packets that follow, every sub-packet a
    length (of type octet + data), a type and data; creation time present as 4 big-endian octets; issuer = the 8-octet
    key id (the low-order 64 bits of a v4 fingerprint); issuer fingerprint = key version octet + fingerprint"""
    from ..pkteval import PacketEval, item_size
    prog = ctx.prog
    C = 'CallasDonnerhackeFinneyShawThayerRFC4880::'
    fs = sorted([f for f in prog.funcs.values() if f['q'].startswith(C + 'PacketSigPrepare') and f.get('body')], key=lambda f: (f['q'], len(f['params'])))
    n_ok = 0
    import itertools
    for f in fs:
        name = f['q'].split('::')[-1]
        pn = [p['n'] for p in f['params']]
        pt = {p['n']: p['t'] for p in f['params']}
        key = 'R19j:%s(%s)' % (name, ','.join(pn[:-1]))
        v5 = name.endswith('V5')
        opt_times = [n for n in pn if pt[n] == 'const long' and n != 'sigtime']
        bools = [n for n in pn if pt[n] == 'const bool']
        strs = [n for n in pn if 'basic_string' in pt[n]]
        fpr = 'issuerfpr' if 'issuerfpr' in pn else ('issuer' if 'issuer' in pn else None)
        fsizes = ((20, 32) if fpr == 'issuerfpr' else (20, 32, 8)) if fpr else (None,)
        bad = None
        nev = 0
        for combo in itertools.product(fsizes, (0, 1), *[(0, 1)] * (len(opt_times) + len(bools) + len(strs))):
            a, sz = {}, {}
            big = combo[1]
            bits_ = list(combo[2:])
            for i, n in enumerate(pn[:-1]):
                t = pt[n]
                if 'pair' in t:
                    sz[n] = 0
                elif 'vector<unsigned char' in t:
                    sz[n] = 20 if n == 'revoker' else (300 if big else 5) + i     # the revoker is a v4 fingerprint by the function's own assertion
                elif n == 'sigtime':
                    a[n] = 0x01020304
                elif n in opt_times:
                    a[n] = (0x11223300 + i) * bits_[opt_times.index(n)]
                elif n in bools:
                    a[n] = bits_[len(opt_times) + bools.index(n)]
                elif n in strs:
                    sz[n] = (200 + i) * bits_[len(opt_times) + len(bools) + strs.index(n)]
                elif '&' not in t:
                    a[n] = 0x70 + i
            if fpr:
                sz[fpr] = combo[0]
            try:
                got = PacketEval(f, a, sz, {}, prog).run()
            except evalx.NotEvaluable as ex:
                bad = ('note', 'not evaluable: %s' % ex)
                break
            nev += 1
            why = None
            if not got or len(got) < 6 or not all(isinstance(x, int) for x in got[:6]):
                why = 'no fixed six-octet head'
            else:
                if got[0] != (5 if v5 else 4):
                    why = 'version octet %d' % got[0]
                elif 'type' in a and got[1] != a['type']:
                    why = 'signature type octet is not the requested type'
                elif 'pkalgo' in a and got[2] != a['pkalgo']:
                    why = 'public-key algorithm octet is not the requested algorithm'
                elif 'hashalgo' in a and got[3] != a['hashalgo']:
                    why = 'hash algorithm octet is not the requested algorithm'
                rest = [x for x in got[6:] if item_size(x) > 0]      # an empty block contributes no octet
                total = sum(item_size(x) for x in rest)
                if why is None and got[4] * 256 + got[5] != total:
                    why = 'hashed sub-packet count %d but %d octets of sub-packets follow' % (got[4] * 256 + got[5], total)
                subs = []
                i = 0
                while why is None and i < len(rest):
                    x = rest[i]
                    if not (isinstance(x, tuple) and x[0] == 'len'):
                        why = 'sub-packet area does not parse: item %s where a length is expected' % (x,)
                        break
                    j = i + 1
                    acc = 0
                    data = []
                    while j < len(rest) and acc < x[1]:
                        acc += item_size(rest[j])
                        data.append(rest[j])
                        j += 1
                    if acc != x[1] or not data or not isinstance(data[0], int):
                        why = 'sub-packet length %d does not cover type octet and data (%d octets follow)' % (x[1], acc)
                        break
                    subs.append((data[0] & 0x7F, data[1:]))
                    i = j
                if why is None:
                    d = dict((t_, dat) for t_, dat in subs)
                    if d.get(2) != _be(a['sigtime'], 4):
                        why = 'signature creation time sub-packet (type 2) is missing or is not the 4 big-endian octets of the signing time'
                    for t_, nm in ((3, 'sigexptime'), (9, 'keyexptime')):
                        if why is None and t_ in d and (nm not in a or d[t_] != _be(a[nm], 4)):
                            why = 'sub-packet %d is not the 4 big-endian octets of %s' % (t_, nm)
                        if why is None and nm in a and a[nm] != 0 and t_ not in d:
                            why = 'requested %s is not emitted (sub-packet %d missing)' % (nm, t_)
                    if why is None and 16 in d:
                        want = [('blk', fpr, 8)] if sz.get(fpr) == 8 else [('slice', fpr, 12, 20)] if sz.get(fpr) == 20 and not v5 else None
                        if want is None or d[16] != want:
                            why = 'issuer sub-packet (type 16) is %s, not the 8-octet key id (low-order 64 bits of the v4 fingerprint)' % _show_seq(d[16])
                    if why is None and 33 in d:
                        n_ = sz.get(fpr)
                        ver = 4 if n_ == 20 else 5 if n_ == 32 else None
                        if ver is not None and d[33] != [ver, ('blk', fpr, n_)]:
                            why = 'issuer fingerprint sub-packet (type 33) is %s, not key version %d followed by the %d-octet fingerprint' % (_show_seq(d[33]), ver, n_)
                    if why is None and fpr and not v5 and sz.get(fpr) in (8, 20) and 16 not in d:
                        why = 'no issuer sub-packet (type 16) although the key id is known'
            if why:
                bad = ('bad', '%s (arguments %s, sizes %s): emitted  %s' % (why, sorted(a.items()), sorted(sz.items()), _show_seq(got or [])))
                break
        if bad is None:
            n_ok += 1
            ctx.ok('R19j', key, 'hashed area is well-formed in all %d argument scenarios' % nev, f)
        elif bad[0] == 'note':
            ctx.note('R19j', key, bad[1], f)
        else:
            ctx.bad('R19j', key, bad[1], f)
    ctx.floor('R19j', n_ok, 10)


def carried_cells(a, arg, st):
    """cells of the local array handed over in `arg` whose value at this point still depends on what the array held at the head
    of an enclosing or preceding loop iteration (a loop-head phi of one of its own cells in the transitive phi sources)"""
    T = a.T
    heads = set(a.loop_nodes.keys())
    out = []
    base = None
    for x in T.subterms(arg):
        n = T.node(x)
        if n[0] == 'phi' and isinstance(n[2], tuple) and n[2] and n[2][0] == 'e' and isinstance(n[2][1], tuple) and n[2][1][0] == 'v':
            base = n[2][1]
            break
    if base is None:
        return out, None
    for loc, val in st.env.items():
        if not (isinstance(loc, tuple) and loc[0] == 'e' and loc[1] == base and isinstance(loc[2], int)):
            continue            # individually addressed cells only (a summary cell is weakly updated by any fill loop)
        hit = any(T.node(x)[0] == 'phi' and T.node(x)[1] in heads and isinstance(T.node(x)[2], tuple) and T.node(x)[2] == loc
                  for x in T.subterms(val))
        if hit:
            out.append(loc[2])
    return sorted(out, key=str), base[2]


def r19k(ctx):
    """AEAD chunk nonces (draft RFC 4880bis 5.16: "treating the starting initialization vector as a big-endian value and
    exclusive-oring the low eight octets of it with the chunk index"): at every gcry_cipher_setiv of the chunked AEAD routines
    the nonce buffer must be the *starting* IV with the index mixed in -- none of its cells may still carry what an earlier
    iteration of the chunk loop left there.  A running `ivbuf[k] ^= index` gives chunk c the nonce IV xor (0^1^...^c): other
    octets than the standard's from the third chunk on, and the nonce of chunk 0 again for chunk 3 (same key)."""
    prog = ctx.prog
    C = 'CallasDonnerhackeFinneyShawThayerRFC4880::'
    n = 0
    for name in ('SymmetricEncryptAEAD', 'SymmetricDecryptAEAD'):
        f = prog.fn(C + name, 0)
        a = ctx.analysis(f)
        T = a.T
        k = 0
        for nid, ev in sorted(a.all_events('call'), key=lambda x: (x[1][3] if len(x[1]) > 3 and isinstance(x[1][3], int) else 0, x[0])):
            if ev[1] != 'gcry_cipher_setiv' or len(ev[2]) < 2:
                continue
            cells, bname = carried_cells(a, ev[2][1], a.instate[nid])
            if bname is None:
                continue            # the IV is handed over as it came (single-shot mode)
            k += 1
            n += 1
            key = 'R19k:%s:setiv#%d' % (name, k)
            line = ev[3] if len(ev) > 3 and isinstance(ev[3], int) else None
            if cells:
                ctx.bad('R19k', key, 'the nonce of a chunk is computed from the nonce of the previous chunk: cells %s of `%s` are loop-carried at this '
                        'gcry_cipher_setiv, so chunk c is processed under IV xor (0^1^..^c) instead of IV xor c (wrong octets from the third chunk on, '
                        'and the nonce of chunk 0 is used again for chunk 3)' % (cells[:8], bname), f, line=line)
            else:
                ctx.ok('R19k', key, 'the nonce is the starting IV with the chunk index mixed in (no cell of the nonce buffer is loop-carried)', f, line=line)
    ctx.floor('R19k', n, 6)
