"""C20 OpenPGP signatures and encryption are tamper-evident (structural part).

R20a validity predicate: TMCG_OpenPGP_Signature::CheckValidity evaluated piecewise over the hash
     enum and time scenarios against the statement (expired / older than key / > 25 h in the
     future / weak hash are refused, the five strong hashes with sane times accepted); the
     Verify* methods accept only through CheckIntegrity,
R20b CheckIntegrity returns the verdict of the algorithm's verifier and rejects unknown algorithms,
R20c Message::Decrypt returns true only through AEAD success or a valid MDC on an integrity
     protected packet; CheckMDC compares the recomputed hash; AEAD output is appended only after
     the chunk tag was checked,
R20e each AsymmetricVerify<ALGO> returns the success code (0) only together with libgcrypt's
     verdict: every exit returns gcry_pk_verify's result, a value known to be non-zero on that
     path, or 0 under the fact that gcry_pk_verify returned 0,
R20g no octet of a signed text document is dropped: in the canonicalising loop of TextDocumentHash*
     every iteration appends the current document octet to the hash input (a <CR> may be inserted,
     nothing may be skipped),
R20f framing of the signed hash input (RFC 4880 5.2.4; v5 per the draft the library follows): key
     material is prefixed 0x99 | 2-octet length (v5: 0x9A | 4-octet length), user ids 0xB4 | 4-octet
     length, user attributes 0xD1 | 4-octet length, and the hashed signature data is followed by
     version | 0xFF | its 4-octet (v5: 8-octet) length -- evaluated as a template from the builders
     (signer and verifier share these routines, so no test can see a deviation from the standard)."""
from .. import evalx
from ..pieceeval import PieceEval
from ..facts import AnalysisBroken

WEAK = ('MD5', 'SHA1', 'RIPEMD160', 'RMD160')
STRONG = ('SHA256', 'SHA384', 'SHA512', 'SHA3_256', 'SHA3_512')


def run(ctx):
    prog = ctx.prog
    r20a(ctx)
    r20b(ctx)
    r20c(ctx)
    r20d(ctx)
    r20e(ctx)
    r20f(ctx)
    r20g(ctx)
    r20h(ctx)


def hash_enum(prog):
    for q, e in prog.enums.items():
        if 'hashalgo' in q:
            return {n: v for n, v in e['c']}
    raise AnalysisBroken('hash algorithm enum not found')


def r20a(ctx):
    prog = ctx.prog
    f = prog.fn('TMCG_OpenPGP_Signature::CheckValidity', 0)
    he = hash_enum(prog)
    pn = [p['n'] for p in f['params']]
    now = 1700000000
    day = 86400
    H25 = 25 * 3600
    scen = [
        # (creation, expiration, keycreation, expected accept, what)
        (now - 10 * day, 0, now - 20 * day, True, 'no expiry, newer than key'),
        (now - 10 * day, 20 * day, now - 20 * day, True, 'expires in the future'),
        (now - 10 * day, 5 * day, now - 20 * day, False, 'expired five days ago'),
        (now - 10 * day, 10 * day - 1, now - 20 * day, False, 'expired one second ago'),
        (now - 30 * day, 0, now - 20 * day, False, 'older than its key'),
        (now - 20 * day, 0, now - 20 * day, True, 'as old as its key'),
        (now + H25 + 1, 0, now - 20 * day, False, 'dated 25 h + 1 s in the future'),
        (now + 30 * day, 0, now - 20 * day, False, 'dated 30 days in the future'),
        (now + H25, 0, now - 20 * day, True, 'dated exactly 25 h in the future'),
        (now + 3600, 0, now - 20 * day, True, 'dated one hour in the future (clock skew)'),
    ]
    n = 0
    bad = None
    try:
        for hname, hv in sorted(he.items(), key=lambda kv: kv[1]):
            short = hname.replace('TMCG_OPENPGP_HASHALGO_', '')
            for (cr, ex, kc, acc, what) in scen:
                pe = PieceEval(f, {pn[0]: kc, pn[1]: 0}, members={'creationtime': cr, 'expirationtime': ex, 'hashalgo': hv, 'expired': 0},
                               stubs={'time': now})
                got = bool(pe.run())
                n += 1
                if short in STRONG:
                    want = acc
                elif short in WEAK:
                    want = False
                else:
                    want = got if not acc else None     # other algorithms: only refusal of bad times is prescribed
                    if acc:
                        continue
                    want = False
                if got != want and bad is None:
                    bad = 'signature with hash %s, %s: CheckValidity returns %s, the property requires %s' % (short, what, got, want)
    except evalx.NotEvaluable as ex:
        raise AnalysisBroken('CheckValidity is no longer a loop-free definition: %s' % ex)
    (ctx.ok if not bad else ctx.bad)('R20a', 'R20a:CheckValidity', 'validity predicate agrees with the statement on %d (hash, time) cases: weak hashes, expiry, key age and far-future dating are refused' % n if not bad else bad, f)
    ctx.floor('R20a', n, 60)
    # the Verify* methods accept only through CheckIntegrity
    nv = 0
    for q, fl in prog.by_q.items():
        if not (q.startswith('TMCG_OpenPGP_Signature::Verify')):
            continue
        for g in fl:
            if g['ret'] != 'bool':
                continue
            a = ctx.analysis(g)
            T = a.T
            okv = True
            nex = 0
            for n_, kind, val, st in a.exits():
                if kind != 'return' or val is None:
                    continue
                vn = T.node(val)
                if vn[0] == 'bool' and not vn[1]:
                    continue
                nex += 1
                via = (vn[0] in ('mc', 'callr') and vn[1].endswith('CheckIntegrity')) or any(
                    T.node(fa)[0] == 'truthy' and T.node(T.node(fa)[1])[0] in ('mc', 'callr') and T.node(T.node(fa)[1])[1].endswith('CheckIntegrity') for fa in st.facts) or \
                    T.contains(val, lambda z: z[0] in ('mc', 'callr') and z[1].endswith('CheckIntegrity'))
                if not via:
                    okv = False
            nv += 1
            key = 'R20a:%s:%s' % (q, (g['params'][0]['t'] if g['params'] else '')[:30])
            if nex and okv:
                ctx.ok('R20a', key, 'accepts only with the verdict of CheckIntegrity', g)
            else:
                ctx.bad('R20a', key, 'a signature verification method can return true without the verdict of CheckIntegrity', g)
    ctx.floor('R20a-verify', nv, 6)


def r20b(ctx):
    prog = ctx.prog
    f = prog.fn('TMCG_OpenPGP_Signature::CheckIntegrity', 0)
    a = ctx.analysis(f)
    T = a.T
    ok_all = True
    algos = set()
    nex = 0
    for n_, kind, val, st in a.exits():
        if kind != 'return' or val is None or T.node(val) != ('bool', True):
            continue
        nex += 1
        got = False
        for fa in st.facts:
            fn_ = T.node(fa)
            x = None
            if fn_[0] == 'falsy':
                x = fn_[1]
            elif fn_[0] == 'rel' and fn_[1] == '==' and (T.is_int(fn_[2], 0) or T.is_int(fn_[3], 0)):
                x = fn_[3] if T.is_int(fn_[2], 0) else fn_[2]
            if x is None:
                continue
            srcs = [x]
            xn = T.node(x)
            if xn[0] == 'phi':
                srcs = list(T.phi_src.get((xn[1], xn[2]), ()))
            names = [T.node(s)[1] for s in srcs if T.node(s)[0] == 'callr']
            if names and all('AsymmetricVerify' in nm for nm in names) and len(names) == len(srcs):
                got = True
                algos |= set(nm.split('AsymmetricVerify')[-1] for nm in names)
        if not got:
            ok_all = False
    if nex and ok_all:
        ctx.ok('R20b', 'R20b:CheckIntegrity:verdict', 'true is returned only when the algorithm-specific verifier reported success (dispatch: %s)' % ', '.join(sorted(algos)), f)
    else:
        ctx.bad('R20b', 'R20b:CheckIntegrity:verdict', 'CheckIntegrity can return true without a successful public-key verification (unknown algorithm accepted or verdict dropped)', f)
    need = {'RSA', 'DSA', 'ECDSA', 'EdDSA'}
    okd = need <= algos
    (ctx.ok if okd else ctx.bad)('R20b', 'R20b:CheckIntegrity:dispatch', 'all supported signature algorithms are dispatched to their verifier' if okd else
                                 'no verifier is dispatched for %s (signatures of that algorithm are treated wrongly)' % sorted(need - algos), f, nec=False)


def r20c(ctx):
    prog = ctx.prog
    f = prog.fn('TMCG_OpenPGP_Message::Decrypt', 0)
    a = ctx.analysis(f)
    T = a.T
    nex = 0
    ok_all = True
    why = ''
    for n_, kind, val, st in a.exits():
        if kind != 'return' or val is None or T.node(val) != ('bool', True):
            continue
        nex += 1
        mdc = seipd = aead = False
        for fa in st.facts:
            fn_ = T.node(fa)
            cond = None
            F = fa
            if fn_[0] == 'if':
                cond, F = T.node(fn_[1]), fn_[2]
            Fn = T.node(F)
            s = T.show(F, 5)
            if Fn[0] == 'truthy' and 'CheckMDC' in s:
                mdc = True
            if Fn[0] == 'truthy' and T.node(Fn[1]) == ('this', 'have_seipd'):
                seipd = True
            if (Fn[0] == 'falsy' or (Fn[0] == 'rel' and Fn[1] == '==')) and 'SymmetricDecryptAEAD' in s:
                aead = True
        if not ((mdc and seipd) and aead):
            ok_all = False
            why = 'MDC verdict required: %s, integrity-protected packet required: %s, AEAD verdict required: %s' % (mdc, seipd, aead)
    if nex and ok_all:
        ctx.ok('R20c', 'R20c:Decrypt:gate', 'Decrypt returns true only with a successful AEAD decryption or a valid MDC on an integrity-protected packet', f)
    else:
        ctx.bad('R20c', 'R20c:Decrypt:gate', 'Decrypt can return true for ciphertext whose integrity was not verified (%s)' % why, f)
    g = prog.fn('TMCG_OpenPGP_Message::CheckMDC', 0)
    b = ctx.analysis(g)
    Tb = b.T
    okm = True
    nex = 0
    for n_, kind, val, st in b.exits():
        if kind != 'return' or val is None or Tb.node(val) != ('bool', True):
            continue
        nex += 1
        cmp_ = any(Tb.node(fa)[0] == 'truthy' and 'OctetsCompare' in Tb.show(fa, 4) and 'HashCompute' in Tb.show(fa, 6) for fa in st.facts) or \
            any(Tb.node(fa)[0] == 'rel' and Tb.node(fa)[1] == '==' and 'HashCompute' in Tb.show(fa, 6) for fa in st.facts)
        if not cmp_:
            okm = False
    (ctx.ok if nex and okm else ctx.bad)('R20c', 'R20c:CheckMDC:compare', 'CheckMDC accepts only when the recomputed hash equals the transmitted MDC' if nex and okm else
                                         'CheckMDC accepts without comparing the recomputed hash with the transmitted one', g)
    h = prog.fn('CallasDonnerhackeFinneyShawThayerRFC4880::SymmetricDecryptAEAD', 0)
    c = ctx.analysis(h)
    Tc = c.T
    outp = [p for p in h['params'] if p['n'] == 'out']
    pushes = [(nid, ev) for nid, ev in c.all_events('mcall') if ev[1].endswith('::push_back') and outp and ev[6] == ('v', outp[0]['id'], 'out')]
    okp = bool(pushes)
    for nid, ev in pushes:
        st = c.instate[nid]
        tagok = any((Tc.node(fa)[0] == 'falsy' or (Tc.node(fa)[0] == 'rel' and Tc.node(fa)[1] == '==')) and 'gcry_cipher_checktag' in Tc.show(fa, 4) for fa in st.facts)
        if not tagok:
            okp = False
    (ctx.ok if okp else ctx.bad)('R20c', 'R20c:AEAD:tag-before-output', 'AEAD plaintext is appended to the output only after the chunk tag was verified (%d sites)' % len(pushes) if okp else
                                 'AEAD plaintext is released before its authentication tag was checked', h)


EXPLANATION = ("Static decision of the gates that make OpenPGP objects tamper-evident: the signature validity predicate is evaluated "
               "piecewise over the whole hash enum and ten time scenarios against the statement; every Signature::Verify* accepts only with "
               "CheckIntegrity's verdict; CheckIntegrity returns true only on success of the dispatched verifier, and each of the four "
               "AsymmetricVerify* functions returns the success code only with gcry_pk_verify's verdict; Message::Decrypt returns "
               "true only through AEAD success or CheckMDC on an integrity-protected packet; CheckMDC compares the recomputed hash; AEAD "
               "plaintext is released only after its tag check. That altered data fails the cryptographic checks and agreement with GnuPG "
               "are not decided.")
ASSUMPTIONS = ["libgcrypt verify/checktag primitives are correct", "time() is stubbed by a fixed instant in the piecewise evaluation"]


def r20d(ctx):
    """sibling agreement of the signature-object construction sites: where one parse function
    builds a TMCG_OpenPGP_Signature in its RSA branch and in its DSA/ECDSA/EdDSA branch (two
    constructor overloads), every like-named constructor parameter receives the same value"""
    prog = ctx.prog
    n = 0
    for key, f in prog.funcs.items():
        if 'RFC4880' not in f['file'] or not f.get('body'):
            continue
        from ..facts import walk
        if not any(e.get('k') == 'ctor' and e.get('f') == 'TMCG_OpenPGP_Signature' for e in walk(f['body'])):
            continue
        a = ctx.analysis(f)
        T = a.T
        sites = sorted([ev for nid, ev in a.all_events('ctor') if ev[1] == 'TMCG_OpenPGP_Signature' and ev[4] in prog.funcs], key=lambda ev: ev[3])
        for s1, s2 in zip(sites, sites[1:]):
            if s1[4] == s2[4]:
                continue
            p1 = [p['n'] for p in prog.funcs[s1[4]]['params']]
            p2 = [p['n'] for p in prog.funcs[s2[4]]['params']]
            m1 = dict(zip(p1, s1[2]))
            m2 = dict(zip(p2, s2[2]))
            diffs = [(nm, T.show(m1[nm], 3), T.show(m2[nm], 3)) for nm in p1 if nm in m2 and m1[nm] != m2[nm]]
            n += 1
            k = 'R20d:%s@%d' % (f['q'], n)
            k = 'R20d:%s:%d' % (f['q'], sites.index(s1))
            if diffs:
                nm, v1, v2 = diffs[0]
                ctx.bad('R20d', k, 'the RSA and the DSA/ECDSA/EdDSA branch build the signature object differently: parameter %s gets %s (line %d) but %s (line %d)' % (
                    nm, v1, s1[3], v2, s2[3]), f, line=s1[3])
            else:
                ctx.ok('R20d', k, 'both algorithm branches pass the same values for all %d common constructor parameters' % len([x for x in p1 if x in m2]), f, line=s1[3])
    ctx.floor('R20d', n, 4)


def r20e(ctx):
    prog = ctx.prog
    n = 0
    for algo in ('RSA', 'DSA', 'ECDSA', 'EdDSA'):
        f = prog.fn('CallasDonnerhackeFinneyShawThayerRFC4880::AsymmetricVerify' + algo, 0)
        a = ctx.analysis(f)
        T = a.T
        bad = None
        nex = 0
        for n_, kind, val, st in a.exits():
            if kind != 'return' or val is None:
                continue
            nex += 1
            vn = T.node(val)
            verified = any(T.node(fa)[0] == 'falsy' and T.node(T.node(fa)[1])[0] == 'callr' and T.node(T.node(fa)[1])[1] == 'gcry_pk_verify'
                           for fa in st.facts)
            if vn[0] == 'callr' and vn[1] == 'gcry_pk_verify':
                continue                      # the verdict itself
            if vn[0] == 'int' and vn[1] != 0:
                continue
            if vn[0] == 'callr' and vn[1] in ('gcry_error', 'gpg_error') and len(vn) > 2 and T.is_int(vn[2]) and T.node(vn[2])[1] != 0:
                continue                      # an explicit error code
            if a.truth(val, True) in st.facts:
                continue                      # returned under `if (ret)`: non-zero
            if verified:
                continue                      # success after gcry_pk_verify returned 0
            bad = (T.show(val, 3), n_)
            break
        n += 1
        key = 'R20e:AsymmetricVerify' + algo
        if bad is None and nex >= 3:
            ctx.ok('R20e', key, 'all %d exits return libgcrypt\'s verdict, a non-zero error, or 0 after gcry_pk_verify succeeded' % nex, f)
        else:
            ctx.bad('R20e', key, 'an exit returns %s, which can be the success code, on a path where gcry_pk_verify did not report success: '
                    'a malformed signature is reported as valid' % (bad[0] if bad else 'nothing'), f)
    ctx.floor('R20e', n, 4)


def r20f(ctx):
    from .. import seqeval
    prog = ctx.prog
    C = 'CallasDonnerhackeFinneyShawThayerRFC4880::'

    def be(n, k):
        return [(n >> (8 * (k - 1 - j))) & 0xFF for j in range(k)]
    n_ok = 0
    for name in ('BinaryDocumentHashV3', 'BinaryDocumentHash', 'BinaryDocumentHashV5', 'StandaloneHashV3', 'StandaloneHash', 'StandaloneHashV5',
                 'CertificationHashV3', 'CertificationHash', 'CertificationHashV5', 'KeyHashV3', 'KeyHash', 'KeyHashV5'):
        ver = 3 if name.endswith('V3') else (5 if name.endswith('V5') else 4)
        for idx, f in enumerate(prog.fn(C + name)):
            pn = [p['n'] for p in f['params']]
            vecp = [p['n'] for p in f['params'] if 'vector<unsigned char' in p['t'] and 'const' in p['t']]
            strp = [p['n'] for p in f['params'] if 'basic_string' in p['t'] and 'const' in p['t']]
            key = 'R20f:%s:%s' % (name, pn[0])
            bad = None
            evaluated = 0
            for scen in (0, 1):
                sizes = {}
                base = 0x1234
                for i, v in enumerate(vecp):
                    sizes[v] = base + 0x1111 * i
                for i, v in enumerate(strp):
                    sizes[v] = 0x01020304 + i
                if name.startswith('Certification') and ver != 3 and len(vecp) >= 3:
                    sizes[vecp[1]] = 0 if scen == 0 else 0x0A0B0C0D       # uat empty / present
                elif scen == 1:
                    break
                # the hashed signature data is the last constant vector parameter
                trailer = vecp[-1]
                sizes[trailer] = 0x0A0B0C0D if ver != 3 else 5

                def K(x):
                    return ([0x99] + be(sizes[x], 2) if ver != 5 else [0x9A] + be(sizes[x], 4)) + [('blk', x)]
                S = [('blk', trailer)] + ([] if ver == 3 else ([ver, 0xFF] + be(sizes[trailer], 4 if ver == 4 else 8)))
                if name.startswith('BinaryDocument'):
                    want = ([('blk', vecp[0])] if len(vecp) == 2 else []) + S
                elif name.startswith('Standalone'):
                    want = S
                elif name.startswith('KeyHash'):
                    want = [x for v in vecp[:-1] for x in K(v)] + S
                elif name == 'CertificationHashV3':
                    want = K(vecp[0]) + [('blk', strp[0])] + S
                else:
                    uid, uat = strp[0], vecp[1]
                    want = K(vecp[0]) + ([0xB4] + be(sizes[uid], 4) + [('blk', uid)] if sizes[uat] == 0 else [0xD1] + be(sizes[uat], 4) + [('blk', uat)]) + S
                try:
                    got = seqeval.SeqEval(prog, f, sizes).run()
                except evalx.NotEvaluable as ex:
                    got = None
                    bad = ('note', 'not evaluable: %s' % ex)
                    break
                if got is None:
                    bad = ('note', 'no hash call over a locally built sequence found')
                    break
                evaluated += 1
                if got != want:
                    def sh(seq):
                        return ' '.join('%02X' % x if isinstance(x, int) else '<%s>' % x[1] for x in seq)
                    bad = ('bad', 'hash input is  %s  but the standard prescribes  %s' % (sh(got), sh(want)))
                    break
            if bad is None:
                n_ok += 1
                ctx.ok('R20f', key, 'hash input framing matches the standard (version %d)' % ver, f)
            elif bad[0] == 'note':
                ctx.note('R20f', key, bad[1], f)
            else:
                ctx.bad('R20f', key, bad[1], f)
    ctx.floor('R20f', n_ok, 16)


def r20g(ctx):
    """text signatures hash the document with line endings normalised to <CR><LF> (RFC 4880 5.2.1):
    octets may be *inserted*, but an iteration of the canonicalising loop that appends nothing of the
    current octet removes document content from what is signed"""
    prog = ctx.prog
    C = 'CallasDonnerhackeFinneyShawThayerRFC4880::'
    n = 0
    for name in ('TextDocumentHashV3', 'TextDocumentHash', 'TextDocumentHashV5'):
        for f in prog.fn(C + name):
            dp = [p for p in f['params'] if 'vector<unsigned char' in p['t'] and 'const' in p['t']]
            if len(dp) < 2:
                continue            # the file-based variant streams the document elsewhere
            data = dp[0]
            a = ctx.analysis(f)
            T = a.T
            key = 'R20g:%s' % name
            dloc = ('v', data['id'], data['n'])
            heads = []
            for h, lb in a.loop_bound.items():
                if lb and lb[1] == '<' and lb[3] == 1 and T.is_int(lb[2], 0):
                    bn = T.node(lb[0])
                    if bn[0] == 'mc' and bn[1].split('::')[-1] == 'size' and a.read(dloc, a.instate[h]) is not None and T.node(bn[2]) == T.node(a.read(dloc, a.instate[h])):
                        heads.append(h)
            if not heads:
                # the whole document may be appended as a block instead
                whole = any(ev[1].split('::')[-1] == 'insert' and any(T.contains(x, lambda nn: nn == ('param', data['n'])) for x in ev[3]) for nid, ev in a.all_events('mcall'))
                n += 1
                if whole:
                    ctx.ok('R20g', key, 'the document is appended to the hash input as a whole', f)
                else:
                    ctx.note('R20g', key, 'no loop over the document found; not evaluated', f)
                continue
            h = heads[0]
            body = a.loop_nodes[h]
            iv = T.mk('iv', h)
            appends = set()
            for nid, ev in a.all_events('mcall'):
                if nid in body and ev[1].split('::')[-1] == 'push_back' and ev[3]:
                    v = ev[3][0]
                    vn = T.node(v)
                    if vn[0] == 'ix' and vn[2] == iv and T.contains(vn[1], lambda nn: nn == ('param', data['n'])):
                        appends.add(nid)
            byid = {x.id: x for x in a.cfg.rpo}
            hn = byid[h]
            # is there a way round the loop that appends nothing of the current octet?
            start = [s_ for s_ in hn.succ]
            seen = set()
            st = []
            for s_ in start:
                st.append(s_)
            skipping = False
            while st:
                x = st.pop()
                if x.id in seen or x.id in appends:
                    continue
                if x.id == h:
                    skipping = True
                    break
                seen.add(x.id)
                if x.id not in body:
                    continue
                st.extend(x.succ)
            n += 1
            if appends and not skipping:
                ctx.ok('R20g', key, 'every iteration of the canonicalising loop appends the current document octet', f)
            else:
                ctx.bad('R20g', key, 'an iteration of the canonicalising loop can finish without appending the current document octet: '
                        'that octet is not covered by the signature (it can be inserted or removed without invalidating it)', f)
    ctx.floor('R20g', n, 3)


def r20h(ctx):
    """associated data of the AEAD chunks: what is handed to gcry_cipher_authenticate binds the chunk to its position
    (packet header octets, chunk index; for the final tag also the total length).  In every function that authenticates a
    buffer, the cells of that buffer are *assigned* -- a compound assignment (^=, |=, +=) to a cell makes the field a running
    combination of all indices so far: chunks 0 and 3 (0^1^2^3 = 0) then carry the same associated data and can be exchanged
    without any tag failing."""
    from ..facts import walk
    prog = ctx.prog
    n = 0
    for k, f in sorted(prog.funcs.items(), key=lambda kv: (kv[1]['file'], kv[1]['line'])):
        if not f.get('body') or 'RFC4880' not in f['file']:
            continue
        bufs = {}
        for e in walk(f['body']):
            if e.get('k') == 'call' and e.get('f') == 'gcry_cipher_authenticate' and len(e.get('a', [])) >= 2:
                b = e['a'][1]
                while isinstance(b, dict) and b.get('k') == 'cast':
                    b = b['e']
                if isinstance(b, dict) and b.get('k') == 'var':
                    bufs[b['id']] = b.get('n')
        if not bufs:
            continue
        bad = []
        nw = 0
        for e in walk(f['body']):
            if e.get('k') == 'bin' and e.get('op', '').endswith('=') and e['op'] not in ('==', '!=', '<=', '>='):
                t = e['a'][0]
                while isinstance(t, dict) and t.get('k') == 'cast':
                    t = t['e']
                if isinstance(t, dict) and (t.get('k') == 'idx' or (t.get('k') == 'opcall' and t.get('op') == '[]')):
                    b = t['a'][0]
                    while isinstance(b, dict) and b.get('k') == 'cast':
                        b = b['e']
                    if isinstance(b, dict) and b.get('k') == 'var' and b.get('id') in bufs:
                        nw += 1
                        if e['op'] != '=':
                            bad.append((e.get('l'), bufs[b['id']], e['op']))
        n += 1
        key = 'R20h:%s' % f['q']
        if bad:
            ctx.bad('R20h', key, 'a cell of the authenticated buffer `%s` is updated with `%s` (line %s) instead of being assigned: the chunk index field of the associated '
                    'data becomes a running combination of all indices, and chunks whose combinations coincide can be exchanged undetected' % (bad[0][1], bad[0][2], bad[0][0]), f, line=bad[0][0])
        else:
            ctx.ok('R20h', key, 'all %d writes to cells of the authenticated buffer are plain assignments' % nw, f)
    ctx.floor('R20h', n, 2)
