"""C11 Export and import round-trip every object unchanged (format agreement).

R11a writer/reader agreement: for every exporter/importer pair the field sequence written equals
     the field sequence read -- (A) delimiter formats: magic, delimiter, number of header fields,
     loop nesting and fields per iteration; (B) stream formats (PublishGroup / PublishState vs
     stream constructors): the same members in the same order with corresponding loops,
R11b one radix for all integer text: every mpz_set_str / mpz_get_str / stream operator uses the
     same base constant,
R11e a card and its secret (a stack and its secret) have the same dimensions, so their importers
     accept the same dimension ranges: the k-th numeric header field has the same upper limit in both,
R11d the one integer text writer every exporter relies on (operator<< for mpz values) emits the
     complete text mpz_get_str produced -- the NUL-terminated string itself, or a write whose length
     is strlen of it -- from a buffer of at least sizeinbase + 2 octets (sign and terminator); a
     length computed independently of the text can cut the sign or the last digit."""
import re
from ..facts import walk, AnalysisBroken


def path_name(e):
    """member path of an expression relative to the object: z, z[], g[], C_ik[][] ..."""
    if not isinstance(e, dict):
        return None
    k = e.get('k')
    if k == 'mem':
        o = e.get('o')
        if isinstance(o, dict) and o.get('k') in ('this', 'var'):
            return e['n']
        b = path_name(o)
        return (b + '.' + e['n']) if b else e['n']
    if k == 'idx' or (k == 'opcall' and e.get('op') == '[]'):
        b = path_name(e['a'][0])
        return (b + '[]') if b else None
    if k == 'un' and e.get('op') in ('&', '*'):
        return path_name(e['a'][0])
    if k == 'cast':
        return path_name(e.get('e'))
    if k == 'mcall' and e['f'].split('::')[-1] in ('size', 'length'):
        b = path_name(e.get('o'))
        return ('#' + b) if b else '#'
    if k == 'var':
        return '$' + e['n'] if not e.get('p') else None
    return None


def loop_bound_desc(s):
    """(operator, member or parameter the loop runs to) when the bound is a plain scalar name"""
    cnd = s.get('c')
    if not isinstance(cnd, dict) or cnd.get('k') != 'bin' or cnd.get('op') not in ('<', '<='):
        return None
    b = cnd['a'][1]
    while isinstance(b, dict) and b.get('k') == 'cast':
        b = b.get('e')
    if isinstance(b, dict) and b.get('k') == 'mem' and isinstance(b.get('o'), dict) and b['o'].get('k') == 'this':
        return (cnd['op'], b['n'])
    return None


class Fmt:
    """token stream of a writer (<< on an ostream parameter) or reader (>> on an istream
    parameter / TMCG_ParseHelper calls on the string parameter)"""
    prog = None

    def __init__(self, f):
        self.f = f
        self.outs = set(p['id'] for p in f['params'] if 'ostream' in p['t'])
        self.ins = set(p['id'] for p in f['params'] if 'istream' in p['t'])
        self.strs = set(p['id'] for p in f['params'] if 'basic_string' in p['t'])

    def root(self, e):
        while isinstance(e, dict) and e.get('k') == 'opcall' and e.get('op') in ('<<', '>>'):
            e = e['a'][0]
        return e['id'] if isinstance(e, dict) and e.get('k') == 'var' else None

    def expr(self, e, out):
        if not isinstance(e, dict):
            return
        k = e.get('k')
        if k == 'opcall' and e.get('op') in ('<<', '>>') and len(e['a']) == 2:
            r = self.root(e)
            if (e['op'] == '<<' and r in self.outs) or (e['op'] == '>>' and r in self.ins):
                self.expr(e['a'][0], out)
                arg = e['a'][1]
                if isinstance(arg, dict) and arg.get('k') == 'fn':
                    return
                if isinstance(arg, dict) and arg.get('k') == 'str':
                    out.append(('lit', arg['v']))
                    return
                out.append(('F', path_name(arg)))
                return
        if k in ('opcall', 'bin') and e.get('op') == '=' and len(e.get('a', [])) == 2 and isinstance(e['a'][1], dict) and \
                e['a'][1].get('k') == 'var' and e['a'][1]['id'] in self.strs:
            out.append(('F', path_name(e['a'][0])))     # the remainder of the text is the last field
            return
        if k == 'call' and e.get('f') in ('std::getline',) and e['a'] and isinstance(e['a'][0], dict) and e['a'][0].get('k') == 'var' and e['a'][0]['id'] in self.ins:
            out.append(('F', None))
            return
        if k == 'mcall' and e['f'].split('::')[-1] in ('getline',) and isinstance(e.get('o'), dict) and e['o'].get('k') == 'var' and e['o']['id'] in self.ins:
            out.append(('F', None))
            return
        if k in ('call', 'mcall') and e.get('fid') and Fmt.prog is not None and getattr(self, 'depth', 0) < 3:
            # a unit-private helper that is handed the text / the stream parses part of the format
            g = Fmt.prog.funcs.get(e['fid'])
            if Fmt.prog.is_helper(g):
                for x in e.get('a', []):
                    self.expr(x, out) if not (isinstance(x, dict) and x.get('k') == 'var') else None
                sub = Fmt(g)
                sub.depth = getattr(self, 'depth', 0) + 1
                out.extend(sub.stmt(g.get('body')))
                return
        if k == 'call' and e.get('f', '').startswith('TMCG_ParseHelper::'):
            short = e['f'].split('::')[-1]
            if short == 'cm':
                magic = e['a'][1]
                mv = None
                for x in walk(magic):
                    if x.get('k') == 'str':
                        mv = x['v']
                d = e['a'][2].get('v') if isinstance(e['a'][2], dict) else None
                out.append(('magic', mv, chr(d) if isinstance(d, int) else d))
            elif short == 'gs':
                d = e['a'][1].get('v') if isinstance(e['a'][1], dict) else None
                out.append(('F', None, chr(d) if isinstance(d, int) else d))
            elif short == 'nx':
                out.append(('nx',))
            return
        for key in ('a',):
            if isinstance(e.get(key), list):
                for x in e[key]:
                    self.expr(x, out)
        for key in ('e', 'o', 'c'):
            if isinstance(e.get(key), dict):
                self.expr(e[key], out)

    def stmt(self, s):
        if s is None:
            return []
        k = s.get('k')
        if k == 'block':
            out = []
            for x in s['s']:
                out.extend(self.stmt(x))
            return out
        if k == 'if':
            pre = []
            self.expr(s['c'], pre)
            t = self.stmt(s['t'])
            e = self.stmt(s.get('e'))
            # error exits carry no fields; keep the longer alternative
            return pre + (t if len(t) >= len(e) else e)
        if k in ('for', 'while', 'do', 'forrange'):
            pre = self.stmt(s['i']) if k == 'for' and s.get('i') else []
            body = self.stmt(s['b'])
            cnd = []
            if s.get('c'):
                self.expr(s['c'], cnd)
            body = cnd + body
            if not body:
                return pre
            return pre + [('loop', tuple(body), loop_bound_desc(s))]
        if k == 'try':
            return self.stmt(s['b'])
        if k in ('switch', 'case', 'default', 'label'):
            return self.stmt(s.get('b') or s.get('s'))
        if k == 'decl':
            out = []
            for v in s['v']:
                if v.get('init'):
                    self.expr(v['init'], out)
            return out
        if k == 'return':
            out = []
            if s.get('e'):
                self.expr(s['e'], out)
            return out
        if k == 'bin' and s.get('op') == ',':
            return self.stmt(s['a'][0]) + self.stmt(s['a'][1])
        out = []
        self.expr(s, out)
        return out

    def tokens(self):
        toks = self.stmt(self.f.get('body'))
        for ini in self.f.get('inits', []):
            pass
        return toks


def delim_signature_writer(toks):
    """(magic, delimiter, structure) of a delimiter-format writer; a separator literal that differs
    from the delimiter makes the delimiter a tuple (so that it cannot match the reader's)"""
    magic = None
    delim = None
    seps = set()

    def struct(ts):
        nonlocal magic, delim
        out = []
        for t in ts:
            if t[0] == 'lit':
                v = t[1]
                if len(v) > 1 and magic is None:
                    magic, delim = v[:-1], v[-1]
                elif len(v) == 1:
                    delim = delim or v
                    if v != delim:
                        seps.add(v)
                elif len(v) > 1:
                    # composite literal such as "|" followed by another magic: count inner delimiters
                    pass
            elif t[0] == 'F':
                out.append('F')
            elif t[0] == 'loop':
                inner = struct(t[1])
                if inner:
                    out.append(('loop', tuple(inner)))
        return out
    st = struct(toks)
    if seps:
        delim = (delim,) + tuple(sorted(seps))
    return magic, delim, tuple(st)


def delim_signature_reader(toks):
    magic = None
    delim = None
    odd = set()

    def struct(ts):
        nonlocal magic, delim
        out = []
        for t in ts:
            if t[0] == 'magic':
                magic, delim = t[1], t[2]
            elif t[0] == 'F':
                out.append('F')
                if len(t) > 2 and t[2] is not None and delim is not None and t[2] != delim:
                    odd.add(t[2])
            elif t[0] == 'loop':
                inner = struct(t[1])
                if inner:
                    out.append(('loop', tuple(inner)))
        return out
    st = struct(toks)
    if odd:
        delim = (delim,) + tuple(sorted(odd))
    return magic, delim, tuple(st)


def show_struct(st):
    return ' '.join('(%s)*' % show_struct(x[1]) if isinstance(x, tuple) else x for x in st)


def stream_signature(toks, strip_sizes=False):
    out = []
    for t in toks:
        if t[0] == 'F':
            nm = t[1]
            out.append(nm if nm is not None else '?')
        elif t[0] == 'loop':
            inner = stream_signature(t[1])
            if inner:
                out.append(('loop', tuple(inner), t[2] if len(t) > 2 else None))
    return tuple(out)


def show_stream(sig):
    return ' '.join(('(%s)*%s' % (show_stream(x[1]), ('{%s %s}' % x[2]) if len(x) > 2 and x[2] else '')) if isinstance(x, tuple) else str(x) for x in sig)


DELIM_TYPES = ['TMCG_Card', 'VTMF_Card', 'TMCG_CardSecret', 'VTMF_CardSecret', 'TMCG_PublicKey', 'TMCG_SecretKey']
STREAM_PAIRS = [
    ('BarnettSmartVTMF_dlog::PublishGroup', 'BarnettSmartVTMF_dlog'),
    ('PedersenCommitmentScheme::PublishGroup', 'PedersenCommitmentScheme'),
    ('HooghSchoenmakersSkoricVillegasVRHE::PublishGroup', 'HooghSchoenmakersSkoricVillegasVRHE'),
    ('NaorPinkasEOTP::PublishGroup', 'NaorPinkasEOTP'),
    ('PedersenTrapdoorCommitmentScheme::PublishGroup', 'PedersenTrapdoorCommitmentScheme'),
    ('PedersenVSS::PublishState', 'PedersenVSS'),
    ('GennaroJareckiKrawczykRabinDKG::PublishState', 'GennaroJareckiKrawczykRabinDKG'),
    ('CanettiGennaroJareckiKrawczykRabinRVSS::PublishState', 'CanettiGennaroJareckiKrawczykRabinRVSS'),
    ('CanettiGennaroJareckiKrawczykRabinZVSS::PublishState', 'CanettiGennaroJareckiKrawczykRabinZVSS'),
    ('CanettiGennaroJareckiKrawczykRabinDKG::PublishState', 'CanettiGennaroJareckiKrawczykRabinDKG'),
    ('CanettiGennaroJareckiKrawczykRabinDSS::PublishState', 'CanettiGennaroJareckiKrawczykRabinDSS'),
]


def run(ctx):
    Fmt.prog = ctx.prog
    r11d(ctx)
    r11g(ctx)
    r11e(ctx)
    prog = ctx.prog
    n = 0
    # (A) delimiter formats: operator<< vs import
    cands = []
    for f in prog.funcs.values():
        if f['q'] == 'operator<<' and len(f['params']) == 2:
            t = f['params'][1]['t'].replace('const ', '').replace(' &', '').strip()
            cands.append((t, f))
    for t, w in sorted(cands, key=lambda x: x[0]):
        imps = prog.by_q.get(t + '::import', [])
        if not imps:
            continue
        r = imps[0]
        wm, wd, ws = delim_signature_writer(Fmt(w).tokens())
        rm, rd, rs = delim_signature_reader(Fmt(r).tokens())
        n += 1
        key = 'R11a:' + t
        probs = []
        if wm != rm:
            probs.append('magic %r written, %r expected by the importer' % (wm, rm))
        if wd != rd:
            probs.append('delimiter %r written, %r parsed' % (wd, rd))
        if ws != rs:
            probs.append('field structure written [%s] differs from the structure read [%s]' % (show_struct(ws), show_struct(rs)))
        if probs:
            ctx.bad('R11a', key, 'exporter and importer of %s disagree: %s' % (t, '; '.join(probs)), r)
        else:
            ctx.ok('R11a', key, 'magic %r, delimiter %r, fields [%s] agree' % (wm, wd, show_struct(ws)), w)
    ctx.floor('R11a-delim', n, 9)
    # (B) stream formats
    m = 0
    for wq, cls in STREAM_PAIRS:
        ws_ = prog.by_q.get(wq, [])
        if not ws_:
            raise AnalysisBroken('publisher vanished: ' + wq)
        w = ws_[0]
        readers = [f for f in prog.by_q.get(cls + '::' + cls.split('::')[-1], []) if f['kind'] == 'ctor' and any('istream' in p['t'] for p in f['params'])]
        if not readers:
            raise AnalysisBroken('stream constructor vanished: ' + cls)
        r = readers[0]
        wsig = stream_signature(Fmt(w).tokens())
        rsig = stream_signature(Fmt(r).tokens())
        m += 1
        key = 'R11a:%s' % wq
        if match_stream(norm_stream(wsig), norm_stream(rsig)):
            ctx.ok('R11a', key, 'members written = members read: %s' % show_stream(norm_stream(wsig))[:160], w)
        else:
            ctx.bad('R11a', key, 'publisher writes [%s] but the stream constructor reads [%s]' % (show_stream(norm_stream(wsig))[:200], show_stream(norm_stream(rsig))[:200]), r)
    ctx.floor('R11a-stream', m, 11)
    r11f(ctx)
    r11b(ctx)


def r11f(ctx):
    """nothing read is dropped: in the stream constructors an element that is read into a local
    inside a loop is stored into a member of the object on every path through that iteration
    (a `continue` or a conditional in front of the push_back loses elements that were exported)"""
    prog = ctx.prog

    def rootloc(l):
        while isinstance(l, tuple) and l[0] in ('f', 'e', 'stream'):
            l = l[1]
        return l
    n = 0
    for wq, cls in STREAM_PAIRS:
        readers = [f for f in prog.by_q.get(cls + '::' + cls.split('::')[-1], []) if f['kind'] == 'ctor' and any('istream' in p['t'] for p in f['params'])]
        for r in readers[:1]:
            a = ctx.analysis(r)
            T = a.T
            byid = {x.id: x for x in a.cfg.rpo}
            for nid, ev in sorted(a.all_events('rcv'), key=lambda x: (x[1][3], x[0])):
                if ev[1] is None or rootloc(ev[1])[0] == 'm':
                    continue
                inloop = [h for h, body in a.loop_nodes.items() if nid in body]
                if not inloop:
                    continue        # a count or flag read once; it steers the loops below
                w = ev[2]
                wn = T.node(w)
                stores = set()
                for n2, e2 in a.all_events('write'):
                    if rootloc(e2[1])[0] == 'm' and (e2[2] == w or T.contains(e2[2], lambda z: z == wn)):
                        stores.add(n2)
                for n2, e2 in a.all_events('mcall'):
                    if e2[6] and rootloc(e2[6])[0] == 'm' and any(x == w or T.contains(x, lambda z: z == wn) for x in e2[3]):
                        stores.add(n2)
                n += 1
                key = 'R11f:%s:%s' % (cls, ev[1][2] if ev[1][0] == 'v' else T.show(w, 2))
                heads = set(inloop)
                seen = set()
                stack = list(byid[nid].succ) if nid not in stores else []
                lost = None
                while stack:
                    x = stack.pop()
                    if x.id in seen or x.id in stores:
                        continue
                    seen.add(x.id)
                    if x.id in heads or (x.kind == 'exit' and x.meta.get('kind') != 'throw'):
                        lost = x
                        break
                    stack.extend(x.succ)
                if not stores:
                    ctx.bad('R11f', key, 'an element read from the stream inside a loop is never stored in the object', r, line=ev[3])
                elif lost is not None:
                    ctx.bad('R11f', key, 'an element read from the stream can reach the next iteration (line %d) without being stored in the object: what the publisher '
                            'wrote is read but not kept' % lost.line, r, line=ev[3])
                else:
                    ctx.ok('R11f', key, 'every element read in the loop is stored in the object before the iteration ends', r, line=ev[3])
    ctx.floor('R11f', n, 6)


def norm_stream(sig):
    """sizes written as counts are read into locals: compare positions of '#x' with '$local' loosely"""
    out = []
    for x in sig:
        if isinstance(x, tuple):
            out.append(('loop', norm_stream(x[1]), x[2] if len(x) > 2 else None))
        else:
            s = str(x)
            if s.startswith('#') or s.startswith('$') or s == '?':
                out.append('<n>')
            else:
                out.append(s)
    return tuple(out)


def match_stream(a, b):
    """equal up to wildcards (<n>: a value that one side holds in a local)"""
    if len(a) != len(b):
        return False
    for x, y in zip(a, b):
        if isinstance(x, tuple) != isinstance(y, tuple):
            return False
        if isinstance(x, tuple):
            if not match_stream(x[1], y[1]):
                return False
            bx = x[2] if len(x) > 2 else None
            by = y[2] if len(y) > 2 else None
            # both loops run to a scalar member: it must be the same member with the same comparison
            if bx is not None and by is not None and bx != by:
                return False
        elif x != y and '<n>' not in (x, y):
            return False
    return True


def r11b(ctx):
    prog = ctx.prog
    bases = {}
    for key, f in prog.funcs.items():
        if 'RFC4880' in f['file']:
            continue
        for e in walk(f.get('body')):
            if e.get('k') == 'call' and e.get('f') in ('mpz_set_str', 'mpz_get_str', 'mpz_out_str', 'mpz_inp_str'):
                idx = 2 if e['f'] in ('mpz_set_str', 'mpz_inp_str') else 1
                if e['f'] == 'mpz_out_str':
                    idx = 1
                if idx < len(e['a']):
                    b = e['a'][idx]
                    if isinstance(b, dict) and b.get('k') == 'int':
                        bases.setdefault((b.get('v'), b.get('m')), []).append((f['q'], e.get('l')))
    ctx.info['integer_text_bases'] = {str(k): len(v) for k, v in bases.items()}
    transport = [k for k in bases if k[1] == 'TMCG_MPZ_IO_BASE']
    others = [k for k in bases if k[1] != 'TMCG_MPZ_IO_BASE' and k[0] not in (16, 10)]
    if len(transport) == 1 and not others:
        ctx.ok('R11b', 'R11b:radix', 'all %d text conversions of the transport encoding use the one constant TMCG_MPZ_IO_BASE = %d' % (len(bases[transport[0]]), transport[0][0]))
    else:
        ctx.bad('R11b', 'R11b:radix', 'integer text is written and read with different radices: %s' % {str(k): v[:2] for k, v in bases.items()})


EXPLANATION = ("Writer/reader agreement decided from the source: for the delimiter formats (cards, card secrets, stacks, stack secrets, keys) "
               "the exporter's magic string, delimiter, number of header fields, loop nesting and fields per iteration equal what the "
               "importer parses; for the stream formats (PublishGroup / PublishState against the stream constructors of eleven classes) the "
               "sequence of members written equals the sequence of members read, loops included; all integer text uses one radix constant. "
               "Value-level losslessness (zero, negative, maximal length) is not decided.")
ASSUMPTIONS = ["fields are delimited exactly by the literal delimiter characters", "nested objects count as one field on both sides"]


def r11d(ctx):
    from ..core import poly, padd
    prog = ctx.prog
    fs = [f for f in prog.by_q.get('operator<<', []) if len(f['params']) == 2 and '__mpz_struct' in f['params'][1]['t'] and f.get('body')]
    if not fs:
        from ..facts import AnalysisBroken
        raise AnalysisBroken('operator<<(std::ostream&, mpz_srcptr) not found')
    f = fs[0]
    a = ctx.analysis(f)
    T = a.T
    gets = [ev for nid, ev in a.all_events('call') if ev[1] == 'mpz_get_str' and len(ev[2]) == 3]
    if not gets:
        ctx.note('R11d', 'R11d:writer', 'the integer writer no longer uses mpz_get_str; not evaluated', f)
        ctx.floor('R11d', 0, 1)
        return
    g = gets[0]
    valp = g[2][2]
    base = g[2][1]
    # capacity of the buffer handed to mpz_get_str
    bufroot = g[2][0]
    while T.op(bufroot) in ('agg', 'ix', 'upd'):
        bufroot = T.node(bufroot)[1]
    cap = a.alloc_size.get(bufroot)
    if cap is None:
        # &buf[0] / buf.data() of a std::vector built by the fill constructor: the count argument is the capacity
        r = g[2][0]
        while T.op(r) in ('agg', 'ix', 'upd', 'elem', 'addr') or (T.op(r) == 'mc' and T.node(r)[1].split('::')[-1] == 'data'):
            r = T.node(r)[2] if T.op(r) == 'mc' else T.node(r)[1]
        rn = T.node(r)
        if rn[0] == 'ctor' and 'vector' in str(rn[1]) and len(rn) >= 3:
            cap = rn[2]
    okc = False
    if cap is not None:
        need = T.mk('sizeinbase', valp, base)
        d = poly(T, cap)
        padd(d, poly(T, need), -1)
        rest = {m: c for m, c in d.items() if c}
        okc = set(rest.keys()) <= {()} and rest.get((), 0) >= 2
    (ctx.ok if okc else ctx.bad)('R11d', 'R11d:capacity', 'text buffer holds sizeinbase + 2 octets (sign and terminator)' if okc else
                                 'the buffer handed to mpz_get_str is smaller than mpz_sizeinbase(value, base) + 2 (negative values overrun it)', f)
    # what reaches the stream
    whole = False
    partial = None
    for nid, ev in a.all_events('snd'):
        v = ev[2]
        vn = T.node(v)
        if vn[0] == 'callr' and vn[1] == 'mpz_get_str':
            whole = True
        elif bufroot in T.subterms(v) and T.op(v) in ('agg', 'new', 'ctor', 'mc'):
            whole = True            # out << buf  /  out << std::string(buf): the NUL-terminated text
    for nid, ev in a.all_events('mcall'):
        if ev[1].split('::')[-1] == 'write' and len(ev[3]) == 2 and bufroot in T.subterms(ev[3][0]):
            ln = T.node(ev[3][1])
            if ln[0] == 'callr' and ln[1] in ('strlen', 'std::strlen') and bufroot in T.subterms(ev[3][1]):
                whole = True
            else:
                partial = T.show(ev[3][1], 3)
    if partial is not None:
        ctx.bad('R11d', 'R11d:complete', 'the integer text is written with a length (%s) that is not the length of the text mpz_get_str produced: '
                'the sign or the last digit can be cut off' % partial, f)
    elif whole:
        ctx.ok('R11d', 'R11d:complete', 'the complete NUL-terminated text of mpz_get_str is written', f)
    else:
        ctx.note('R11d', 'R11d:complete', 'how the integer text reaches the stream was not recognised; not evaluated', f)
    ctx.floor('R11d', sum(1 for r in ctx.results if r.rule == 'R11d' and r.status == 'ok'), 2)


def dim_limits(ctx, f):
    """upper limits of the numeric header fields an importer parses with strtoul, in parse order"""
    a = ctx.analysis(f)
    T = a.T
    fs = a.accept_facts() or set()
    calls = []
    for nid, ev in sorted(a.all_events('call'), key=lambda x: (x[1][3], x[0])):
        if ev[1].split('::')[-1] == 'strtoul':
            calls.append(nid)
    out = []
    seen = []
    for fa in fs:
        n = T.node(fa)
        if n[0] == 'rel' and n[1] in ('<=', '<') and T.is_int(n[3]) and T.op(n[2]) == 'callr' and T.node(n[2])[1].split('::')[-1] == 'strtoul':
            seen.append((n[2], T.node(n[3])[1] - (1 if n[1] == '<' else 0)))
    # order by first evaluation of the strtoul term
    order = {}
    pos = {n_.id: i for i, n_ in enumerate(a.cfg.rpo)}      # program order (helpers are expanded in place)
    for nid, ev in sorted(a.all_events('call'), key=lambda x: (pos.get(x[0], 1 << 30), x[0])):
        if ev[1].split('::')[-1] == 'strtoul':
            t = T.mk('callr', ev[1], *ev[2])
            order.setdefault(t, len(order))
    seen.sort(key=lambda x: order.get(x[0], 99))
    return [b for t, b in seen], len(order)


def r11e(ctx):
    prog = ctx.prog
    n = 0
    pairs = []
    for a_, b_ in (('TMCG_Card::import', 'TMCG_CardSecret::import'),):
        pairs.append((a_, b_))
    for q in sorted(prog.by_q):
        if q.startswith('TMCG_Stack<') and q.endswith('::import'):
            inner = q[len('TMCG_Stack<'):-len('>::import')]
            cand = 'TMCG_StackSecret<%s>::import' % inner.replace('Card', 'CardSecret')
            if cand in prog.by_q:
                pairs.append((q, cand))
    for qa, qb in pairs:
        fa, fb = prog.fn(qa, 0), prog.fn(qb, 0)
        la, na = dim_limits(ctx, fa)
        lb, nb = dim_limits(ctx, fb)
        n += 1
        key = 'R11e:%s<->%s' % (qa.replace('::import', ''), qb.replace('::import', ''))
        if not la or not lb:
            ctx.bad('R11e', key, 'a numeric header field is parsed without an upper limit (limits found: %s / %s)' % (la, lb), fb, nec=False)
        elif la == lb:
            ctx.ok('R11e', key, 'both importers accept the same dimension ranges (upper limits %s)' % la, fb)
        else:
            ctx.bad('R11e', key, 'the importers of an object and of its secret accept different dimension ranges: header limits %s versus %s -- '
                    'objects of some admissible size export but do not import' % (la, lb), fb)
    ctx.floor('R11e', n, 3)


def r11g(ctx):
    """the integer text reader (operator>>(istream&, mpz_ptr)) is the mirror of the writer, which emits every value whatever
    its size: the reader may refuse on the state of the stream, on the line length it can buffer and on the verdict of
    mpz_set_str -- a refusal that depends on the *parsed value* (its bit length, a comparison) is a restriction the writer
    does not have: such values are exported and cannot be imported again, and every record that contains one fails with it"""
    prog = ctx.prog
    fs = [f for f in prog.by_q.get('operator>>', []) if len(f['params']) == 2 and '__mpz_struct' in f['params'][1]['t'] and 'istream' in f['params'][0]['t'] and f.get('body')]
    if not fs:
        from ..facts import AnalysisBroken
        raise AnalysisBroken('operator>>(std::istream&, mpz_ptr) not found')
    f = fs[0]
    a = ctx.analysis(f)
    T = a.T

    def parsed(t):
        return T.contains(t, lambda z: z[0] == 'out' and z[1] == 'mpz_set_str' and z[2] == 0)
    bad = None
    nref = 0
    sites = [(n_, st) for n_, kind, val, st in a.exits() if kind == 'throw']
    sites += [(None, a.instate[nid]) for nid, ev in a.all_events('mcall') if ev[1].split('::')[-1] == 'setstate']
    for n_, st in sites:
        nref += 1
        for fa in st.facts:
            if parsed(fa):
                bad = T.show(fa, 4)
    if bad:
        ctx.bad('R11g', 'R11g:reader-refusals', 'the integer reader refuses on a property of the parsed value (%s): the writer emits such values, so they do not '
                'round-trip and every record that contains one fails to import' % bad[:160], f)
    else:
        ctx.ok('R11g', 'R11g:reader-refusals', 'the %d refusing sites of the integer reader depend on the stream, the line buffer and the verdict of mpz_set_str only' % nref, f)
    ctx.floor('R11g', nref, 1)
