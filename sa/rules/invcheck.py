"""Frozen check inventory (inventory_ref.json) against the inventory of the current tree.

The reference was generated from the tree once (tools/mkinventory.py), reviewed by reading the
verifiers, and is never rewritten by a check.  A reference entry is discharged when some current
fingerprint *covers* it (same kind, at least the same inputs, same constants), under every
assumption variant the reference lists.  Entries of kinds that are not necessary for the verdict
(success of a modular inversion) are informational."""
import ast, json, os
from .. import inventory
from . import verifiers

REF = os.path.join(os.path.dirname(os.path.abspath(__file__)), 'inventory_ref.json')
INFO_KINDS = ('invertible', 'all:invertible', 'other', 'all:other', 'truthy', 'falsy', 'all:truthy', 'all:falsy')


def load_ref():
    return json.load(open(REF))


def kind_of(fp):
    return fp[1] if fp[0] == '@loop' else fp[0]


def describe(fp):
    k = kind_of(fp)
    loop = 'in every iteration: ' if fp[0] == '@loop' else ''
    body = fp[1:] if fp[0] == '@loop' else fp
    if k.endswith('if'):
        return '%swhen %s: %s' % (loop, body[1], describe(body[2]))
    if k.endswith('call'):
        return '%s%sverdict of %s on %s required' % (loop, 'for all elements: ' if k.startswith('all:') else '', body[1], ','.join(body[2]))
    if k.endswith('range'):
        return '%s%s%s(%s) %s %s(%s)' % (loop, 'for all elements: ' if k.startswith('all:') else '', body[2], ','.join(body[3]), body[1], body[4], ','.join(body[5]))
    if k.endswith('eq') or k.endswith('ne'):
        (s1, l1), (s2, l2) = body[1]
        return '%s%s%s(%s) %s %s(%s)' % (loop, 'for all elements: ' if k.startswith('all:') else '', s1, ','.join(l1),
                                         '==' if k.endswith('eq') else '!=', s2, ','.join(l2))
    return loop + repr(body)


def check_inventory(ctx, prop, rule, only=None, kinds=None):
    prog = ctx.prog
    ref = load_ref()
    sel = {f['key']: (f, props) for f, props in verifiers.selected(prog)}
    n = 0
    nfun = 0
    for key, ent in ref.items():
        if prop not in ent['props']:
            continue
        if only and not only(ent['q']):
            continue
        if key not in sel:
            # the anchor moved, was renamed or lost its overload: analysis broken, not a pass
            from ..facts import AnalysisBroken
            raise AnalysisBroken('inventory anchor vanished: %s' % key)
        f = sel[key][0]
        nfun += 1
        inv, hashes = inventory.inventory(ctx, f)
        cur = list(inv.items())
        for it in ent['items']:
            fp = ast.literal_eval(it['fp'])
            k = kind_of(fp)
            if kinds is not None and not kinds(k, fp):
                continue
            nec = k not in INFO_KINDS and it.get('tag', 'nec') == 'nec'
            missing = []
            for lab in it['variants']:
                okv = any(lab in labs and inventory.covers(cfp, fp) for cfp, labs in cur)
                if not okv:
                    missing.append(lab or 'always')
            n += 1
            ikey = '%s:%s:%s' % (rule, ent['q'] + sig_suffix(key), short(fp))
            if not missing:
                ctx.ok(rule, ikey, describe(fp), f)
            else:
                ctx.bad(rule, ikey, 'acceptance is no longer guarded by: %s (variants: %s)' % (describe(fp), ','.join(missing)), f, nec=nec)
        # current hash argument lists that shrank relative to the reference are reported as notes
        refh = {}
        for h in ent.get('hashes', []):
            hf = ast.literal_eval(h['fp'])
            refh.setdefault(hf[0], []).append(hf[1])
        for hf, cnt in hashes.items():
            name, args = hf
            if name in refh and args not in refh[name]:
                cands = refh[name]
                if not any(len(args) >= len(c) for c in cands):
                    ctx.note(rule + 'h', '%sh:%s:%s' % (rule, ent['q'], name), 'hash %s has fewer inputs than recorded (%d < %d): weak Fiat-Shamir' % (
                        name, len(args), min(len(c) for c in cands)), f)
    return nfun, n


def sig_suffix(key):
    # distinguish overloads by a short stable digest of the parameter list
    import hashlib
    return '#' + hashlib.sha1(key.encode()).hexdigest()[:6]


def short(fp):
    import hashlib
    return kind_of(fp) + ':' + hashlib.sha1(repr(fp).encode()).hexdigest()[:10]
