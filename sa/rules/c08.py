"""C08 All players derive the same common card key (structural part).

R08a every write of the common key is an initialisation, a multiplication by an accepted foreign
     key modulo p, or a multiplication by the inverse of a stored key (commutative updates only),
R08b a foreign key is multiplied in and stored only after its proof of knowledge verified,
R08c the stored value is the multiplied value; removal inverts the stored value, erases it and
     rejects unknown fingerprints without writing,
R08d the fixed-base table of h is rebuilt from h in Finalize,
R08e role discipline of adders / removers of foreign keys,
R08f every fixed-base table is built for its own base, modulo p, with bits(q) rows,
plus the frozen inventory of VerifyNIZK / UpdateKey / RemoveKey."""
from . import invcheck
from ..facts import AnalysisBroken, walk

CLS = 'BarnettSmartVTMF_dlog'


def run(ctx):
    prog = ctx.prog
    nfun, n = invcheck.check_inventory(ctx, 'C08', 'R08i')
    ctx.floor('R08i', n, 6)
    classes = prog.subclasses(CLS)
    nw = 0
    writers = set()
    for key, f in prog.funcs.items():
        if f.get('cls') not in classes:
            continue
        a = ctx.analysis(f)
        T = a.T
        for nid, ev in a.all_events('write'):
            if ev[1] != ('m', 'h'):
                continue
            nw += 1
            writers.add(f['q'])
            val = ev[2]
            st = a.instate[nid]
            kind = classify(a, val, st)
            k = 'R08a:%s:%s' % (f['q'], kind[0])
            if kind[0] in ('init', 'own-key', 'reduce'):
                ctx.ok('R08a', k, 'write of h: ' + kind[1], f, line=ev[3])
            elif kind[0] == 'mul-foreign':
                ctx.ok('R08a', k, 'write of h: ' + kind[1], f, line=ev[3])
                # R08b: dominated by successful proof verification of the multiplied value
                x = kind[2]
                okv = any(T.node(fa)[0] == 'truthy' and T.node(T.node(fa)[1])[0] == 'mc' and
                          T.node(T.node(fa)[1])[1].endswith('::KeyGenerationProtocol_VerifyNIZK') and T.node(T.node(fa)[1])[3] == x
                          for fa in st.facts)
                okg = any(T.node(fa)[0] == 'truthy' and T.node(T.node(fa)[1])[0] == 'mc' and T.node(T.node(fa)[1])[1] == 'good' for fa in st.facts)
                (ctx.ok if okv else ctx.bad)('R08b', 'R08b:%s:proof' % f['q'], 'key is multiplied in only after KeyGenerationProtocol_VerifyNIZK accepted it' if okv else
                                             'foreign key is multiplied into h without a verified proof of knowledge', f, line=ev[3])
                (ctx.ok if okg else ctx.bad)('R08b', 'R08b:%s:stream' % f['q'], 'stream state checked before the update' if okg else
                                             'h is updated although reading the contribution may have failed', f, line=ev[3], nec=False)
                # R08c: what is stored under the fingerprint is the multiplied value
                stored = [e2 for n2, e2 in a.all_events('write') if e2[1][0] == 'e' and e2[1][1] == ('m', 'h_j')]
                oks = any(e2[2] == x for e2 in stored)
                (ctx.ok if oks else ctx.bad)('R08c', 'R08c:%s:stored' % f['q'], 'the value stored for later removal is the value multiplied in' if oks else
                                             'the key stored for removal differs from the key multiplied into h', f)
            elif kind[0] == 'mul-inverse':
                ctx.ok('R08a', k, 'write of h: ' + kind[1], f, line=ev[3])
                x = kind[2]
                xn = T.node(x)
                oks = xn[0] == 'elem' and T.node(xn[1]) == ('this', 'h_j') or (xn[0] == 'ix') or T.contains(x, lambda nn: nn == ('this', 'h_j'))
                (ctx.ok if oks else ctx.bad)('R08c', 'R08c:%s:inverse-of-stored' % f['q'], 'removal multiplies by the inverse of the stored key' if oks else
                                             'removal does not invert the stored key', f, line=ev[3])
                okc = any(T.node(fa)[0] == 'truthy' and T.node(T.node(fa)[1])[0] == 'mc' and T.node(T.node(fa)[1])[1].endswith('::count')
                          for fa in st.facts)
                (ctx.ok if okc else ctx.bad)('R08c', 'R08c:%s:known-fingerprint' % f['q'], 'h is written only for a stored fingerprint' if okc else
                                             'h is updated for an unknown fingerprint', f, line=ev[3])
                erased = any(ev2[1].endswith('::erase') and ev2[6] == ('m', 'h_j') for n2, ev2 in a.all_events('mcall'))
                (ctx.ok if erased else ctx.bad)('R08c', 'R08c:%s:erase' % f['q'], 'the removed key is erased from the table' if erased else
                                                'removed key stays in the table (a second removal would divide again)', f)
            else:
                ctx.bad('R08a', k, 'common key is updated in a way that is not order independent: h := %s' % T.show(val, 4), f, line=ev[3])
    ctx.info['writers_of_h'] = sorted(writers)
    ctx.floor('R08a', nw, 5)
    # R08e: role discipline.  A function that erases from the table of foreign keys is a remover: on
    # every accepting path the common key it leaves behind is h * stored^-1 mod p and nothing else
    # (a shortcut such as h := h_i drops the contributions that remain).  A function that inserts into
    # the table is an adder: it leaves h * key mod p.
    ne = 0
    for key, f in prog.funcs.items():
        if f.get('cls') not in classes or not f.get('body') or f.get('ret') != 'bool':
            continue
        a = ctx.analysis(f)
        T = a.T
        erases = any(ev2[1].endswith('::erase') and ev2[6] == ('m', 'h_j') for n2, ev2 in a.all_events('mcall'))
        inserts = any(e2[1][0] == 'e' and e2[1][1] == ('m', 'h_j') for n2, e2 in a.all_events('write'))
        if not (erases or inserts):
            continue
        want = 'mul-inverse' if erases else 'mul-foreign'
        bad = None
        nex = 0
        for n_, facts_ in a.accept_exits():
            st = a.instate[n_.id]
            hv = st.env.get(('m', 'h'))
            nex += 1
            if hv is None:
                bad = ('left unchanged', n_.line)
                break
            kind = classify(a, hv, st)
            if kind[0] != want:
                bad = (T.show(hv, 3), n_.line)
                break
        ne += 1
        k = 'R08e:%s' % f['q']
        if bad is None and nex:
            ctx.ok('R08e', k, 'on every accepting path the common key becomes %s' % ('h * stored^-1 mod p' if erases else 'h * key mod p'), f)
        else:
            ctx.bad('R08e', k, 'an accepting path of this %s leaves the common key as %s instead of %s: the key no longer is the product of the '
                    'contributions in the table' % ('removal' if erases else 'update', bad[0] if bad else '?', 'h * stored^-1 mod p' if erases else 'h * key mod p'),
                    f, line=bad[1] if bad else None)
    ctx.floor('R08e', ne, 2)
    # R08d
    f = prog.fn(CLS + '::KeyGenerationProtocol_Finalize', 0)
    a = ctx.analysis(f)
    T = a.T
    okd = False
    for nid, ev in a.all_events('call'):
        if ev[1] == 'tmcg_mpz_fpowm_precompute' and len(ev[2]) >= 3 and ev[2][1] == T.mk('this', 'h') and ev[2][2] == T.mk('this', 'p'):
            okd = True
    (ctx.ok if okd else ctx.bad)('R08d', 'R08d:Finalize', 'table of h is rebuilt from h and p' if okd else 'Finalize does not rebuild the table of h from the current h', f)
    # R08f: every fixed-base table of the class is built for its own base, modulo p, and with one row
    # per bit of the group order -- the exponents used with it are residues modulo q, and the nominal
    # size G_size is only a lower bound of bits(q): a shorter table makes h^r come out wrong for this
    # player only (rows beyond the length keep zeros or the squares of the previous key)
    nf = 0
    for key, f in prog.funcs.items():
        if f.get('cls') not in classes or not f.get('body'):
            continue
        a = ctx.analysis(f)
        T = a.T
        occ = {}
        # which objects are named is read off the call expression, the row count is the value the
        # dataflow has for the fourth argument at the call
        sites = {}
        for e in walk(f['body']):
            if e.get('k') == 'call' and e.get('f') == 'tmcg_mpz_fpowm_precompute' and len(e.get('a', [])) == 4:
                sites.setdefault(e.get('l'), []).append(e)
        for nid, ev in sorted(a.all_events('call'), key=lambda x: (x[1][3], x[0])):
            if ev[1] != 'tmcg_mpz_fpowm_precompute' or len(ev[2]) != 4:
                continue
            cand = sites.get(ev[3]) or []
            if not cand:
                continue
            e = cand.pop(0) if len(cand) > 1 else cand[0]
            st = a.instate[nid]

            def member(x):
                while isinstance(x, dict) and x.get('k') == 'cast':
                    x = x['e']
                if isinstance(x, dict) and x.get('k') == 'mem' and isinstance(x.get('o'), dict) and x['o'].get('k') == 'this':
                    return x['n']
                return None
            tab, base, mod = [member(x) for x in e['a'][:3]]
            length = ev[2][3]
            nf += 1
            nm = tab or '?'
            occ[nm] = occ.get(nm, 0) + 1
            k = 'R08f:%s:%s#%d' % (f['q'], nm, occ[nm])
            problems = []
            if tab is None or base is None or tab != 'fpowm_table_' + base:
                problems.append('table %s is built from base %s' % (tab, base))
            if mod != 'p':
                problems.append('table is built modulo %s instead of p' % mod)
            if length not in (T.mk('bits', a.read(('m', 'q'), st)), T.mk('bits', a.read(('m', 'p'), st))):
                problems.append('table has %s rows; exponents are residues modulo q and need bits(q) rows' % T.show(length, 3))
            if problems:
                ctx.bad('R08f', k, '; '.join(problems), f, line=ev[3])
            else:
                ctx.ok('R08f', k, 'table of %s: own base, modulus p, one row per bit of the group order' % base, f, line=ev[3])
    ctx.floor('R08f', nf, 5)


def classify(a, val, st):
    T = a.T
    n = T.node(val)
    h0 = st.env.get(('m', 'h'))
    p = T.mk('this', 'p')
    if n[0] == 'int':
        return ('init', 'constant %d' % n[1])
    if n == ('this', 'h_i') or val == st.env.get(('m', 'h_i')) or (n[0] in ('powm',) and False):
        return ('own-key', 'h := h_i')
    hi = st.env.get(('m', 'h_i'))
    if hi is not None and val == hi:
        return ('own-key', 'h := h_i')
    if n[0] == 'mod' and n[2] == p:
        inner = T.node(n[1])
        if inner[0] == 'mul' and len(inner) == 3:
            xs = [x for x in inner[1:]]
            # one factor is the previous h (or the unreduced product written just before)
            prev = [x for x in xs if is_prev_h(a, x)]
            if len(prev) == 1:
                other = [x for x in xs if x not in prev][0]
                on = T.node(other)
                if on[0] == 'inv' and on[2] == p:
                    return ('mul-inverse', 'h := h * stored^-1 mod p', on[1])
                return ('mul-foreign', 'h := h * key mod p', other)
        return ('other', '')
    if n[0] == 'mul' and len(n) == 3:
        prev = [x for x in n[1:] if is_prev_h(a, x)]
        if len(prev) == 1:
            return ('reduce', 'unreduced product, reduced modulo p by the next statement')
    return ('other', '')


def is_prev_h(a, x):
    T = a.T
    n = T.node(x)
    if n == ('this', 'h'):
        return True
    return False


EXPLANATION = ("Static effect analysis of the key-generation protocol: every write of the common key h in the class (and its QR subclass) is "
               "classified from its symbolic value as initialisation, h := h_i, h := h*key mod p or h := h*stored^-1 mod p -- the only "
               "update kinds that commute; the foreign-key update and the table insertion are dominated by a successful "
               "KeyGenerationProtocol_VerifyNIZK of the very value multiplied in; removal inverts the stored value, requires a known "
               "fingerprint and erases the entry, and on every accepting path of a removal (update) the key left behind is h*stored^-1 (h*key) "
               "and nothing else; Finalize rebuilds the fixed-base table from h. Equality of the keys different players "
               "hold then follows from commutativity and is not itself decided.")
ASSUMPTIONS = ["group multiplication modulo p is commutative and associative (algebra, not checked)", "std::map semantics"]
