"""C13 Point-to-point channels deliver intact, in order, exactly once (structural part).

For both channel implementations (select / nonblock):
R13a authentication gate: with authentication enabled, the received integer is written and
     'true' is returned only through the success edge of gcry_mac_verify (path check with the
     'discard' flag tracked),
R13b MAC coverage and counters: sender and receiver MAC the line, the delimiter and the
     per-link sequence number; the receiver's counter advances only on the success edge, the
     sender's once per message,
R13c framing: a message is parsed only when the line delimiter and maclen further octets are
     buffered; the remainder is moved by the amount the buffer pointer is set to,
R13d bounded read: read(fd, buf+ptr, size-ptr) into buffers allocated with that size,
R13e length hiding is added on send and removed on receive under the same condition,
R13h every write() of the sending routine continues at base + done with total - done octets."""
from .. import pathcheck
from ..facts import walk, AnalysisBroken

CLASSES = ('aiounicast_select', 'aiounicast_nonblock')


def scalar_overload(prog, cls, name):
    fs = [f for f in prog.by_q.get('%s::%s' % (cls, name), []) if f['params'] and '__mpz_struct' in f['params'][0]['t'] and 'vector' not in f['params'][0]['t']]
    if not fs:
        raise AnalysisBroken('%s::%s(mpz, ...) not found' % (cls, name))
    return fs[0]


def run(ctx):
    prog = ctx.prog
    results = {}
    for cls in CLASSES:
        recv = scalar_overload(prog, cls, 'Receive')
        send = scalar_overload(prog, cls, 'Send')
        results[cls] = (r13a(ctx, cls, recv), r13b(ctx, cls, send, recv), r13c(ctx, cls, recv), r13d(ctx, cls, recv), r13e(ctx, cls, send, recv),
                        r13g(ctx, cls, recv), r13h(ctx, cls, send), r13i(ctx, cls, recv))
    # R13f sibling agreement: both implementations satisfy the same set of rules
    ok = results[CLASSES[0]] == results[CLASSES[1]]
    (ctx.ok if ok else ctx.bad)('R13f', 'R13f:siblings', 'select and nonblock channel agree on every rule verdict' if ok else
                                'the two channel implementations differ in their gate / framing / pairing structure: %s' % (results,), nec=False)


def r13i(ctx, cls, f):
    """after a frame has been consumed the rest of the buffer stays marked "scan me" unless it cannot hold a complete frame:
    buf_flag is cleared there only under a condition on the remainder wnum that implies wnum < maclen + 2 (one digit, the
    delimiter, the tag).  The condition is read off the must-facts of the clearing write and evaluated over wnum = 0..200 and
    maclen in {0, 16, 20, 32, 64}; a remainder that is exactly one minimal frame must not be put to sleep -- it would be
    parsed only when further octets arrive on that link, i.e. never if the sender has nothing more to say."""
    a = ctx.analysis(f)
    T = a.T
    ml = T.mk('this', 'maclen')
    n = 0
    bad = None
    for nid, ev in a.all_events('write'):
        if not (ev[1][0] == 'e' and ev[1][1] == ('m', 'buf_flag')) or T.node(ev[2]) != ('bool', False):
            continue
        st = a.instate[nid]
        w = [v for l, v in st.env.items() if l[0] == 'v' and l[-1] == 'wnum']
        if not w:
            continue            # the clearing at "no delimiter found": nothing was consumed
        wt = w[0]
        n += 1

        def val(t, wv, mv):
            if t == wt:
                return wv
            if t == ml:
                return mv
            nn = T.node(t)
            if nn[0] == 'int':
                return nn[1]
            if nn[0] == 'op' and nn[1] in ('+', '-'):
                x, y = val(nn[2], wv, mv), val(nn[3], wv, mv)
                if x is None or y is None:
                    return None
                return x + y if nn[1] == '+' else x - y
            if nn[0] in ('add',) and len(nn) == 3:
                x, y = val(nn[1], wv, mv), val(nn[2], wv, mv)
                return None if x is None or y is None else x + y
            return None
        conds = []
        for fa in st.facts:
            fn_ = T.node(fa)
            if fn_[0] == 'rel' and (T.contains(fa, lambda z: z == T.node(wt)) or fn_[2] == wt or fn_[3] == wt):
                conds.append(fn_)
        for mv in (0, 16, 20, 32, 64):
            for wv in range(0, 201):
                holds = True
                for fn_ in conds:
                    x, y = val(fn_[2], wv, mv), val(fn_[3], wv, mv)
                    if x is None or y is None:
                        continue
                    if not {'<': x < y, '<=': x <= y, '==': x == y, '!=': x != y}[fn_[1]]:
                        holds = False
                if holds and not conds:
                    holds = True
                if holds and wv >= mv + 2:
                    bad = (wv, mv, ev[3])
                    break
            if bad:
                break
    key = 'R13i:%s:rescan' % cls
    if n == 0:
        ctx.note('R13i', key, 'no clearing of the rescan flag after a consumed frame found; not evaluated', f)
    elif bad:
        ctx.bad('R13i', key, 'after a frame was consumed the rescan flag is cleared (line %d) although the remainder can hold a complete frame: e.g. %d octets left with a '
                '%d-octet tag -- that frame is parsed only when more octets arrive on the link' % (bad[2], bad[0], bad[1]), f, line=bad[2])
    else:
        ctx.ok('R13i', key, 'the rescan flag is cleared after a consumed frame only when fewer than maclen + 2 octets remain', f)
    ctx.floor('R13i:%s' % cls, n, 1)
    return bad is None


def verify_branches(a):
    """(branch node, ok edge index) for tests of the gcry_mac_verify result"""
    T = a.T
    out = []
    for nid, ev in a.all_events('branch'):
        c = ev[1]
        if T.contains(c, lambda n: n[0] == 'callr' and n[1] == 'gcry_mac_verify'):
            cn = T.node(c)
            ok_idx = 1          # 'if (err)' : success is the false edge
            if cn[0] == 'not' or (cn[0] == 'rel' and cn[1] == '==' and (T.is_int(cn[2], 0) or T.is_int(cn[3], 0))):
                ok_idx = 0
            out.append((nid, ok_idx))
    return out


def r13a(ctx, cls, f):
    a = ctx.analysis(f)
    T = a.T
    key0 = 'R13a:' + cls
    vb = verify_branches(a)
    if not vb:
        ctx.bad('R13a', key0 + ':verify', 'Receive no longer verifies a MAC', f)
        return False
    mparam = f['params'][0]
    mloc = ('v', mparam['id'], mparam['n'])
    writes = set(nid for nid, ev in a.all_events('write') if ev[1] == mloc)
    rets = set(n.id for n, kind, val, st in a.exits() if kind == 'return' and val is not None and T.node(val) == ('bool', True))
    cut = [(nid, ok) for nid, ok in vb]
    hit = pathcheck.reach(a, writes | rets, cut=cut, member_flags={'aio_is_authenticated': True})
    okw = not (hit & writes)
    okr = not (hit & rets)
    byid = {n.id: n for n in a.cfg.rpo}
    (ctx.ok if okw else ctx.bad)('R13a', key0 + ':write', 'with authentication on, the output integer is written only after gcry_mac_verify succeeded' if okw else
                                 'with authentication on, the received value is converted into the output at line %s on a path that does not pass a successful MAC verification' % (
                                     sorted(byid[h].line for h in hit & writes)[:3],), f)
    (ctx.ok if okr else ctx.bad)('R13a', key0 + ':return', 'with authentication on, true is returned only after gcry_mac_verify succeeded' if okr else
                                 'with authentication on, Receive can return true without a successful MAC verification (line %s)' % (sorted(byid[h].line for h in hit & rets)[:3],), f)
    # the failure edge marks the link as bad
    okb = False
    for nid, ev in a.all_events('write'):
        if ev[1][0] == 'e' and ev[1][1] == ('m', 'bad_auth') and T.node(ev[2]) == ('bool', True):
            okb = True
    (ctx.ok if okb else ctx.bad)('R13a', key0 + ':bad_auth', 'a failed verification marks the link (bad_auth)' if okb else 'failed verification no longer marks the link', f, nec=False)
    return okw and okr


def mac_writes(a, member):
    """data argument terms of gcry_mac_write calls on the given MAC handle member"""
    T = a.T
    out = []
    for nid, ev in a.all_events('call'):
        if ev[1] == 'gcry_mac_write' and len(ev[2]) >= 3:
            out.append((nid, ev[2][1], ev[2][2], ev[3]))
    return out


def depends_on_member(a, t, name):
    T = a.T
    return T.contains(t, lambda n: n == ('this', name)) or any(
        T.node(x)[0] == 'phi' and isinstance(T.node(x)[2], tuple) and name in str(T.node(x)[2]) for x in T.subterms(t))


def r13b(ctx, cls, send, recv):
    ok_all = True
    for f, sq, role in ((send, 'mac_sqn_out', 'sender'), (recv, 'mac_sqn_in', 'receiver')):
        a = ctx.analysis(f)
        T = a.T
        ws = mac_writes(a, None)
        has_sqn = any(depends_on_member(a, d, sq) for nid, d, ln, line in ws)
        key = 'R13b:%s:%s' % (cls, role)
        if len(ws) >= 2 and has_sqn:
            ctx.ok('R13b', key + ':sqn', '%s MACs %d pieces including the per-link sequence number' % (role, len(ws)), f)
        else:
            ok_all = False
            ctx.bad('R13b', key + ':sqn', '%s no longer includes the sequence number %s in the MAC (replayed / reordered messages would verify)' % (role, sq), f)
        # unambiguous MAC input: line and sequence number are both variable-length base-62 text, so the
        # delimiter has to stand between them -- the sequence number is the last piece, after the
        # delimiter-terminated line
        pos = a._rpo_pos()
        wso = sorted(ws, key=lambda x: pos.get(x[0], 0))
        if has_sqn and len(wso) >= 2:
            last_is_sqn = depends_on_member(a, wso[-1][1], sq)
            delim_before = any((T.is_int(ln, 1) and T.is_int(d, 10)) or T.contains(d, lambda z: z == ('int', 10)) for nid, d, ln, line in wso[:-1])
            if last_is_sqn and delim_before:
                ctx.ok('R13b', key + ':order', 'the MAC input is line, delimiter, sequence number (unambiguous)', f)
            else:
                ok_all = False
                ctx.bad('R13b', key + ':order', 'the sequence number is not MACed after the delimiter-terminated line: line and sequence number are both '
                        'base-62 text, without the delimiter between them different (line, number) pairs have the same MAC input', f)
        # counter updates
        upd = [(nid, ev) for nid, ev in a.all_events('write') if ev[1][0] == 'e' and ev[1][1] == ('m', sq)]
        if role == 'receiver':
            vb = verify_branches(a)
            hit = pathcheck.reach(a, set(n for n, e in upd), cut=[(n, ok) for n, ok in vb], member_flags={'aio_is_authenticated': True})
            okc = bool(upd) and not hit
            if okc:
                ctx.ok('R13b', key + ':counter', 'the sequence counter advances only after a successful verification', f)
            else:
                ok_all = False
                ctx.bad('R13b', key + ':counter', 'the receive counter %s' % ('is never advanced' if not upd else 'advances on a path without successful verification'), f)
        else:
            okc = len(set(ev[3] for n, ev in upd)) == 1
            if okc:
                ctx.ok('R13b', key + ':counter', 'the send counter advances once per message', f)
            else:
                ok_all = False
                ctx.bad('R13b', key + ':counter', 'the send counter is updated at %d sites (expected one per message)' % len(set(ev[3] for n, ev in upd)), f)
    return ok_all


def r13c(ctx, cls, f):
    a = ctx.analysis(f)
    T = a.T
    key0 = 'R13c:' + cls
    ok_all = True
    # first statement that copies the tag out of the buffer: memcpy(mac, buf + tmplen, maclen)
    site = None
    for nid, ev in a.all_events('call'):
        if ev[1] == 'memcpy' and len(ev[2]) == 3 and ev[2][2] == T.mk('this', 'maclen'):
            site = (nid, ev)
    if site is None:
        ctx.bad('R13c', key0 + ':tag', 'the authentication tag is no longer taken from the buffer with its configured length (anchor changed)', f, nec=False)
        return False
    st = a.instate[site[0]]
    maclen = T.mk('this', 'maclen')
    okg = False
    for fa in st.facts:
        n = T.node(fa)
        if n[0] == 'rel' and n[1] in ('<=', '<') and maclen in T.subterms(n[2]) and depends_on_member(a, n[3], 'buf_ptr'):
            okg = True
    nl = any(T.node(fa)[0] == 'truthy' for fa in st.facts)
    if okg:
        ctx.ok('R13c', key0 + ':complete', 'a message is parsed only when maclen octets follow the line delimiter in the buffer', f, line=site[1][3])
    else:
        ok_all = False
        ctx.bad('R13c', key0 + ':complete', 'the buffer is split into message and tag without checking that the whole tag has arrived', f, line=site[1][3])
    # remainder handling: memmove count == new buf_ptr
    mv = [ev for nid, ev in a.all_events('call') if ev[1] == 'memmove' and len(ev[2]) == 3]
    bp = [ev for nid, ev in a.all_events('write') if ev[1][0] == 'e' and ev[1][1] == ('m', 'buf_ptr')]
    okm = any(any(m[2][2] == w[2] for w in bp) for m in mv)
    if okm:
        ctx.ok('R13c', key0 + ':remainder', 'the remainder is moved to the front and the buffer pointer set to the same amount', f)
    else:
        ok_all = False
        ctx.bad('R13c', key0 + ':remainder', 'the amount moved to the front of the buffer differs from the new buffer pointer', f)
    return ok_all


def r13d(ctx, cls, f):
    a = ctx.analysis(f)
    T = a.T
    key0 = 'R13d:' + cls
    okv = False
    line = None
    for nid, ev in a.all_events('call'):
        if ev[1] == 'read' and len(ev[2]) == 3:
            line = ev[3]
            cnt = T.node(ev[2][2])
            ptr = T.node(ev[2][1])
            if cnt[0] == 'op' and cnt[1] == '-' and cnt[2] == T.mk('this', 'buf_in_size'):
                X = cnt[3]
                if ptr[0] == 'op' and ptr[1] == '+' and X in (ptr[2], ptr[3]):
                    okv = True
    if okv:
        ctx.ok('R13d', key0 + ':read', 'read() is limited to the free space buf_in_size - buf_ptr at buf + buf_ptr', f, line=line)
    else:
        ctx.bad('R13d', key0 + ':read', 'read() into the link buffer is not bounded by buf_in_size - buf_ptr', f, line=line)
    # buffers allocated with buf_in_size
    prog = ctx.prog
    oka = False
    for c in prog.by_q.get('%s::%s' % (cls, cls), []):
        b = ctx.analysis(c)
        Tb = b.T
        for nid, ev in b.all_events('alloc'):
            sz = ev[1]
            if sz == b.instate[nid].env.get(('m', 'buf_in_size'), Tb.mk('this', 'buf_in_size')):
                oka = True
    (ctx.ok if oka else ctx.bad)('R13d', key0 + ':alloc', 'link buffers are allocated with buf_in_size octets' if oka else 'link buffers are not allocated with buf_in_size', f)
    return okv and oka


def r13h(ctx, cls, f):
    """a message is handed to the transport in pieces: each write() of the sending routine takes
    `total - done` octets from `base + done` with one and the same progress counter, which the
    octets written are added to -- after a short write the rest of the message follows, not its head"""
    a = ctx.analysis(f)
    T = a.T
    n = 0
    allok = True
    occ = 0
    for nid, ev in sorted(a.all_events('call'), key=lambda x: (x[1][3], x[0])):
        if ev[1] != 'write' or len(ev[2]) != 3:
            continue
        occ += 1
        ptr, cnt = T.node(ev[2][1]), T.node(ev[2][2])
        key = 'R13h:%s:write#%d' % (cls, occ)
        n += 1
        done = None
        if cnt[0] == 'op' and cnt[1] == '-' and T.op(cnt[3]) == 'phi':
            done = cnt[3]
        if done is None:
            allok = False
            ctx.bad('R13h', key, 'the length handed to write() is not `total - done` with a progress counter: a short write loses or repeats octets', f, line=ev[3])
        elif not (ptr[0] == 'op' and ptr[1] == '+' and done in (ptr[2], ptr[3])):
            allok = False
            ctx.bad('R13h', key, 'write() takes `total - done` octets but not from `base + done` (source %s): after a short write the head of the message is sent again and its tail never' %
                    T.show(ev[2][1], 3), f, line=ev[3])
        else:
            # the counter starts at 0 and grows by what write() returned
            def srcs(t, seen):
                nn = T.node(t)
                if nn[0] != 'phi':
                    return {t}
                if t in seen:
                    return set()
                seen.add(t)
                out = set()
                for y in T.phi_src.get((nn[1], nn[2]), ()):
                    out |= srcs(y, seen)
                return out
            ss = srcs(done, set())
            adv = [x for x in ss if not T.is_int(x, 0)]
            good = any(T.is_int(x, 0) for x in ss) and adv and all(
                T.node(x)[0] == 'op' and T.node(x)[1] == '+' and any(T.op(y) == 'phi' for y in T.node(x)[2:]) and
                any(T.op(y) == 'callr' and T.node(y)[1] == 'write' for y in T.node(x)[2:]) for x in adv)
            if good:
                ctx.ok('R13h', key, 'write() continues at base + done with total - done octets; done starts at 0 and grows by the octets written', f, line=ev[3])
            else:
                allok = False
                ctx.bad('R13h', key, 'the progress counter of this write loop is not `0, then += octets written` (sources: %s)' % ', '.join(T.show(x, 3) for x in ss), f, line=ev[3])
    ctx.floor('R13h:' + cls, n, 3)
    return allok


def r13g(ctx, cls, f):
    """the initialisation vector is taken off the stream as soon as blklen octets have
    *accumulated* in the link buffer: the guard of the removal compares blklen with the buffer
    fill, and with nothing else (a guard on the size of the last read starves a trickling link)"""
    a = ctx.analysis(f)
    T = a.T
    blk = T.mk('this', 'blklen')
    key0 = 'R13g:' + cls
    sites = []
    for nid, ev in a.all_events('call'):
        # memmove(buf, buf + blklen, n): the IV is removed from the front of the buffer
        if ev[1] == 'memmove' and len(ev[2]) == 3:
            src = T.node(ev[2][1])
            if src[0] == 'op' and src[1] == '+' and blk in (src[2], src[3]):
                sites.append((nid, ev))
    if not sites:
        ctx.bad('R13g', key0 + ':iv', 'removal of the initialisation vector from the link buffer not found (anchor changed)', f, nec=False)
        return False
    ok_all = True
    for nid, ev in sites:
        st = a.instate[nid]
        fill = a.read(('e', ('m', 'buf_ptr'), '*'), st)
        others = []
        has = False
        for fa in st.facts:
            n = T.node(fa)
            if n[0] == 'rel' and n[1] in ('<=', '<') and n[2] == blk:
                rhs = n[3]
                if rhs == fill:
                    has = True
                else:
                    others.append(T.show(rhs, 3))
        # the octets handed to the cipher as IV are the ones removed: gcry_cipher_setiv(h, P, blklen) with
        # P the very front of the buffer the remainder is moved to (not the position of the last read)
        dst = ev[2][0]
        ivsrc = [e2 for n2, e2 in a.all_events('call') if e2[1] == 'gcry_cipher_setiv' and len(e2[2]) == 3 and e2[2][2] == blk]
        if not ivsrc:
            ctx.bad('R13g', key0 + ':ivsrc', 'no gcry_cipher_setiv with blklen octets in the receive path (anchor changed)', f, line=ev[3], nec=False)
        elif any(e2[2][1] != dst for e2 in ivsrc):
            ok_all = False
            ctx.bad('R13g', key0 + ':ivsrc', 'the cipher is given %s as initialisation vector, but the octets removed as IV are the front of the buffer (%s): '
                    'when the IV arrives in several reads the two differ and decryption starts from a wrong IV' % (
                        T.show([e2[2][1] for e2 in ivsrc if e2[2][1] != dst][0], 3), T.show(dst, 3)), f, line=ev[3])
        else:
            ctx.ok('R13g', key0 + ':ivsrc', 'the IV handed to the cipher is the front of the link buffer, the same octets that are removed', f, line=ev[3])
        if has and not others:
            ctx.ok('R13g', key0 + ':iv', 'the IV is consumed exactly when blklen octets have accumulated in the buffer', f, line=ev[3])
        else:
            ok_all = False
            ctx.bad('R13g', key0 + ':iv', 'the IV is taken off the buffer under a guard that is not "buffer fill >= blklen"%s: a link whose reads are all shorter than the block length never starts delivering' % (
                (' (guard on %s)' % ', '.join(others)) if others else ''), f, line=ev[3])
    return ok_all


def r13e(ctx, cls, send, recv):
    a, b = ctx.analysis(send), ctx.analysis(recv)
    hide = 'aio_hide_length'

    def guarded_ops(an, opname):
        T = an.T
        out = []
        for nid, ev in an.all_events('write'):
            n = T.node(ev[2])
            if n[0] == opname and T.mk('this', hide) in n[1:]:
                st = an.instate[nid]
                enc = any(T.node(fa) == ('truthy', T.mk('this', 'aio_is_encrypted')) for fa in st.facts)
                out.append(enc)
        return out
    adds = guarded_ops(a, 'add')
    subs = guarded_ops(b, 'sub')
    key0 = 'R13e:' + cls
    ok = (len(adds) == len(subs)) and all(adds) == all(subs) and (len(adds) > 0) == (len(subs) > 0)
    if ok:
        ctx.ok('R13e', key0 + ':hide', 'the length-hiding offset is added on send and removed on receive under the same condition', send)
    else:
        ctx.bad('R13e', key0 + ':hide', 'length hiding is applied on one side only or under different conditions (adds %s, subs %s): values change in transit' % (adds, subs), recv)
    return ok


EXPLANATION = ("Static structure check of both channel implementations: a flag-aware must-pass-through analysis shows that with authentication "
               "enabled the output integer is written, true is returned and the receive counter advances only through the success edge of "
               "gcry_mac_verify; sender and receiver feed line, delimiter and per-link sequence number to the MAC; the tag is taken only when "
               "maclen octets follow the delimiter and the remainder is moved by the amount the pointer is set to; read() is bounded by the "
               "free space of a buffer allocated with that size; length hiding is applied symmetrically; the two siblings agree. Delivery "
               "under all fragmentations and schedules is not decided.")
ASSUMPTIONS = ["libgcrypt MAC/cipher primitives behave as documented", "local bool flags assigned only literals are tracked path-sensitively, everything else path-insensitively"]
