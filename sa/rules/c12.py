"""C12 Untrusted input never corrupts memory or kills the process (closed list of sink kinds).

Taint: values read from a stream, string / octet parameters of importers and decoders, and
(interprocedurally, by parameter) whatever such values are passed to.
 S1 assert whose condition depends on tainted data needs an explicit dominating guard,
 S2 element access with tainted index or on a tainted container needs index < capacity
    (linear prover over the must-facts; wire-facing decoders and verifiers),
 S3 a wire value used as modulus / divisor needs a non-zero fact,
 S4 no null-pointer constant is passed to a GMP primitive,
 S5 allocation sizes, VLA sizes, resize arguments taken from decoded integers need an upper bound,
 S2h a variadic hash never reads more arguments than were passed."""
import re
from .. import bounds
from ..facts import walk, AnalysisBroken
from ..sym import locname

DECODER_RE = re.compile(r'(Decode|BodyExtract|NotRadix64|ArmorDecode|CRC24|SymmetricDecrypt)')
IMPORT_RE = re.compile(r'(::import$|^operator>>$)')
# (function, container, index role): sites the linear prover cannot discharge, triaged by reading
S2_EXCEPTIONS = {
    ('CallasDonnerhackeFinneyShawThayerRFC4880::Radix64Decode', 'in'):
        'i+j < len+pad: the string is padded to a multiple of four before the loop (i steps by 4, j < 4)',
    ('CallasDonnerhackeFinneyShawThayerRFC4880::Radix64Decode', 'tmcg_openpgp_fRadix64'):
        'the string was filtered by NotRadix64: only alphabet characters and "=" (all below 128) remain, the table has 256 entries',
    ('CallasDonnerhackeFinneyShawThayerRFC4880::SubpacketDecode', 'in'):
        'headlen is 2, 3 or 6 and each branch checked in.size() >= 2, 3, 6 before (path-correlated, read: lines 10879-10906)',
}
S1_EXCEPTIONS = {
    ('SchindelhauerTMCG::TMCG_MaskCard', 'dims'):
        'card secrets reach MaskCard from the cut-and-choose verifier only after it compared their dimensions with TMCG_Players / TMCG_TypeBits '
        '(fix 13def68, frozen in the C04 inventory); cards are caller objects',
}
S2_CHAIN_EXCEPTIONS = {
    ('SchindelhauerTMCG::TMCG_MaskCard', 'cs.r'): 'dimensions of the card secret equal those of the card: checked by the verifier before mixing (fix 13def68) and asserted here',
    ('SchindelhauerTMCG::TMCG_MaskCard', 'cs.r[*]'): 'same',
    ('SchindelhauerTMCG::TMCG_MaskCard', 'cs.b'): 'same',
    ('SchindelhauerTMCG::TMCG_MaskCard', 'cs.b[*]'): 'same',
    ('SchindelhauerTMCG::TMCG_MixStack', 's'): 'ss[i].first < ss.size() is guaranteed by TMCG_StackSecret::import (C02 R02a) and ss.size() == s.size() by the '
                                               'verifier before the call (S1 guard at the call site)',
    ('SchindelhauerTMCG::TMCG_VerifyStackEquality', 'ss[*].second.r'): 'r[0] is evaluated only after r.size() == TMCG_Players (short-circuit), and a scheme has at least one player',
}
STRINGISH = ('std::basic_string<char>', 'const std::basic_string<char> &', 'std::basic_string<char> &',
             'const std::vector<unsigned char> &', 'std::vector<unsigned char> &', 'std::vector<unsigned char>')


def run(ctx):
    prog = ctx.prog
    off = prog.offered()
    taint = param_taint(ctx)
    ctx.info['tainted_parameters'] = sum(len(v) for v in taint.values())
    s2(ctx, taint, off)
    s1(ctx, taint, off)
    s3(ctx, taint, off)
    s4(ctx)
    s5(ctx, taint, off)
    s2h(ctx)
    s7(ctx, taint, off)
    s9(ctx)
    s8(ctx)
    s2t(ctx)
    s3n(ctx)


# ---------------------------------------------------------------------------------- taint
def entry_tainted_params(f):
    """parameters that carry untrusted bytes by declaration"""
    out = set()
    q = f['q']
    if 'RFC4880' in f['file'] and DECODER_RE.search(q.split('::')[-1]):
        for p in f['params']:
            if p['t'] in STRINGISH or 'unsigned char' in p['t'] and 'vector' in p['t']:
                out.add(p['n'])
    if 'RFC4880' in f['file'] and q.split('::')[-1] == 'NotRadix64':
        for p in f['params']:
            out.add(p['n'])
    if 'RFC4880' in f['file'] and 'SymmetricDecrypt' in q:
        for p in f['params']:
            if p['n'] in ('chunksize',):
                out.add(p['n'])
    if IMPORT_RE.search(q) or q.split('::')[-1] == 'import':
        for p in f['params']:
            if 'basic_string' in p['t']:
                out.add(p['n'])
    if q.startswith('TMCG_ParseHelper::'):
        for p in f['params']:
            if 'basic_string' in p['t']:
                out.add(p['n'])
    return out


def is_tainted(a, t, tp):
    """value taint: depends on untrusted bytes, not counting what is behind a hash and not counting
    the size() of a container whose shape is not untrusted"""
    T = a.T
    seen = set()
    st = [t]
    while st:
        x = st.pop()
        if x in seen:
            continue
        seen.add(x)
        n = T.node(x)
        o = n[0]
        if o == 'wire':
            return True
        if o == 'param' and n[1] in tp:
            return True
        if o == 'hash':
            continue
        if o == 'mc' and n[1].split('::')[-1] in ('size', 'length', 'empty'):
            if shape_tainted(a, n[2], tp):
                return True
            continue
        if o == 'phi':
            st.extend(T.phi_src.get((n[1], n[2]), ()))
        elif o not in ('int', 'str', 'bool', 'this', 'param', 'sym', 'iv', 'local', 'glob', 'null', 'rand', 'new', 'float', 'thisobj'):
            from ..sym import RAWARGS
            raw = RAWARGS.get(o, ())
            st.extend(y for i, y in enumerate(n[1:]) if isinstance(y, int) and not isinstance(y, bool) and i not in raw)
    return False


def shape_tainted(a, t, tp):
    """the object (its size / dimensions) was deserialised from untrusted bytes: rooted at a wire
    read of a whole object, or at an untrusted string / octet parameter"""
    T = a.T
    seen = set()
    st = [t]
    while st:
        x = st.pop()
        if x in seen:
            continue
        seen.add(x)
        n = T.node(x)
        o = n[0]
        if o == 'wire':
            if '[' not in str(n[2]):
                return True
            continue
        if o == 'param':
            if n[1] in tp:
                return True
            continue
        if o in ('fld', 'elem', 'ix', 'upd', 'agg', 'cat'):
            st.append(n[1])
        elif o == 'phi':
            st.extend(T.phi_src.get((n[1], n[2]), ()))
        elif o == 'out':
            st.extend(y for y in n[3:] if isinstance(y, int) and not isinstance(y, bool))
    return False


def param_taint(ctx):
    prog = ctx.prog
    taint = {}
    for k, f in prog.funcs.items():
        s = entry_tainted_params(f)
        if s:
            taint[k] = set(s)
    work = set(prog.funcs.keys())
    rounds = 0
    while work and rounds < 6:
        rounds += 1
        nxt = set()
        for k in list(work):
            f = prog.funcs[k]
            if not f.get('body'):
                continue
            if 'RFC4880' in f['file'] and not (DECODER_RE.search(f['q']) or 'Parse' in f['q'] or k in taint):
                continue
            a = ctx.analysis(f)
            tp = taint.get(k, set())
            has_wire = bool(a.wire_sites)
            if not tp and not has_wire:
                continue
            for nid, ev in list(a.all_events('call')) + list(a.all_events('mcall')):
                if ev[0] == 'call':
                    fid, args = ev[4], ev[2]
                else:
                    fid, args = ev[5], ev[3]
                g = prog.funcs.get(fid)
                if g is None:
                    continue
                for i, t in enumerate(args):
                    if i < len(g['params']) and (shape_tainted(a, t, tp) or (is_tainted(a, t, tp) and scalar_param(g['params'][i]))):
                        pn = g['params'][i]['n']
                        if pn not in taint.setdefault(fid, set()):
                            taint[fid].add(pn)
                            nxt.add(fid)
        work = nxt
    return taint


def scalar_param(p):
    t = p['t']
    return not ('vector' in t or 'TMCG_Stack' in t or 'Card' in t or 'basic_string' in t or 'std::map' in t or 'std::pair' in t)


def in_scope(f, off):
    return f['key'] in off


_FPOWM_ROWS = {}


def fpowm_rows(prog):
    """value of TMCG_MAX_FPOWM_T as the source uses it (the row count every fixed-base table is allocated with)"""
    if id(prog) not in _FPOWM_ROWS:
        v = None
        for f in prog.funcs.values():
            if f.get('body') and f['file'].endswith('mpz_spowm.cc'):
                for e in walk(f['body']):
                    if e.get('k') == 'int' and e.get('m') == 'TMCG_MAX_FPOWM_T':
                        v = e['v']
        _FPOWM_ROWS[id(prog)] = v
    return _FPOWM_ROWS[id(prog)]


# ---------------------------------------------------------------------------------- S2
def s2(ctx, taint, off):
    prog = ctx.prog
    n = 0
    nd = 0
    per = {}
    for k, f in prog.funcs.items():
        if not f.get('body') or k not in off or prog.is_helper(f):
            continue
        short = f['q'].split('::')[-1]
        is_dec = 'RFC4880' in f['file'] and DECODER_RE.search(short) and 'SymmetricDecrypt' not in short
        tp = taint.get(k, set())
        if not is_dec and not tp and not (f['ret'] == 'bool' and any('istream' in p['t'] for p in f['params'])):
            continue
        if 'RFC4880' in f['file'] and not is_dec:
            continue
        a = ctx.analysis(f)
        T = a.T
        a.fpowm_rows = fpowm_rows(prog)
        seen = set()
        occ = {}
        for nid, ev in sorted(a.all_events('index'), key=lambda x: (x[1][3], x[0])):
            bl, it, line, bt = ev[1], ev[2], ev[3], ev[4]
            if it is None or bt is None:
                continue
            st = a.instate[nid]
            cval = a.read(bl, st) if bl is not None else None
            tainted_idx = is_tainted(a, it, tp)
            tainted_base = cval is not None and shape_tainted(a, cval, tp)
            if not (tainted_idx or tainted_base or is_dec):
                continue
            if 'std::map' in bt or 'std::_Rb_tree' in bt:
                continue
            key0 = 'S2:%s:%s:%s' % (f['q'], locname(bl) if bl else '?', T.show(it, 2)[:40])
            # the k-th access with this container and index role in the function (no line numbers in keys)
            occ[key0] = occ.get(key0, 0) + 1
            key = '%s#%d' % (key0, occ[key0])
            if (key0, line) in seen:
                continue
            seen.add((key0, line))
            n += 1
            if bounds.index_ok(a, st, bl, bt, it):
                nd += 1
                per[f['q']] = per.get(f['q'], 0) + 1
                ctx.ok('S2', key, 'index < capacity follows from the guards on the path', f, line=line)
                continue
            exc = S2_EXCEPTIONS.get((f['q'], locname(bl) if bl else '?')) or S2_CHAIN_EXCEPTIONS.get((f['q'], locname(bl) if bl else '?'))
            if exc:
                ctx.note('S2', key, 'not proved by the linear prover; triaged by reading: ' + exc, f, line=line)
                continue
            ctx.bad('S2', key, 'element access %s[%s] is reachable with untrusted data and no guard on the path establishes index < size' % (
                locname(bl) if bl else '?', T.show(it, 3)), f, line=line)
    ctx.ok('S2', 'S2:summary', '%d element accesses on/with untrusted data discharged by guards (of %d)' % (nd, n))
    ctx.info['S2_discharged_per_function'] = dict(sorted(per.items(), key=lambda kv: -kv[1])[:40])
    ctx.info['S2_sites'] = n
    ctx.floor('S2', nd, 230)


# ---------------------------------------------------------------------------------- S1
def s1(ctx, taint, off):
    prog = ctx.prog
    n = 0
    for k, f in prog.funcs.items():
        if not f.get('body') or k not in off or prog.is_helper(f):
            continue
        tp = taint.get(k, set())
        a = None
        has_assert = any(e.get('k') == 'assert' for e in walk(f['body']))
        if not has_assert:
            continue
        a = ctx.analysis(f)
        T = a.T
        if not tp and not a.wire_sites:
            continue
        for nid, ev in a.all_events('assert'):
            cond, line = ev[1], ev[2]
            if not is_tainted(a, cond, tp):
                continue
            n += 1
            st = a.instate[nid]
            key = 'S1:%s:%s' % (f['q'], T.show(cond, 3)[:60])
            if cond in st.facts or implied(a, cond, st):
                ctx.ok('S1', key, 'assertion on untrusted data is dominated by an explicit guard', f, line=line)
            else:
                # a tainted *parameter* condition may be guarded by every caller
                if guarded_by_callers(ctx, f, a, cond, tp, taint):
                    ctx.ok('S1', key, 'assertion on untrusted data is guarded at every call site that passes untrusted data', f, line=line)
                elif restates_postcondition(a, nid, cond, tp):
                    ctx.note('S1', key, 'the assertion restates, in terms of the object\'s own members, a postcondition of the member function called just before with '
                             'these very values (%s): it is the callee that establishes it, not input validation; not proven here' % restates_postcondition(a, nid, cond, tp), f, line=line)
                elif (f['q'], 'dims') in S1_EXCEPTIONS and T.contains(cond, lambda nn: nn[0] == 'mc' and nn[1].endswith('::size')):
                    ctx.note('S1', key, 'not discharged mechanically; triaged by reading: ' + S1_EXCEPTIONS[(f['q'], 'dims')], f, line=line)
                else:
                    ctx.bad('S1', key, 'assert(%s) is reachable with untrusted data and only the assertion guards it (abort, or out-of-bounds with NDEBUG)' % T.show(cond, 4), f, line=line)
    ctx.info['S1_tainted_asserts'] = n


def restates_postcondition(a, nid, cond, tp):
    """name of a non-const member function of this object called at a dominator of the assertion
    whose arguments are exactly the untrusted values the asserted relation mentions, every other leaf
    being a member of this object: assert(r.size() == k) after resize(k, w)"""
    T = a.T
    n = T.node(cond)
    if n[0] != 'rel':
        return None
    doms = set(a.dominators_of(nid, 100000))
    for n2, ev in a.all_events('selfcall'):
        if n2 not in doms or n2 == nid:
            continue
        args = set(ev[2])
        sides = (n[2], n[3])
        arg_side = [x for x in sides if x in args]
        mem_side = [x for x in sides if x not in args]
        if len(arg_side) == 1 and len(mem_side) == 1 and not is_tainted(a, mem_side[0], tp) and \
                T.contains(mem_side[0], lambda z: z[0] == 'this') and not T.contains(mem_side[0], lambda z: z[0] in ('param', 'wire')):
            return ev[1].split('::')[-1]
    return None


def implied(a, cond, st):
    T = a.T
    n = T.node(cond)
    if n[0] == 'rel':
        cons = bounds.constraints(a, st)
        cons = cons + bounds.atom_constraints(a, bounds.atoms_of(cons))
        x, y = bounds.upoly(a, n[2]), bounds.upoly(a, n[3])
        if n[1] == '==':
            return bounds.prove_ge0(bounds.sub(x, y), cons) and bounds.prove_ge0(bounds.sub(y, x), cons)
        if n[1] == '<=':
            return bounds.prove_ge0(bounds.sub(y, x), cons)
        if n[1] == '<':
            g = bounds.sub(y, x)
            from ..core import padd
            from fractions import Fraction
            padd(g, {(): Fraction(1)}, -1)
            return bounds.prove_ge0(g, cons)
    return False


def translate(a_src, t, a_dst, subst):
    """rebuild a callee term in the caller's term table, parameters replaced by argument terms"""
    Ts, Td = a_src.T, a_dst.T
    memo = {}

    def rec(x):
        if x in memo:
            return memo[x]
        n = Ts.node(x)
        o = n[0]
        if o == 'param' and n[1] in subst:
            r = subst[n[1]]
        elif o in ('int', 'bool', 'str', 'this', 'glob', 'null', 'thisobj'):
            r = Td.mk(*n)
        elif o in ('phi', 'iv', 'wire', 'rand', 'local', 'sym', 'new', 'param', 'float'):
            r = Td.mk('sym', 'callee', str(n))
        else:
            from ..sym import RAWARGS
            raw = RAWARGS.get(o, ())
            args = tuple(rec(y) if (isinstance(y, int) and not isinstance(y, bool) and i not in raw) else y for i, y in enumerate(n[1:]))
            r = Td.mk(o, *args)
        memo[x] = r
        return r
    return rec(t)


def guarded_by_callers(ctx, f, a, cond, tp, taint):
    prog = ctx.prog
    T = a.T
    # only conditions over parameters / members / constants can be moved to the callers
    for x in T.subterms(cond):
        if T.node(x)[0] in ('wire', 'phi', 'iv', 'local', 'rand', 'new'):
            return False
    callers = prog.callers_of(f['key'])
    if not callers:
        return False
    anyc = False
    for ck in callers:
        g = prog.funcs.get(ck)
        if g is None or not g.get('body'):
            continue
        b = ctx.analysis(g)
        gtp = taint.get(ck, set())
        for nid, ev in list(b.all_events('call')) + list(b.all_events('mcall')):
            fid, args = (ev[4], ev[2]) if ev[0] == 'call' else (ev[5], ev[3])
            if fid != f['key']:
                continue
            if not any(is_tainted(b, t, gtp) for t in args):
                continue      # this caller passes trusted data: the assertion is its contract
            anyc = True
            subst = {p['n']: args[i] for i, p in enumerate(f['params']) if i < len(args)}
            c2 = translate(a, cond, b, subst)
            st = b.instate[nid]
            if not (c2 in st.facts or implied(b, c2, st)):
                return False
    return anyc


# ---------------------------------------------------------------------------------- S3
def wire_direct(a, t):
    """is t itself a wire value (through ix / phi), not merely derived from one"""
    T = a.T
    seen = set()
    st = [t]
    while st:
        x = st.pop()
        if x in seen:
            continue
        seen.add(x)
        n = T.node(x)
        if n[0] == 'wire':
            return True
        if n[0] == 'ix':
            st.append(n[1])
        elif n[0] == 'phi':
            st.extend(T.phi_src.get((n[1], n[2]), ()))
    return False


def nonzero_fact(a, st, m):
    T = a.T
    z = T.int(0)
    for fa in st.facts:
        n = T.node(fa)
        if n[0] == 'all':
            n = T.node(n[2])
        if n[0] != 'rel':
            continue
        op, x, y = n[1], n[2], n[3]
        if op == '!=' and set((x, y)) == set((z, m)):
            return True
        if op in ('<', '<=') and y == m and T.is_int(x) and (T.node(x)[1] > 0 or (op == '<' and T.node(x)[1] >= 0)):
            return True
        # size clause: bits(m) >= k with k >= 2 implies m != 0
        if op in ('<', '<=') and T.node(y) == ('bits', m) and not T.is_int(x, 0):
            return True
    return False


def s3(ctx, taint, off):
    prog = ctx.prog
    n = 0
    # callee summaries: parameters that reach a modulus position without a local non-zero fact
    summ = {}
    summ_all = {}
    for k, f in prog.funcs.items():
        if not f.get('body') or 'RFC4880' in f['file']:
            continue
        if not any(e.get('k') == 'call' and (e.get('f', '').startswith('mpz_') or e.get('f', '').startswith('tmcg_mpz')) for e in walk(f['body'])):
            continue
        a = ctx.analysis(f)
        T = a.T
        for nid, ev in a.all_events('modulus'):
            m = ev[1]
            mn = T.node(m)
            st = a.instate[nid]
            if mn[0] == 'param':
                idx = [i for i, p in enumerate(f['params']) if p['n'] == mn[1]]
                if idx:
                    summ_all.setdefault(k, set()).add(idx[0])
                    if not nonzero_fact(a, st, m):
                        summ.setdefault(k, set()).add(idx[0])
    for k, f in prog.funcs.items():
        if not f.get('body') or k not in off or 'RFC4880' in f['file']:
            continue
        a = ctx.analysis(f)
        if not a.wire_sites:
            continue
        T = a.T
        seen = set()
        for nid, ev in a.all_events('modulus'):
            m, fname, line = ev[1], ev[2], ev[3]
            if not wire_direct(a, m):
                continue
            key = 'S3:%s:%s' % (f['q'], T.show(m, 2)[:40])
            if key in seen:
                continue
            seen.add(key)
            n += 1
            st = a.instate[nid]
            if nonzero_fact(a, st, m):
                ctx.ok('S3', key, 'wire value used as modulus is known to be non-zero', f, line=line)
            else:
                ctx.bad('S3', key, 'value read from the stream is used as modulus/divisor by %s without a non-zero check (GMP raises SIGFPE on zero)' % fname, f, line=line)
        for nid, ev in list(a.all_events('call')):
            fid, args, line = ev[4], ev[2], ev[3]
            for i in summ_all.get(fid, ()):
                if i < len(args) and wire_direct(a, args[i]) and i not in summ.get(fid, ()):
                    key = 'S3:%s->%s:%d' % (f['q'], ev[1], i)
                    if key not in seen:
                        seen.add(key)
                        n += 1
                        ctx.ok('S3', key, 'wire value passed as modulus: %s refuses zero before dividing' % ev[1], f, line=line)
            for i in summ.get(fid, ()):
                if i < len(args) and wire_direct(a, args[i]):
                    key = 'S3:%s->%s:%d' % (f['q'], ev[1], i)
                    if key in seen:
                        continue
                    seen.add(key)
                    n += 1
                    st = a.instate[nid]
                    if nonzero_fact(a, st, args[i]):
                        ctx.ok('S3', key, 'wire value passed as modulus is known to be non-zero', f, line=line)
                    else:
                        ctx.bad('S3', key, 'value read from the stream is passed to %s, which divides by it without a non-zero check' % ev[1], f, line=line)
    ctx.info['S3_sites'] = n
    ctx.floor('S3', n, 10)


# ---------------------------------------------------------------------------------- S4
def s4(ctx):
    prog = ctx.prog
    n = 0
    for k, f in prog.funcs.items():
        for e in walk(f.get('body')):
            if e.get('k') == 'call' and (e.get('f', '').startswith('mpz_') or e.get('f', '').startswith('tmcg_mpz_')) and e.get('fid'):
                from ..sym import split_params
                pts = split_params(e['fid'])
                for i, arg in enumerate(e['a']):
                    if e['f'] in ('mpz_gcd_ui',) and i == 0:
                        continue      # documented: rop may be NULL
                    if i < len(pts) and '__mpz_struct' in pts[i] and isinstance(arg, dict) and \
                            (arg.get('k') == 'null' or (arg.get('k') == 'int' and arg.get('v') == 0) or
                             (arg.get('k') == 'cast' and isinstance(arg.get('e'), dict) and arg['e'].get('k') == 'int' and arg['e'].get('v') == 0)):
                        n += 1
                        ctx.bad('S4', 'S4:%s:%s' % (f['q'], e['f']), 'null-pointer constant passed to %s as an integer object' % e['f'], f, line=e.get('l'))
    ctx.ok('S4', 'S4:summary', 'no GMP primitive is called with a null-pointer constant' if n == 0 else '%d null arguments' % n)


# ---------------------------------------------------------------------------------- S5
def decoded_integer(a, t, tp):
    """an integer whose magnitude the peer chooses: strtoul of untrusted text, mpz_get_ui of a wire
    value, octets combined by shifts (but not the size() of the input itself)"""
    T = a.T
    for x in T.subterms(t):
        n = T.node(x)
        if n[0] == 'callr' and n[1] in ('strtoul', 'strtol', 'atoi', 'atol', 'std::stoul', 'std::stoi', 'strtoull'):
            return True
        if n[0] == 'get_ui' and is_tainted(a, x, tp):
            return True
        if n[0] == 'param' and n[1] in tp and n[1] in ('chunksize',):
            return True
        if n[0] == 'op' and n[1] == '<<' and is_tainted(a, x, tp):
            # a shift amount or shifted value taken from the input
            return True
    return False


def ub(a, t, depth=0):
    """numeric upper bound of a non-negative integer expression built from octets"""
    T = a.T
    n = T.node(t)
    if n[0] == 'int':
        return n[1] if n[1] >= 0 else None
    if t in a.octets:
        return 255
    if n[0] == 'ix':
        return ub(a, n[1], depth)
    if depth > 8 or n[0] != 'op':
        return None
    x, y = ub(a, n[2], depth + 1), ub(a, n[3], depth + 1)
    op = n[1]
    if op == '&':
        cands = [v for v in (x, y) if v is not None]
        return min(cands) if cands else None
    if x is None or y is None:
        if op == '/' and x is not None and T.is_int(n[3]) and T.node(n[3])[1] > 0:
            return x // T.node(n[3])[1]
        if op == '%' and T.is_int(n[3]) and T.node(n[3])[1] > 0:
            return T.node(n[3])[1] - 1
        return None
    if op == '+':
        return x + y
    if op == '*':
        return x * y
    if op == '<<':
        return x << y if y < 64 else None
    if op == '|':
        return x | y if False else (x + y)
    if op == '/':
        return x // y if T.is_int(n[3]) and y > 0 else x
    if op == '%':
        return y - 1 if y > 0 else None
    if op == '>>':
        return x
    return None


def upper_bounded(a, st, t):
    T = a.T
    v = ub(a, t)
    if v is not None:
        return v
    from fractions import Fraction
    P = bounds.upoly(a, t)

    def held(m, c):
        # a small multiple of the size of a container that exists already: memory of that order is
        # held anyway (v.reserve(v.size() + n)); only the rest of the sum needs a bound
        if len(m) != 1 or not (0 < c <= 16):
            return False
        n_ = T.node(m[0])
        return n_[0] == 'mc' and isinstance(n_[1], str) and n_[1].split('::')[-1] in ('size', 'length', 'capacity')
    if len(P) > 1:
        P = {m: c for m, c in P.items() if not held(m, c)}
    cons = bounds.constraints(a, st)
    cons = cons + bounds.atom_constraints(a, bounds.atoms_of(cons + [P]))
    for cap in (1 << 12, 1 << 16, 1 << 24, 1 << 28, 1 << 31):
        if bounds.prove_ge0(bounds.sub({(): Fraction(cap)}, P), cons):
            return cap
    return None


def s5(ctx, taint, off):
    prog = ctx.prog
    n = 0
    for k, f in prog.funcs.items():
        if not f.get('body') or k not in off or prog.is_helper(f):
            continue
        tp = taint.get(k, set())
        a = ctx.analysis(f)
        if not tp and not a.wire_sites:
            continue
        T = a.T
        sites = []
        for nid, ev in a.all_events('alloc'):
            sites.append((nid, ev[1], ev[3], 'allocation of %s' % ev[2]))
        for nid, ev in a.all_events('vla'):
            sites.append((nid, ev[1], ev[3], 'stack array %s' % ev[2]))
        for nid, ev in a.all_events('mcall'):
            if ev[1].split('::')[-1] in ('resize', 'reserve') and ev[3]:
                sites.append((nid, ev[3][0], ev[4], ev[1].split('::')[-1]))
        seen = set()
        for nid, t, line, what in sites:
            if not decoded_integer(a, t, tp):
                continue
            tn = T.node(t)
            if tn[0] == 'mc' and tn[1].split('::')[-1] in ('size', 'length'):
                continue      # as large as the input itself
            key = 'S5:%s:%s' % (f['q'], what)
            if key in seen:
                continue
            seen.add(key)
            n += 1
            st = a.instate[nid]
            cap = upper_bounded(a, st, t)
            limit = (1 << 16) if what.startswith('stack array') else ((1 << 20) if what in ('resize', 'reserve') else (1 << 28))
            if cap is not None and cap <= limit:
                ctx.ok('S5', key, '%s sized by a decoded integer is bounded by a guard (<= %d)' % (what, cap), f, line=line)
            else:
                ctx.bad('S5', key, '%s is sized by an integer decoded from untrusted input (%s) without an upper-bound guard%s' % (
                    what, T.show(t, 3), ' small enough for the stack' if cap else ''), f, line=line)
    ctx.info['S5_sites'] = n


# ---------------------------------------------------------------------------------- S2h
def s2h(ctx):
    prog = ctx.prog
    n = 0
    bad = 0
    for k, f in prog.funcs.items():
        for e in walk(f.get('body')):
            if e.get('k') == 'call' and e.get('f', '').startswith('tmcg_mpz_shash') and e.get('va') is not None:
                fixed = e['va']
                if len(e['a']) < fixed:
                    continue
                cnt = e['a'][fixed - 1]
                nvar = len(e['a']) - fixed
                if isinstance(cnt, dict) and cnt.get('k') == 'int':
                    n += 1
                    if cnt['v'] > nvar:
                        bad += 1
                        ctx.bad('S2h', 'S2h:%s:%d' % (f['q'], e.get('l', 0)), 'variadic hash is told to read %d arguments but only %d are passed (reads past the argument list)' % (cnt['v'], nvar), f, line=e.get('l'))
    ctx.ok('S2h', 'S2h:summary', '%d variadic hash call sites, none reads past its argument list' % n if not bad else '%d bad' % bad)
    ctx.floor('S2h', n, 30)


EXPLANATION = ("Static taint-to-sink analysis with sanitizer facts over everything reachable from the wire entry points (stream reads, string / "
               "octet parameters of importers and OpenPGP decoders, interprocedural by parameter): every element access on or with untrusted "
               "data in the wire-facing decoders and verifiers is shown to satisfy index < capacity by a sound linear prover over the "
               "must-facts (sizes, loop ranges, octet ranges, declared array lengths, allocation sizes); every assertion whose condition "
               "depends on untrusted data is dominated by an explicit guard, locally or at every call site passing untrusted data; wire "
               "values used as moduli carry a non-zero fact; no null constant reaches a GMP primitive; allocations, stack arrays and resizes "
               "sized by decoded integers carry an upper bound; variadic hashes never read past their arguments; arithmetic on decoded integers in int / unsigned int stays within 32 bits and unsigned differences are non-negative (no wrap-around feeding a guard, offset or size). the search loops of the group checks (re-derivation of a verifiable generator: repeat until an element of order q is found) are entered only "
               "with p prime and p = qk + 1 established, which is what makes them terminate on stream-supplied parameters. A closed list of sink "
               "kinds on the anchored code -- not absence of all memory errors, not termination of every loop.")
ASSUMPTIONS = ["the linear prover reasons over the integers; S7 shows separately that int/unsigned-int arithmetic and unsigned differences on untrusted data do not wrap (64-bit size_t sums of decoded 32-bit lengths cannot wrap)", "std::map::operator[] and iterators are not sinks",
               "exceptions listed in S2_EXCEPTIONS were triaged by reading", "the second layer (*Parse* functions working on decoded packet contexts) is reported, not claimed"]


# ---------------------------------------------------------------------------------- S7
def s7(ctx, taint, off):
    """arithmetic on untrusted integers in a type narrower than size_t must not wrap: the exact
    (mathematical) interval of the result, computed from octet ranges, constants and the constant
    bounds established by guards on the path, has to fit the type the operation is carried out in.
    `int` results are held to 32 bits (the decoders build 32-bit values with (octet << 24) in int and
    convert to unsigned at once; only a result that needs more than 32 bits is a wrap)."""
    from .. import ranges
    from ..sym import NARROW
    prog = ctx.prog
    n = 0
    nu = 0
    for k, f in prog.funcs.items():
        if not f.get('body') or k not in off or prog.is_helper(f):
            continue
        tp = taint.get(k, set())
        short = f['q'].split('::')[-1]
        is_dec = 'RFC4880' in f['file'] and DECODER_RE.search(short)
        if not is_dec and not tp and not (f['ret'] == 'bool' and any('istream' in p['t'] for p in f['params'])):
            continue
        a = ctx.analysis(f)
        T = a.T
        occ = {}
        for nid, ev in sorted(a.all_events('narrow'), key=lambda x: (x[1][5], x[0])):
            _, op, x, y, ty, line = ev
            if op == '-':
                continue          # differences: see the relational rule below
            if not (is_tainted(a, x, tp) or is_tainted(a, y, tp)):
                continue
            st = a.instate[nid]
            r = ranges.interval(a, a.arith(op, x, y), st)
            lo, hi = NARROW[ty]
            if ty == 'int':
                hi = 2 ** 32 - 1
            key0 = 'S7:%s:%s:%s' % (f['q'], op, T.show(a.arith(op, x, y), 2)[:50])
            occ[key0] = occ.get(key0, 0) + 1
            key = '%s#%d' % (key0, occ[key0])
            n += 1
            if r is not None and r[0] >= lo and r[1] <= hi:
                ctx.ok('S7', key, '%s arithmetic on untrusted data stays within [%d, %d]' % (ty, r[0], r[1]), f, line=line)
            else:
                ctx.bad('S7', key, 'arithmetic on untrusted data is carried out in %s but its exact value ranges over %s: it can wrap around, and a '
                        'size check or offset computed from it no longer bounds the access' % (ty, 'an unbounded range' if r is None else '[%s, %s]' % r), f, line=line)
        for nid, ev in sorted(a.all_events('usub'), key=lambda x: (x[1][4], x[0])):
            _, x, y, ty, line = ev[:5]
            if not (is_tainted(a, x, tp) or is_tainted(a, y, tp)):
                continue
            st = a.instate[nid]
            if len(ev) > 5 and ev[5]:
                from ..sym import State
                st = State(st.env, st.facts | frozenset(ev[5]))
            key0 = 'S7:%s:-:%s' % (f['q'], T.show(a.arith('-', x, y), 2)[:50])
            occ[key0] = occ.get(key0, 0) + 1
            key = '%s#%d' % (key0, occ[key0])
            nu += 1
            cons = bounds.constraints(a, st)
            G = bounds.sub(bounds.upoly(a, x), bounds.upoly(a, y))
            cons = cons + bounds.atom_constraints(a, bounds.atoms_of([G] + cons))
            okv = bounds.prove_ge0(G, cons)
            if not okv:
                r = ranges.interval(a, a.arith('-', x, y), st)
                okv = r is not None and r[0] >= 0
            if okv:
                ctx.ok('S7', key, 'unsigned difference on untrusted data: minuend >= subtrahend follows from the guards on the path', f, line=line)
            else:
                ctx.bad('S7', key, 'unsigned difference %s - %s on untrusted data with no guard establishing that it is non-negative: it wraps to a huge '
                        'value that then serves as a length, bound or allocation size' % (T.show(x, 3), T.show(y, 3)), f, line=line)
    ctx.info['S7_sites'] = n
    ctx.info['S7_unsigned_differences'] = nu
    ctx.floor('S7', n, 90)
    ctx.floor('S7', nu, 45)


# ---------------------------------------------------------------------------------- S9
def s9(ctx):
    """dangling buffers of the packet context: the decoders keep (pointer, length) pairs F / Flen in
    the context that later stages read and PacketContextRelease frees.  After `delete [] ctx.F` the
    function must not return before F is re-allocated or Flen is set to 0 -- otherwise a later stage
    reads freed memory and the release frees it twice."""
    prog = ctx.prog
    n = 0
    for k, f in prog.funcs.items():
        if not f.get('body') or 'RFC4880' not in f['file']:
            continue
        short = f['q'].split('::')[-1]
        if not DECODER_RE.search(short):
            continue
        dels = [e for e in walk(f['body']) if e.get('k') == 'delete' and isinstance(e['a'][0], dict) and e['a'][0].get('k') == 'mem']
        if not dels:
            continue
        a = ctx.analysis(f)
        T = a.T
        byid = {x.id: x for x in a.cfg.rpo}
        for nid, node in byid.items():
            if node.kind != 'stmt':
                continue
            for e in walk(node.e):
                if not (e.get('k') == 'delete' and isinstance(e['a'][0], dict) and e['a'][0].get('k') == 'mem'):
                    continue
                fld = e['a'][0]['n']
                base = a.loc(e['a'][0].get('o'), a.instate[nid]) if nid in a.instate else None
                if base is None:
                    continue
                ploc = ('f', base, fld)
                lloc = ('f', base, fld + 'len')
                n += 1
                # walk the paths from the delete that do not re-allocate the pointer, carrying the value
                # last written to the length field: a path is repaired when 0 is written, or when a
                # branch edge establishes that the value written is not positive; an exit reached
                # unrepaired leaves a dangling (pointer, length) pair behind
                repair = set(n2 for n2, ev in a.all_events('write') if ev[1] == ploc and n2 != nid)
                lwrites = {}
                for n2, ev in a.all_events('write'):
                    if ev[1] == lloc:
                        lwrites[n2] = ev[2]
                v0 = a.read(lloc, a.instate[nid])

                def is_zero_on_edge(nidx, i, v):
                    eo = a.edge_out.get((nidx, i))
                    if eo is None or v is None:
                        return False
                    z = T.int(0)
                    return any(x in eo.facts for x in (a.rel('<=', v, z), a.rel('==', v, z), a.rel('<', v, T.int(1))))
                seen = set()
                st = [(x, v0) for x in node.succ]
                leak = None
                while st:
                    x, v = st.pop()
                    if (x.id, v) in seen or x.id in repair:
                        continue
                    seen.add((x.id, v))
                    if x.id in lwrites:
                        # a zero written here repairs the pair only as long as the length is not set
                        # again before the pointer is re-allocated: keep walking with the new value
                        v = lwrites[x.id]
                    if x.kind == 'exit':
                        if v is not None and T.is_int(v, 0):
                            continue
                        leak = x
                        break
                    for i, y in enumerate(x.succ):
                        if x.kind == 'branch' and is_zero_on_edge(x.id, i, v):
                            continue
                        st.append((y, v))
                key = 'S9:%s:%s' % (f['q'], fld)
                if leak is None:
                    ctx.ok('S9', key, 'after delete [] the buffer %s is re-allocated or its length reset before the decoder returns' % fld, f, line=node.line)
                else:
                    ctx.bad('S9', key, 'the decoder can return (line %d) with %s freed but neither re-allocated nor %slen reset to 0: later stages read the '
                            'freed buffer and the context release frees it again' % (leak.line, fld, fld), f, line=node.line)
    ctx.info['S9_sites'] = n
    ctx.floor('S9', n, 2)


# ---------------------------------------------------------------------------------- S8
def s8(ctx):
    """termination of the search loops in the group checks: CheckGroup runs on members a stream constructor filled from the
    wire.  A loop without a counting bound in it (the re-derivation of the verifiable generator: hash, raise to the k-th
    power, repeat until an element of order q other than 1 turns up; the hash input grows on every round) terminates
    because x^k has order dividing q when p is prime and p = qk + 1 -- for a composite p of that form it need not ever.
    So the head of every such loop must hold the facts isprime(p) and p = qk + 1 (or 2q + 1) on every path."""
    prog = ctx.prog
    n = 0
    for k, f in sorted(prog.funcs.items()):
        if not f['q'].endswith('::CheckGroup') or not f.get('body'):
            continue
        a = ctx.analysis(f)
        T = a.T
        for h in sorted(a.loop_nodes.keys()):
            if a.loop_bound.get(h):
                continue            # a counting loop
            st = a.instate.get(h)
            if st is None:
                continue
            prime_p = form = False
            for fa in st.facts:
                fn = T.node(fa)
                if fn[0] == 'truthy' and T.op(fn[1]) == 'isprime' and T.node(T.node(fn[1])[1]) == ('this', 'p'):
                    prime_p = True
                if fn[0] == 'rel' and fn[1] == '==':
                    sh = T.show(fa, 5)
                    if 'this.p' in sh and 'this.q' in sh and ('mul(' in sh or 'div' in sh):
                        form = True
            n += 1
            key = 'S8:%s:search-loop' % f['q']
            if prime_p and form:
                ctx.ok('S8', key, 'the search loop is entered only with p prime and p = qk + 1 established', f)
            else:
                ctx.bad('S8', key, 'a search loop without a counting bound is reachable %s: on a stream-supplied composite modulus the loop need '
                        'not terminate and its hash input grows without bound' % (
                            'before the primality of p was tested' if not prime_p else 'before the form p = qk + 1 was tested'), f)
    ctx.floor('S8', n, 4)


# ---------------------------------------------------------------------------------- S2t
def s2t(ctx):
    """rows of the fixed-base tables: every table is allocated with TMCG_MAX_FPOWM_T rows (new mpz_t[TMCG_MAX_FPOWM_T] in every
    class) and is filled / read by the four primitives of mpz_spowm.cc with a row count or an exponent length that comes from
    group parameters -- in the stream constructors from the wire, before any CheckGroup can run.  Every subscript applied to a
    table parameter in those primitives must be provably below TMCG_MAX_FPOWM_T (linear prover over the guards and the loop
    bounds), whatever the count."""
    prog = ctx.prog
    rows = fpowm_rows(prog)
    n = 0
    for k, f in sorted(prog.funcs.items(), key=lambda kv: kv[1]['line']):
        if not f.get('body') or not f['file'].endswith('mpz_spowm.cc'):
            continue
        tp = [p for p in f['params'] if p['n'].startswith('fpowm_table')]
        if not tp:
            continue
        a = ctx.analysis(f)
        a.fpowm_rows = rows
        T = a.T
        occ = {}
        for nid, ev in sorted(a.all_events('index'), key=lambda x: (x[1][3], x[0])):
            bl, it, line, bt = ev[1], ev[2], ev[3], ev[4]
            if it is None or bl is None or not (isinstance(bl, tuple) and bl[0] == 'v' and str(bl[2]).startswith('fpowm_table')):
                continue
            key0 = 'S2t:%s:%s' % (f['q'], T.show(it, 2)[:40])
            occ[key0] = occ.get(key0, 0) + 1
            key = '%s#%d' % (key0, occ[key0])
            n += 1
            if rows and bounds.index_ok(a, a.instate[nid], bl, bt, it):
                ctx.ok('S2t', key, 'row index < TMCG_MAX_FPOWM_T (%s) follows from the guards and the loop bound' % rows, f, line=line)
            else:
                ctx.bad('S2t', key, 'row %s of a fixed-base table is accessed without a bound below TMCG_MAX_FPOWM_T (%s rows are allocated): a row count or '
                        'exponent length taken from stream-supplied group parameters runs past the table' % (T.show(it, 3), rows), f, line=line)
    ctx.floor('S2t', n, 6)


# ---------------------------------------------------------------------------------- S3n
S3N_EXCEPTIONS = {
    'BarnettSmartVTMF_dlog::CheckGroup': 'the only power not covered is in the generator re-derivation, reached after p was found prime (S8); its base is H(U)^k mod p, '
                                         'which is zero only if p divides the hash value; with negated q and k the check refuses without a signal (differential harness of the n16 corpus)',
}


def s3n(ctx):
    """negative exponents in the validity checks: mpz_powm with a negative exponent inverts the base first and raises a
    division by zero (SIGFPE) when the base is not invertible.  In CheckGroup / CheckElement the exponent is the member q and
    the base is a member or the tested value -- all of them from the wire for a stream-constructed object -- and the order
    test is evaluated before (or without) a test that the base is a unit.  So every mpz_powm(.., base, this.q, this.p) in a
    validity check must hold the fact 0 < q on every path (a test "q != 0" lets the negated order through)."""
    prog = ctx.prog
    n = 0
    for k, f in sorted(prog.funcs.items(), key=lambda kv: (kv[1]['file'], kv[1]['line'])):
        if not f.get('body') or f['q'].split('::')[-1] != 'CheckGroup':
            continue            # CheckElement tests a value against a group that CheckGroup has accepted (the caller's order of calls)
        a = ctx.analysis(f)
        T = a.T
        q = T.mk('this', 'q')
        seen = set()
        for nid, ev in sorted(a.all_events('call'), key=lambda x: (x[1][3] if len(x[1]) > 3 and isinstance(x[1][3], int) else 0, x[0])):
            if ev[1] != 'mpz_powm' or len(ev[2]) < 4 or ev[2][2] != q:
                continue
            st = a.instate[nid]
            pos = False
            for fa in st.facts:
                fn_ = T.node(fa)
                if fn_[0] == 'rel' and fn_[1] == '<' and fn_[3] == q and T.is_int(fn_[2]) and T.node(fn_[2])[1] >= 0:
                    pos = True
                if fn_[0] == 'rel' and fn_[1] == '<=' and fn_[3] == q and T.is_int(fn_[2]) and T.node(fn_[2])[1] >= 1:
                    pos = True
                # bits(q) >= G_size does not help: the size of a negative number is the size of its absolute value
            if not pos:
                # the other way to be safe: the base is a unit -- p is (probably) prime and 0 < base < p was tested before
                base, mod = ev[2][1], ev[2][3]
                prime = any(T.node(fa)[0] == 'truthy' and T.op(T.node(fa)[1]) == 'isprime' and T.node(T.node(fa)[1])[1] == mod for fa in st.facts)
                lo = any(T.node(fa)[0] == 'rel' and T.node(fa)[1] in ('<', '<=') and T.node(fa)[3] == base and T.is_int(T.node(fa)[2]) and
                         (T.node(T.node(fa)[2])[1] >= 1 or (T.node(fa)[1] == '<' and T.node(T.node(fa)[2])[1] >= 0)) for fa in st.facts)
                hi = any(T.node(fa)[0] == 'rel' and T.node(fa)[1] in ('<', '<=') and T.node(fa)[2] == base and
                         (T.node(fa)[3] == mod or T.show(T.node(fa)[3], 3) in ('sub(%s,1)' % T.show(mod, 1), 'op(-,%s,1)' % T.show(mod, 1))) for fa in st.facts)
                pos = prime and lo and hi
            key = 'S3n:%s' % f['q']
            if key in seen:
                continue
            n += 1
            if pos:
                continue
            seen.add(key)
            line = ev[3] if len(ev) > 3 and isinstance(ev[3], int) else None
            if f['q'] in S3N_EXCEPTIONS:
                ctx.note('S3n', key, 'not proved; triaged by reading: ' + S3N_EXCEPTIONS[f['q']], f, line=line)
                continue
            ctx.bad('S3n', key, 'mpz_powm is called with the exponent q on a path that has not established q > 0 (the guard is "q != 0" at most): for a stream-supplied '
                    'negative q and a base that is not invertible modulo p (0, or a multiple of a factor of p) GMP divides by zero and the process is killed', f, line=line)
        if ('S3n:%s' % f['q']) not in seen and any(
                ev[1] == 'mpz_powm' and len(ev[2]) >= 4 and ev[2][2] == q for nid, ev in a.all_events('call')):
            ctx.ok('S3n', 'S3n:%s' % f['q'], 'every power with the exponent q is taken after q > 0 was established', f)
    ctx.floor('S3n', n, 8)
