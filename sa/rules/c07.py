"""C07 Shuffle permutations and random residues are uniform (necessary structural conditions).

R07a range safety of every index derived from a sampler (finite-domain evaluation),
R07b factorial divisibility: n! divides the product of the moduli of the independent draws,
R07c shape of the bounded sampler (rejection loop, bound a multiple of the modulus, wrappers
     reduce by the same modulus) and of the residue sampler (reduction by m, >= bits(m)+64 bits)."""
import math
from ..facts import walk, AnalysisBroken
from .. import evalx
from ..cfg import canonical_iv

SAMPLERS = ('tmcg_mpz_srandom_mod', 'tmcg_mpz_ssrandom_mod', 'tmcg_mpz_wrandom_mod')
ULONG_MAX = (1 << 64) - 1


def loops_with_draws(f):
    """(for-loop stmt, iv meta, draw call expr, enclosing declaration/assignment of the draw)"""
    out = []

    def rec(s, stack):
        if not isinstance(s, dict):
            return
        if s.get('k') == 'for':
            iv = canonical_iv(s)
            rec(s.get('b'), stack + [(s, iv)])
            return
        if s.get('k') == 'call' and s.get('f') in SAMPLERS:
            out.append((list(stack), s))
        for v in s.values():
            if isinstance(v, dict):
                rec(v, stack)
            elif isinstance(v, list):
                for x in v:
                    rec(x, stack)
    rec(f['body'], [])
    return out


def iter_range(iv, env):
    """concrete values of the induction variable of a canonical loop under env"""
    i = evalx.ev(iv['init'], env)
    vals = []
    guard = 0
    while guard < 100000:
        guard += 1
        e2 = dict(env)
        e2[iv['id']] = i
        b = evalx.ev(iv['bound'], e2)
        op = iv['op']
        okc = {'<': i < b, '<=': i <= b, '>': i > b, '>=': i >= b, '!=': i != b}[op]
        if not okc:
            break
        vals.append(i)
        i += iv['step']
        if i < 0:
            break
    return vals


def run(ctx):
    prog = ctx.prog
    r07ab(ctx)
    r07c(ctx)


def r07ab(ctx):
    prog = ctx.prog
    f = prog.fn('random_permutation_fast', 0)
    npar = f['params'][0]
    draws = loops_with_draws(f)
    key0 = 'R07b:random_permutation_fast'
    if not draws:
        ctx.bad('R07b', key0, 'no bounded-sampler draw found in the permutation generator (anchor changed)', f, nec=False)
        ctx.floor('R07b', 0, 1)
        return
    nb = 0
    bad_n = []
    range_bad = []
    how = 'moduli extracted from the source expression, evaluated for n = 2..64'
    try:
        nb, bad_n, range_bad = _affine_products(f, npar, draws)
    except (AnalysisBroken, evalx.NotEvaluable) as ex0:
        # draws outside a canonical loop (e.g. one draw whose digits are peeled off): interval evaluation of the whole
        # generator for each concrete n (sa/drawinterp.py) -- moduli with the declared word width, subscripts as intervals
        from ..drawinterp import DrawInterp
        how = 'interval evaluation of the generator for each n = 2..64 (draws as intervals, machine-word arithmetic)'
        try:
            for n in range(2, 65):
                di = DrawInterp(f, {npar['n']: n}, SAMPLERS).run()
                prod = 1
                for m, line in di.draws:
                    if m <= 0:
                        bad_n.append((n, 'modulus %d (line %s)' % (m, line)))
                        m = 1
                    prod *= m
                if prod % math.factorial(n) != 0:
                    bad_n.append((n, 'the draw moduli %s multiply to a value that is not a multiple of n! (%d! %s)' % (
                        [m for m, _ in di.draws][:4], n, 'exceeds the machine word' if math.factorial(n) > ULONG_MAX else 'does not divide it')))
                for vn, ix, size, line in di.index:
                    if ix.lo < 0 or ix.hi >= size:
                        range_bad.append((n, line, ix.hi, ix.hi))
                nb += 1
        except evalx.NotEvaluable as ex:
            raise AnalysisBroken('%s; interval evaluation: %s' % (ex0, ex))
    if bad_n:
        ctx.bad('R07b', key0, 'independent draws cannot yield a uniform permutation: for n=%d %s (first of %d sizes in 2..64)' % (
            bad_n[0][0], bad_n[0][1], len(set(b[0] for b in bad_n))), f)
    else:
        ctx.ok('R07b', key0, 'n! divides the product of the draw moduli for every n in 2..64', f,
               detail=how)
    if range_bad:
        n, i, r, v = range_bad[0]
        ctx.bad('R07a', 'R07a:random_permutation_fast', 'swap index out of range: n=%d i=%d draw=%d gives index %d' % (n, i, r, v), f)
    else:
        ctx.ok('R07a', 'R07a:random_permutation_fast', 'every index derived from a draw stays in [0, n) for n = 2..64', f)
    ctx.floor('R07b', nb, 63)
    # rotation: one draw from [0, n), indices reduced mod n
    f = prog.fn('random_rotation', 0)
    a = ctx.analysis(f)
    T = a.T
    np_ = T.mk('param', f['params'][0]['n'])
    calls = [ev for nid, ev in a.all_events('call') if ev[1] in SAMPLERS]
    okr = len(calls) == 1 and calls[0][2] and calls[0][2][0] == np_
    (ctx.ok if okr else ctx.bad)('R07b', 'R07b:random_rotation', 'offset is one draw from [0, n)' if okr else 'rotation offset is not a single draw from [0, n)', f)
    raw = []
    for q in ('random_permutation_fast', 'random_rotation', 'SchindelhauerTMCG::TMCG_CreateStackSecret'):
        for g in prog.by_q.get(q, []):
            for e in walk(g['body']):
                if e.get('k') == 'bin' and e.get('op') == '%':
                    for x in walk(e['a'][0]):
                        if x.get('k') == 'call' and x.get('f', '').endswith('random_ui'):
                            raw.append((g, e.get('l')))
    for g, line in raw:
        ctx.bad('R07c', 'R07c:%s:raw-modulo' % g['q'], 'permutation index taken as raw random value modulo n (modulo bias)', g, line=line)
    if not raw:
        ctx.ok('R07c', 'R07c:no-raw-modulo', 'no shuffle index is computed as raw random % n')


def _affine_products(f, npar, draws):
    nb = 0
    bad_n = []
    range_bad = []
    for n in range(2, 65):
        prod = 1
        for stack, call in draws:
            if not stack or stack[-1][1] is None:
                raise AnalysisBroken('draw inside a non-canonical loop in random_permutation_fast')
            loop, iv = stack[-1]
            env = {npar['id']: n}
            for i in iter_range(iv, env):
                e2 = dict(env)
                e2[iv['id']] = i
                m = evalx.ev(call['a'][0], e2)
                if m <= 0:
                    bad_n.append((n, 'modulus %d at i=%d' % (m, i)))
                    m = 1
                prod *= m
                # R07a: every index the draw can produce stays inside the container
                for idx_expr, who in index_uses(loop, call):
                    for r in set((0, m - 1, m // 2)):
                        def cb(e, env_, r=r, call=call):
                            if e is call or (e.get('f') in SAMPLERS and e.get('l') == call.get('l')):
                                return r
                            raise evalx.NotEvaluable('call')
                        try:
                            v = evalx.ev(idx_expr, e2, cb)
                        except evalx.NotEvaluable:
                            continue
                        if not (0 <= v < n):
                            range_bad.append((n, i, r, v))
        nb += 1
        if prod % math.factorial(n) != 0:
            bad_n.append((n, 'product of moduli %d is not a multiple of n!' % prod if n < 8 else 'product of moduli is not a multiple of n!'))
    return nb, bad_n, range_bad


def index_uses(loop, call):
    """index expressions (of subscripts in the loop body) that depend on the variable initialised from the draw"""
    body = loop['b']
    var = None
    for e in walk(body):
        if e.get('k') == 'decl':
            for v in e['v']:
                if v.get('init') is not None and any(x is call for x in walk(v['init'])):
                    var = v
    out = []
    if var is None:
        return out
    for e in walk(body):
        idx = None
        if e.get('k') == 'opcall' and e.get('op') == '[]' and len(e['a']) == 2:
            idx = e['a'][1]
        elif e.get('k') == 'idx':
            idx = e['a'][1]
        if idx is not None and any(x.get('k') == 'var' and x.get('id') == var['id'] for x in walk(idx)):
            # substitute the variable by its initialiser
            out.append((subst(idx, var['id'], var['init']), var['n']))
    return out


def subst(e, vid, repl):
    if isinstance(e, dict):
        if e.get('k') == 'var' and e.get('id') == vid:
            return repl
        return {k: subst(v, vid, repl) for k, v in e.items()}
    if isinstance(e, list):
        return [subst(x, vid, repl) for x in e]
    return e


def r07c(ctx):
    prog = ctx.prog
    n = 0
    f = prog.fn('tmcg_mpz_grandom_ui_nomodbias', 0)
    a = ctx.analysis(f)
    T = a.T
    mod_p = f['params'][1]
    # returned value: drawn inside a loop whose exit establishes ret <= max
    exits = [(nn, val, st) for nn, kind, val, st in a.exits() if kind == 'return' and val is not None]
    key0 = 'R07c:tmcg_mpz_grandom_ui_nomodbias'
    okloop = False
    maxterm = None
    for nn, val, st in exits:
        for fa in st.facts:
            fn_ = T.node(fa)
            if fn_[0] == 'rel' and fn_[1] == '<=' and fn_[2] == val:
                # the value is (a phi of) a raw draw
                if T.contains(val, lambda x: x[0] == 'callr' and x[1].endswith('tmcg_mpz_grandom_ui')):
                    okloop = True
                    maxterm = fn_[3]
    n += 1
    (ctx.ok if okloop else ctx.bad)('R07c', key0 + ':rejection', 'the value returned was drawn in a loop that exits only when draw <= bound' if okloop else
                                    'bounded sampler returns a draw that was not compared with the rejection bound (modulo bias)', f)
    # the bound is a multiple of the modulus minus one: evaluate the extracted expressions of div/max
    decls = {}
    assigns = {}
    for e in walk(f['body']):
        if e.get('k') == 'bin' and e.get('op') == '=' and e['a'][0].get('k') == 'var':
            assigns[e['a'][0]['n']] = e['a'][1]
            decls[e['a'][0]['n']] = e['a'][0]['id']
    n += 1
    if 'max' in assigns or len(assigns) >= 2:
        # order of evaluation: assignments in source order
        order = [e for e in walk(f['body']) if e.get('k') == 'bin' and e.get('op') == '=' and e['a'][0].get('k') == 'var' and
                 not any(x.get('k') == 'call' for x in walk(e['a'][1]))]
        order.sort(key=lambda e: e.get('l', 0))
        badm = None
        mods = [2, 3, 4, 5, 6, 7, 8, 9, 10, 52, 53, 255, 256, 257, 65535, 65537, (1 << 31) - 1, (1 << 31) + 1, (1 << 32) - 1, (1 << 32) + 1,
                (1 << 63) - 1, 1 << 63, (1 << 63) + 1, ULONG_MAX - 1, ULONG_MAX]
        cmpvar = None
        # which variable is compared with the draw in the loop condition
        for e in walk(f['body']):
            if e.get('k') == 'do' or e.get('k') == 'while':
                for x in walk(e['c']):
                    if x.get('k') == 'var' and x['n'] in [o['a'][0]['n'] for o in order]:
                        cmpvar = x['n']
        for m in mods:
            env = {mod_p['id']: m}
            try:
                for e in order:
                    env[e['a'][0]['id']] = evalx.wrap(evalx.ev(e['a'][1], env), 'unsigned long')
            except evalx.NotEvaluable as ex:
                badm = (m, 'not evaluable: %s' % ex)
                break
            if cmpvar is None:
                badm = (m, 'rejection bound variable not found')
                break
            mx = env[decls[cmpvar]]
            if (mx + 1) % m != 0 or mx > ULONG_MAX or mx < m - 1:
                badm = (m, 'bound %d is not k*modulo-1' % mx)
                break
        if badm:
            ctx.bad('R07c', key0 + ':bound', 'rejection bound wrong for modulo %d: %s' % badm, f)
        else:
            ctx.ok('R07c', key0 + ':bound', 'rejection bound is a multiple of the modulus minus one for %d moduli incl. 2^k+-1 and values near ULONG_MAX' % len(mods), f)
    else:
        ctx.bad('R07c', key0 + ':bound', 'rejection bound computation not found', f, nec=False)
    # modulus zero is refused before the division
    n += 1
    zero = False
    for nn, kind, val, st in a.exits():
        pass
    for nid, evn in a.all_events('branch'):
        pass
    st_ret = [st for nn, val, st in exits]
    mp = T.mk('param', mod_p['n'])
    zero = all(any(T.node(fa) == ('rel', '!=', *sorted((T.int(0), mp))) or T.node(fa) == ('rel', '<', T.int(0), mp) or
                   T.node(fa) == ('rel', '<', T.int(1), mp) or T.node(fa) == ('rel', '<=', T.int(1), mp) or T.node(fa) == ('rel', '<=', T.int(2), mp)
                   for fa in st.facts) for st in st_ret) if st_ret else False
    (ctx.ok if zero else ctx.bad)('R07c', key0 + ':zero', 'modulus 0 is refused before dividing by it' if zero else
                                  'modulus 0 reaches the division', f, nec=False)
    # wrappers reduce by the same modulus
    for q in SAMPLERS:
        g = prog.fn(q, 0)
        b = ctx.analysis(g)
        Tb = b.T
        mp2 = Tb.mk('param', g['params'][0]['n'])
        okw = False
        for nn, kind, val, st in b.exits():
            if kind == 'return' and val is not None:
                vn = Tb.node(val)
                if vn[0] == 'op' and vn[1] == '%' and vn[3] == mp2:
                    inner = Tb.node(vn[2])
                    if inner[0] == 'callr' and inner[1] == 'tmcg_mpz_grandom_ui_nomodbias' and inner[-1] == mp2:
                        okw = True
        n += 1
        (ctx.ok if okw else ctx.bad)('R07c', 'R07c:%s:wrapper' % q, 'returns nomodbias(level, m) % m with the same m' if okw else
                                     'wrapper does not reduce the unbiased draw by the modulus it asked for', g)
    # residue sampler
    g = prog.fn('tmcg_mpz_grandomm', 0)
    b = ctx.analysis(g)
    Tb = b.T
    rp, mp3 = g['params'][0], g['params'][1]
    last = None
    for nid, evn in b.all_events('write'):
        if evn[1] == ('v', rp['id'], rp['n']):
            if last is None or evn[3] >= last[3]:
                last = evn
    n += 1
    okm = last is not None and Tb.node(last[2])[0] == 'mod' and Tb.node(last[2])[2] == Tb.mk('param', mp3['n'])
    (ctx.ok if okm else ctx.bad)('R07c', 'R07c:tmcg_mpz_grandomm:reduce', 'result is reduced modulo m' if okm else 'residue sampler does not reduce its result modulo m (value outside range)', g)
    # number of random bits requested: at least bits(m) + 64
    n += 1
    nb = None
    for e in walk(g['body']):
        if e.get('k') == 'decl':
            for v in e['v']:
                if v['n'] == 'nbytes' or (v.get('init') is not None and any(x.get('k') == 'call' and x.get('f') == 'mpz_sizeinbase' for x in walk(v['init']))):
                    nb = v
    if nb is None:
        ctx.bad('R07c', 'R07c:tmcg_mpz_grandomm:margin', 'size of the random draw is not derived from the modulus length', g, nec=False)
    else:
        badb = None
        # the variable that is passed to the randomness source
        for bits in list(range(1, 200)) + [255, 256, 257, 1023, 1024, 1025, 2048, 3072, 4096, 8191, 8192]:
            def cb(e, env_, bits=bits):
                if e.get('f') == 'mpz_sizeinbase':
                    return bits
                raise evalx.NotEvaluable('call')
            try:
                v = evalx.ev(nb['init'], {}, cb)
            except evalx.NotEvaluable as ex:
                badb = (bits, str(ex))
                break
            if v * 8 < bits + 64:
                badb = (bits, '%d random bits requested' % (v * 8))
                break
        if badb:
            ctx.bad('R07c', 'R07c:tmcg_mpz_grandomm:margin', 'fewer than bits(m)+64 random bits before reduction for a %d-bit modulus (%s): bias not negligible' % badb, g)
        else:
            ctx.ok('R07c', 'R07c:tmcg_mpz_grandomm:margin', 'at least bits(m)+64 random bits are drawn before reduction (modulus lengths 1..8192)', g)
    ctx.floor('R07c', n, 8)


EXPLANATION = ("Exact necessary conditions of uniformity, decided statically: (R07b) the moduli of the independent bounded draws of the "
               "permutation generator are extracted as expressions of (n, loop index) and n! must divide their product for every n in 2..64 "
               "(Fisher-Yates gives n!; drawing from [0,n) gives n^(n-1), Sattolo's variant (n-1)!); (R07a) every index derived from a draw "
               "stays inside the container; (R07c) the bounded sampler returns only draws that passed the rejection comparison, its bound "
               "is k*modulo-1 for moduli incl. 2^k+-1 and values near ULONG_MAX (finite-domain evaluation of the extracted expressions with "
               "64-bit wrap-around), the three wrappers reduce by the modulus they requested, the residue sampler reduces modulo m and draws "
               ">= bits(m)+64 bits. The distribution itself is not decided.")
ASSUMPTIONS = ["the raw generators (libgcrypt) are uniform", "draws are independent", "unsigned long is 64 bit"]
