"""C09 Arithmetic primitives agree with their mathematical definition (narrow structural part).

R09a dual back end: every TMCG_Bigint operation applies corresponding primitives (mpz_X on the
     plain, gcry_mpi_X on the secure back end) to its operands in the same roles,
R09b conversion between the back ends uses one radix on both sides,
R09c the three fixed-base powers are siblings: each refuses exponents longer than the table,
     handles the sign by inversion and is guarded by the base test (shared with C05).
Numerical agreement with GMP, roots, primes and interpolation are not decided."""
from ..facts import walk, AnalysisBroken

CANON = {
    'mpz_add': 'add', 'gcry_mpi_add': 'add', 'mpz_add_ui': 'add_ui', 'gcry_mpi_add_ui': 'add_ui',
    'mpz_sub': 'sub', 'gcry_mpi_sub': 'sub', 'mpz_sub_ui': 'sub_ui', 'gcry_mpi_sub_ui': 'sub_ui',
    'mpz_mul': 'mul', 'gcry_mpi_mul': 'mul', 'mpz_mul_ui': 'mul_ui', 'gcry_mpi_mul_ui': 'mul_ui',
    'mpz_neg': 'neg', 'gcry_mpi_neg': 'neg', 'mpz_abs': 'abs', 'gcry_mpi_abs': 'abs',
    'mpz_tdiv_q': 'div', 'mpz_fdiv_q': 'div', 'mpz_cdiv_q': 'div', 'gcry_mpi_div': 'div', 'mpz_divexact': 'div', 'mpz_tdiv_q_ui': 'div_ui', 'mpz_fdiv_q_ui': 'div_ui',
    'mpz_mod': 'mod', 'gcry_mpi_mod': 'mod', 'mpz_mod_ui': 'mod_ui', 'mpz_tdiv_r': 'mod', 'mpz_fdiv_r': 'mod',
    'mpz_powm': 'powm', 'gcry_mpi_powm': 'powm', 'mpz_powm_ui': 'powm_ui', 'tmcg_mpz_spowm': 'powm',
    'mpz_cmp': 'cmp', 'gcry_mpi_cmp': 'cmp', 'mpz_cmp_ui': 'cmp_ui', 'gcry_mpi_cmp_ui': 'cmp_ui',
    'mpz_mul_2exp': 'shl', 'gcry_mpi_mul_2exp': 'shl', 'mpz_tdiv_q_2exp': 'shr', 'mpz_fdiv_q_2exp': 'shr', 'gcry_mpi_rshift': 'shr',
    'mpz_set': 'set', 'gcry_mpi_set': 'set', 'mpz_set_ui': 'set_ui', 'gcry_mpi_set_ui': 'set_ui',
    'mpz_ui_pow_ui': 'ui_pow_ui', 'mpz_sizeinbase': 'size', 'gcry_mpi_get_nbits': 'size',
    'mpz_get_ui': 'get_ui', 'tmcg_get_gcry_mpi_ui': 'get_ui',
    'mpz_fdiv_r_ui': 'mod_ui', 'mpz_tdiv_r_ui': 'mod_ui', 'mpz_fdiv_ui': 'mod_ui', 'mpz_tdiv_ui': 'mod_ui',
}
NONCOMM = ('sub', 'sub_ui', 'div', 'div_ui', 'mod', 'mod_ui', 'powm', 'powm_ui', 'cmp', 'cmp_ui', 'shl', 'shr')


def ops_of(ctx, f, secret):
    a = ctx.analysis(f, {('m', 'secret'): secret})
    T = a.T
    reach = set(a.instate.keys())
    out = []
    for nid, ev in a.all_events('call'):
        if nid not in reach:
            continue
        name = ev[1]
        if name in CANON:
            roles = []
            for t in ev[2]:
                s = T.show(t, 3)
                if 'that' in s:
                    roles.append('that')
                elif 'this.' in s:
                    roles.append('self')
                else:
                    roles.append('x')
            op = CANON[name]
            if op.endswith('_ui') and op != 'ui_pow_ui':
                op = op[:-3]
            if name == 'gcry_mpi_div' and len(roles) == 5:
                roles = [roles[0], roles[2], roles[3]]      # (quotient, remainder, dividend, divisor, round)
            # a converted temporary or scalar stands for the other operand
            roles = tuple('self' if r == 'self' else 'other' for r in roles[:4])
            out.append((op, roles if op in NONCOMM else None, ev[3]))
    return out


def run(ctx):
    prog = ctx.prog
    n = 0
    for key, f in sorted(prog.funcs.items(), key=lambda kv: kv[1]['line']):
        if f.get('cls') != 'TMCG_Bigint' or not f.get('body') or f['kind'] != 'method':
            continue
        # only operations that branch on the back end
        if not any(e.get('k') == 'mem' and e.get('n') == 'secret' and isinstance(e.get('o'), dict) and e['o'].get('k') == 'this' for e in walk(f['body'])):
            continue
        sec = ops_of(ctx, f, True)
        pla = ops_of(ctx, f, False)
        skip = ('set', 'set_ui', 'size') + (() if f['ret'] == 'bool' else ('cmp',))     # guards (divisor != 0) are not the operation
        sops = sorted(set(o for o, r, l in sec if o not in skip))
        pops = sorted(set(o for o, r, l in pla if o not in skip))
        sec = [x for x in sec if x[0] not in skip]
        pla = [x for x in pla if x[0] not in skip]
        if not sops and not pops:
            continue        # not an arithmetic operation
        if 'random' in f['q']:
            continue        # the two back ends draw randomness by different, non-corresponding mechanisms
        if not sops or not pops:
            # one back end applies a primitive of the table: the other either does not offer the
            # operation (every path throws) or must apply the corresponding primitive
            other = ctx.analysis(f, {('m', 'secret'): not bool(sops)})
            returns = [1 for n_, kind, val, st in other.exits() if kind in ('return', 'end')]
            if not returns:
                continue
            n += 1
            k = 'R09a:%s:%s' % (f['q'], ','.join(p['t'].split(' ')[0 if not p['t'].startswith('const') else 1] for p in f['params'])[:40])
            ctx.bad('R09a', k, 'the %s back end applies %s, the %s back end returns a result without applying the corresponding primitive '
                    '(an ad-hoc replacement is not covered by the correspondence table and need not agree)' % (
                        'secure' if sops else 'plain', sops or pops, 'plain' if sops else 'secure'), f)
            continue
        if 'random' in f['q']:
            continue        # the two back ends draw randomness by different, non-corresponding mechanisms
        n += 1
        k = 'R09a:%s:%s' % (f['q'], ','.join(p['t'].split(' ')[0 if not p['t'].startswith('const') else 1] for p in f['params'])[:40])
        if sops != pops:
            ctx.bad('R09a', k, 'the secure back end applies %s where the plain back end applies %s' % (sops, pops), f)
            continue
        # operand roles of non-commutative primitives
        sr = sorted(set((o, r) for o, r, l in sec if r is not None))
        pr = sorted(set((o, r) for o, r, l in pla if r is not None))

        def norm(rs):
            # the secure branch may route 'that' through a converted temporary (role x): compare positions of self only
            return sorted(set(rs))
        if norm(sr) != norm(pr):
            ctx.bad('R09a', k, 'operands are passed in different roles to the two back ends: secure %s, plain %s' % (norm(sr), norm(pr)), f)
        else:
            ctx.ok('R09a', k, 'both back ends apply %s with the object in the same operand position' % (sops,), f)
    ctx.floor('R09a', n, 15)
    r09b(ctx)
    r09c(ctx)
    r09d(ctx)
    r09e(ctx)


def r09b(ctx):
    prog = ctx.prog
    g = prog.fn('tmcg_mpz_get_gcry_mpi', 0)
    s = prog.fn('tmcg_mpz_set_gcry_mpi', 0)

    def info(f):
        fmt = set()
        base = set()
        for e in walk(f['body']):
            if e.get('k') == 'int' and e.get('n', '').startswith('GCRYMPI_FMT'):
                fmt.add(e['n'].split('::')[-1])
            if e.get('k') == 'call' and e.get('f') in ('mpz_get_str', 'mpz_set_str', 'mpz_sizeinbase'):
                idx = {'mpz_get_str': 1, 'mpz_set_str': 2, 'mpz_sizeinbase': 1}[e['f']]
                if idx < len(e['a']) and e['a'][idx].get('k') == 'int':
                    base.add(e['a'][idx]['v'])
        return fmt, base
    gf, gb = info(g)
    sf, sb = info(s)
    want = {'GCRYMPI_FMT_HEX': 16}
    ok = gf == sf and len(gf) == 1 and gb == sb and len(gb) == 1 and want.get(list(gf)[0]) == list(gb)[0]
    (ctx.ok if ok else ctx.bad)('R09b', 'R09b:conversion', 'both conversions use hexadecimal text with GCRYMPI_FMT_HEX' if ok else
                                'the two back-end conversions disagree on the text radix / format: get %s/%s, set %s/%s' % (sorted(gf), sorted(gb), sorted(sf), sorted(sb)), g)


def r09c(ctx):
    prog = ctx.prog
    sigs = {}
    for q in ('tmcg_mpz_fpowm', 'tmcg_mpz_fpowm_ui', 'tmcg_mpz_fspowm'):
        f = prog.fn(q, 0)
        a = ctx.analysis(f)
        T = a.T
        # exponent length guard against TMCG_MAX_FPOWM_T and sign handling by inversion
        has_len = any(e.get('k') == 'int' and e.get('m') == 'TMCG_MAX_FPOWM_T' for e in walk(f['body']))
        has_inv = any(e.get('k') == 'call' and e.get('f') == 'mpz_invert' for e in walk(f['body']))
        sigs[q] = (has_len, has_inv)
    okl = all(v[0] for v in sigs.values())
    (ctx.ok if okl else ctx.bad)('R09c', 'R09c:table-limit', 'every table-based power compares the exponent length with the table size' if okl else
                                 'a table-based power no longer bounds the exponent by the table size: %s' % sigs, None, nec=False)
    signed = [q for q, v in sigs.items() if v[1]]
    oks = set(signed) >= {'tmcg_mpz_fpowm', 'tmcg_mpz_fspowm'}
    (ctx.ok if oks else ctx.bad)('R09c', 'R09c:sign', 'negative exponents are handled by inversion in the signed variants' if oks else
                                 'sign handling differs between the table-based powers: %s' % sigs, None, nec=False)


def _same_object(x, y):
    """two argument expressions that denote the same mpz object (same variable, same member of this, same cell)"""
    def norm(e):
        while isinstance(e, dict) and (e.get('k') in ('cast', 'paren') or (e.get('k') == 'un' and e.get('op') in ('&', '*'))):
            e = e['e'] if 'e' in e else e['a'][0]
        if not isinstance(e, dict):
            return None
        k = e.get('k')
        if k == 'var':
            return ('v', e.get('id'))
        if k == 'mem':
            o = norm(e.get('o')) if isinstance(e.get('o'), dict) and e['o'].get('k') != 'this' else ('this',)
            return ('m', o, e.get('n'))
        if k in ('idx', 'opcall') and (k == 'idx' or e.get('op') == '[]'):
            return ('ix', norm(e['a'][0]), norm(e['a'][1]))
        if k == 'int':
            return ('i', e.get('v'))
        return None
    a, b = norm(x), norm(y)
    return a is not None and a == b and a[0] != 'i'


def alias_unsafe_pairs(prog, f):
    """(result parameter index, input parameter index, line of the first write, line of the last read) for every pair of mpz
    parameters of f such that the result is written before the input is read for the last time (statement order)"""
    from ..statecover import GMP_OBSERVERS
    pidx = {p['id']: i for i, p in enumerate(f['params']) if '__mpz_struct' in p['t']}
    ev = []

    def is_p(e):
        while isinstance(e, dict) and e.get('k') in ('cast', 'paren'):
            e = e['e']
        return e.get('id') if isinstance(e, dict) and e.get('k') == 'var' and e.get('id') in pidx else None

    def rec(e):
        if isinstance(e, list):
            for x in e:
                rec(x)
            return
        if not isinstance(e, dict):
            return
        if e.get('k') == 'call':
            name = e.get('f', '').replace('__gmpz_', 'mpz_')
            args = e.get('a', [])
            g = prog.funcs.get(e.get('fid')) if e.get('fid') else None
            if name.startswith('mpz_') and name not in GMP_OBSERVERS:
                for a in args[1:]:
                    if is_p(a) is not None:
                        ev.append(('r', is_p(a), e.get('l')))
                    else:
                        rec(a)
                if args and is_p(args[0]) is not None:
                    ev.append(('w', is_p(args[0]), e.get('l')))
                elif args:
                    rec(args[0])
                return
            for i, a in enumerate(args):
                p = is_p(a)
                if p is None:
                    rec(a)
                    continue
                pt = g['params'][i]['t'] if g and i < len(g['params']) else ''
                if name == 'mpz_sgn':
                    ev.append(('s', p, e.get('l')))       # only the sign is looked at
                else:
                    ev.append(('w' if (g is not None and '__mpz_struct *' in pt and not pt.startswith('const')) else 'r', p, e.get('l')))
            return
        p = is_p(e)
        if p is not None:
            ev.append(('r', p, e.get('l')))
            return
        for k, v in e.items():
            if isinstance(v, (dict, list)):        # ('t' is the type of an expression but the then-branch of an if)
                rec(v)
    rec(f['body'])
    out = []
    for rid, ri in pidx.items():
        if f['params'][ri]['t'].startswith('const'):
            continue
        fw = [j for j, (kd, p, l) in enumerate(ev) if kd == 'w' and p == rid]
        if not fw:
            continue
        for xid, xi in pidx.items():
            if xid == rid:
                continue
            lr = [j for j, (kd, p, l) in enumerate(ev) if kd == 'r' and p == xid]
            ls = [j for j, (kd, p, l) in enumerate(ev) if kd == 's' and p == xid]
            if lr and fw[0] < lr[-1]:
                out.append((ri, xi, ev[fw[0]][2], ev[lr[-1]][2], 'value'))
            elif ls and fw[0] < ls[-1]:
                # only the sign of the operand is read after the result was written: with one object in both roles the
                # call is still right for non-negative operands (the result of a modular power is non-negative)
                out.append((ri, xi, ev[fw[0]][2], ev[ls[-1]][2], 'sign'))
    return out


def r09e(ctx):
    """operand aliasing: GMP functions accept the same object as result and operand, the library's own primitives do not
    all do so -- tmcg_mpz_spowm clears its result before it copies the exponent.  For every primitive of the arithmetic
    units the pairs (result parameter, input parameter) with "result written before the input was read for the last time"
    are computed from the statement order of its body; no call site in the library may pass one object in both roles
    (the call then computes with a clobbered operand: g^0 instead of g^x, silently)."""
    prog = ctx.prog
    table = {}
    for k, f in prog.funcs.items():
        if f.get('body') and f['file'].endswith(ARITH_UNITS + ('mpz_srandom.cc',)):
            pr = alias_unsafe_pairs(prog, f)
            if pr:
                table[k] = (f, pr)
    n = 0
    nbad = 0
    nsign = 0
    for k, g in sorted(prog.funcs.items(), key=lambda kv: (kv[1]['file'], kv[1]['line'])):
        if not g.get('body'):
            continue
        for e in walk(g['body']):
            if e.get('k') != 'call' or e.get('fid') not in table:
                continue
            f, pairs = table[e['fid']]
            args = e.get('a', [])
            n += 1
            for ri, xi, lw, lr, sev in pairs:
                if ri < len(args) and xi < len(args) and _same_object(args[ri], args[xi]):
                    if sev == 'sign':
                        nsign += 1
                        continue
                    nbad += 1
                    ctx.bad('R09e', 'R09e:%s:%s(%s=%s)' % (g['q'], f['q'], f['params'][ri]['n'], f['params'][xi]['n']),
                            '%s is called with one object as result `%s` and as operand `%s`, but it writes the result (line %s) before it reads that operand '
                            'for the last time (line %s): the operand is clobbered and the call silently computes something else' % (
                                f['q'], f['params'][ri]['n'], f['params'][xi]['n'], lw, lr), g, line=e.get('l'))
    if nsign:
        ctx.note('R09e', 'R09e:sign-only', '%d call sites pass one object as result and exponent of a table-based power that looks at the sign of the exponent after '
                 'writing the result: right for non-negative exponents only (not decided here)' % nsign)
    if nbad == 0:
        ctx.ok('R09e', 'R09e:no-unsafe-aliasing', 'none of the %d call sites of the %d primitives with an alias-unsafe (result, operand) pair passes one object in both roles' % (n, len(table)))
    ctx.floor('R09e', len(table), 8)
    ctx.floor('R09e:sites', n, 100)


ARITH_UNITS = ('mpz_spowm.cc', 'mpz_sqrtm.cc', 'mpz_sprime.cc', 'mpz_helper.cc', 'mpz_shash.cc', 'TMCG_Bigint.cc')


def r09d(ctx):
    """word-level arithmetic inside the primitives: a shift evaluated in a 32-bit type (`1 << i` with an int literal) must
    have a shift amount provably below 32 -- a bit mask built that way for positions of a 64-bit exponent is wrong from
    bit 32 on (the value is simply another power), and nothing throws.  Today the primitives contain no such shift; the
    rule is kept armed by a self-test mutant."""
    from .. import ranges
    prog = ctx.prog
    n = 0
    nf = 0
    for k, f in sorted(prog.funcs.items(), key=lambda kv: (kv[1]['file'], kv[1]['line'])):
        if not f.get('body') or not f['file'].endswith(ARITH_UNITS):
            continue
        if not any(e.get('k') == 'bin' and e.get('op') in ('<<', '<<=') for e in walk(f['body'])):
            nf += 1
            continue
        nf += 1
        a = ctx.analysis(f)
        T = a.T
        occ = {}
        for nid, ev in sorted(a.all_events('narrow'), key=lambda x: (x[1][5], x[0])):
            _, op, x, y, ty, line = ev
            if op != '<<' or ty not in ('int', 'unsigned int'):
                continue
            st = a.instate[nid]
            r = ranges.interval(a, y, st)
            hi = r[1] if r is not None else None
            if hi is None:
                b = ranges.fact_bounds(a, y, st)
                hi = b[1] if b is not None else None
            key0 = 'R09d:%s:%s' % (f['q'], T.show(y, 2)[:40])
            occ[key0] = occ.get(key0, 0) + 1
            key = '%s#%d' % (key0, occ[key0])
            n += 1
            if hi is not None and hi <= 31:
                ctx.ok('R09d', key, '32-bit shift by at most %d positions' % hi, f, line=line)
            else:
                ctx.bad('R09d', key, 'a shift is evaluated in %s (32 bits) but the shift amount %s is %s: for positions from 32 on the result is not '
                        'the intended power of two (undefined behaviour; in practice the count wraps modulo 32)' % (
                            ty, T.show(y, 2), 'bounded only by %d' % hi if hi is not None else 'not bounded'), f, line=line)
    if n == 0:
        ctx.ok('R09d', 'R09d:no-narrow-shift', 'no shift is evaluated in a 32-bit type in the %d functions of the arithmetic units' % nf)
    ctx.floor('R09d', nf, 40)


EXPLANATION = ("Sibling agreement of the dual big-integer back end: for every TMCG_Bigint operation that branches on the back end, the set of "
               "primitives applied on the secure (libgcrypt) path maps, through a fixed table, to the set applied on the plain (GMP) path, with "
               "the object in the same operand position for non-commutative operations; the two conversions use the same hexadecimal text "
               "format. Four of the six clauses of C09 (numerical agreement of the power variants, square roots, prime generators, "
               "interpolation) are statements about computed values and are not decided.")
ASSUMPTIONS = ["the correspondence table mpz_X <-> gcry_mpi_X in sa/rules/c09.py", "operand roles are recognised by member / parameter origin"]
