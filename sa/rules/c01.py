"""C01 Opening a masked card returns the type it was created with (structural part only).

The statement is an algebraic identity over runtime group elements; what is decided here are the
shape conditions without which it cannot hold, read off the terms the dataflow computes:

R01a ElGamal shapes: masking gives (g^r, m*h^r), re-masking (c_1*g^r, c_2*h^r), one and the same r,
     the generator with c_1 and the common key with c_2, everything modulo p,
R01b decryption chain: the accumulator d starts as c_1^{x_i}, is multiplied modulo p by a received
     share only on the path where the equality-of-discrete-logs proof for that very share, the
     stored key of that player and this c_1 was accepted and the share passed the subgroup membership
     test, and the opening is c_2 * d^{-1} mod p;
     the share a player publishes is c_1^{x_i} with the proof for (d_i, h_i, c_1, g),
R01c type table of the discrete-log encoding: encoder and decoder fill message_space[t] with
     IndexElement(., t) for the index they access, IndexElement is g^index mod p, the decoder
     compares the opening with every t in [0, 2^w) and returns the sentinel TMCG_MaxCardType
     otherwise; TMCG_MaxCardType is 2^TMCG_TypeBits and the table has that many entries,
R01d bitwise encoding: the encoder consumes the type from the least significant bit upwards
     (bit set <-> the non-residue y of player 0, all other players 1), the decoder weights bit w
     with 2^w and XORs over all players and all bits; masking a value is z*r^2*y^b mod m; a
     player's own secret bit is 0 exactly for quadratic residues.
Recovering the type for all chains of maskings and all key sets is not decided."""
from ..facts import AnalysisBroken

VT = 'BarnettSmartVTMF_dlog'
TM = 'SchindelhauerTMCG'


def pick(prog, q, ptype):
    r = [f for f in prog.by_q.get(q, []) if f.get('body') and any(ptype in p['t'] for p in f['params'])]
    if len(r) != 1:
        raise AnalysisBroken('anchor %s(%s) not found exactly once (%d)' % (q, ptype, len(r)))
    return r[0]


def param(a, f, name):
    for p in f['params']:
        if p['n'] == name:
            return ('v', p['id'], p['n'])
    raise AnalysisBroken('%s has no parameter %s any more' % (f['q'], name))


def final(a, loc):
    """value of a location at the (single) normal exit"""
    ex = [st for n, kind, val, st in a.exits() if kind in ('end', 'return')]
    if len(ex) != 1:
        return None
    return a.read(loc, ex[0])


def mulmod(T, t, x, y, p):
    n = T.node(t)
    if n[0] != 'mod' or n[2] != p:
        return False
    m = T.node(n[1])
    return m[0] == 'mul' and len(m) == 3 and set(m[1:]) == {x, y} and x != y or (m[0] == 'mul' and len(m) == 3 and m[1] == x and m[2] == y)


def plain(T, facts):
    """facts with the per-iteration wrapper all(loops, F) removed"""
    out = []
    for fa in facts:
        n = T.node(fa)
        out.append(n[2] if n[0] == 'all' else fa)
    return out


def phi_sources(T, t, depth=4):
    n = T.node(t)
    if n[0] != 'phi' or depth == 0:
        return {t}
    out = set()
    for y in T.phi_src.get((n[1], n[2]), ()):
        if y != t:
            out |= phi_sources(T, y, depth - 1)
    return out


def run(ctx):
    prog = ctx.prog
    r01a(ctx)
    r01b(ctx)
    r01c(ctx)
    r01d(ctx)
    r01e(ctx)


def r01e(ctx):
    """copy assignment of the card and card-secret classes writes every state-carrying member (sa/statecover.py): a card
    that keeps a component (or a cached value derived from one) of its previous contents opens to something else"""
    from ..statecover import assignment_gaps
    n = 0
    for cls in ('TMCG_Card', 'VTMF_Card', 'TMCG_CardSecret', 'VTMF_CardSecret'):
        r = assignment_gaps(ctx.prog, cls)
        if r is None:
            continue
        gaps, cs, ex, ops = r
        n += 1
        if gaps:
            for m, f, line, op in gaps:
                ctx.bad('R01e', 'R01e:%s:%s' % (cls, m), 'operator= does not write the member %s, which %s reads before writing it (line %d): an '
                        'assigned card keeps the old %s' % (m, f['q'], line, m), op)
        else:
            ctx.ok('R01e', 'R01e:%s' % cls, 'operator= writes all state-carrying members (%s)' % (', '.join(sorted(ex)) or 'none read before written'), ops[0])
    ctx.floor('R01e', n, 4)


# ------------------------------------------------------------------------------------- R01a
def r01a(ctx):
    prog = ctx.prog
    n = 0
    for cls in sorted(prog.subclasses(VT)):
        for name, kind in (('VerifiableMaskingProtocol_Mask', 'mask'), ('VerifiableRemaskingProtocol_Mask', 'remask'), ('VerifiableRemaskingProtocol_Remask', 'remask')):
            for f in prog.by_q.get('%s::%s' % (cls, name), []):
                if not f.get('body'):
                    continue
                a = ctx.analysis(f)
                T = a.T
                g, h, p = T.mk('this', 'g'), T.mk('this', 'h'), T.mk('this', 'p')
                r = final(a, param(a, f, 'r'))
                key = 'R01a:%s::%s' % (cls, name)
                n += 1
                if r is None:
                    ctx.bad('R01a', key, 'no single normal exit', f)
                    continue
                gr, hr = T.mk('powm', g, r, p), T.mk('powm', h, r, p)
                if kind == 'mask':
                    c1, c2 = final(a, param(a, f, 'c_1')), final(a, param(a, f, 'c_2'))
                    m = T.mk('param', 'm')
                    ok1 = c1 == gr
                    ok2 = mulmod(T, c2, m, hr, p)
                    want = '(g^r, m * h^r) mod p'
                else:
                    c1, c2 = final(a, param(a, f, 'c__1')), final(a, param(a, f, 'c__2'))
                    ok1 = mulmod(T, c1, T.mk('param', 'c_1'), gr, p)
                    ok2 = mulmod(T, c2, T.mk('param', 'c_2'), hr, p)
                    want = '(c_1 * g^r, c_2 * h^r) mod p'
                if ok1 and ok2:
                    ctx.ok('R01a', key, 'result is %s with one exponent r' % want, f)
                else:
                    ctx.bad('R01a', key, 'result is not %s with one and the same r: first component %s, second component %s' % (
                        want, T.show(c1, 5), T.show(c2, 5)), f)
    ctx.floor('R01a', n, 3)


# ------------------------------------------------------------------------------------- R01b
def r01b(ctx):
    prog = ctx.prog
    n = 0
    for cls in sorted(prog.subclasses(VT)):
        for f in prog.by_q.get('%s::VerifiableDecryptionProtocol_Verify_Initialize' % cls, []):
            if not f.get('body'):
                continue
            a = ctx.analysis(f)
            T = a.T
            d = final(a, ('m', 'd'))
            n += 1
            okv = d == T.mk('powm', T.mk('param', 'c_1'), T.mk('this', 'x_i'), T.mk('this', 'p'))
            (ctx.ok if okv else ctx.bad)('R01b', 'R01b:%s:initialize' % cls, 'd starts as the own share c_1^{x_i} mod p' if okv else
                                         'the accumulator is initialised with %s instead of c_1^{x_i} mod p' % (T.show(d, 5) if d is not None else '?'), f)
        for f in prog.by_q.get('%s::VerifiableDecryptionProtocol_Verify_Update' % cls, []):
            if not f.get('body'):
                continue
            a = ctx.analysis(f)
            T = a.T
            d0, p = T.mk('this', 'd'), T.mk('this', 'p')
            c1 = T.mk('param', 'c_1')
            n += 1
            acc = a.accept_exits()
            bad = None
            for nd, facts in acc:
                st = a.instate[nd.id]
                dv = st.env.get(('m', 'd'))
                if dv is None:
                    bad = 'an accepting path leaves d unchanged'
                    break
                dn = T.node(dv)
                if not (dn[0] == 'mod' and dn[2] == p and T.node(dn[1])[0] == 'mul' and d0 in T.node(dn[1])[1:]):
                    bad = 'on an accepting path d becomes %s, not d * d_j mod p' % T.show(dv, 5)
                    break
                share = [x for x in T.node(dn[1])[1:] if x != d0]
                if len(share) != 1 or T.op(a.strip_ix(share[0], a.ix_loops(share[0]))) != 'wire':
                    bad = 'the value multiplied into d is not the received share'
                    break
                sh = share[0]
                proved = False
                for fa in facts:
                    fn_ = T.node(fa)
                    if fn_[0] == 'truthy' and T.node(fn_[1])[0] == 'mc' and T.node(fn_[1])[1].endswith('::CP_Verify'):
                        args = T.node(fn_[1])[3:]
                        if len(args) >= 4 and args[0] == sh and args[2] == c1 and args[3] == T.mk('this', 'g') and 'h_j' in T.show(args[1], 4):
                            proved = True
                if not proved:
                    bad = 'the share is multiplied into d without an accepted proof CP(d_j, h_j, c_1, g) for this very share and this c_1'
                    break
                member = any(T.node(fa)[0] == 'truthy' and T.node(T.node(fa)[1])[0] == 'mc' and T.node(T.node(fa)[1])[1].endswith('::CheckElement') and
                             sh in T.node(T.node(fa)[1])[3:] for fa in facts)
                if not member:
                    bad = ('the share is multiplied into d without the subgroup membership test: the proof binds it only up to factors of small order '
                           '(-c_1^{x_j} verifies for every even challenge), and the card then opens to the sentinel instead of its type')
                    break
            if not acc:
                bad = 'no accepting exit'
            if bad is None:
                for nd, st in a.reject_exits():
                    dv = st.env.get(('m', 'd'))
                    if dv is not None and dv != d0:
                        bad = 'd is modified on a rejecting path (line %d)' % nd.line
                        break
            (ctx.ok if bad is None else ctx.bad)('R01b', 'R01b:%s:update' % cls, 'd is multiplied by a share only after CP(d_j, h_j, c_1, g) was accepted for it; untouched on refusal'
                                                 if bad is None else bad, f)
        for f in prog.by_q.get('%s::VerifiableDecryptionProtocol_Verify_Finalize' % cls, []):
            if not f.get('body'):
                continue
            a = ctx.analysis(f)
            T = a.T
            m = final(a, param(a, f, 'm'))
            p, c2 = T.mk('this', 'p'), T.mk('param', 'c_2')
            inv = T.mk('inv', T.mk('this', 'd'), p)
            n += 1
            okv = False
            if m is not None:
                mn = T.node(m)
                if mn[0] == 'mod' and mn[2] == p and T.node(mn[1])[0] == 'mul' and c2 in T.node(mn[1])[1:]:
                    oth = [x for x in T.node(mn[1])[1:] if x != c2]
                    if len(oth) == 1:
                        src = phi_sources(T, oth[0])
                        okv = inv in src and all(x == inv or T.is_int(x, 0) for x in src)
            (ctx.ok if okv else ctx.bad)('R01b', 'R01b:%s:finalize' % cls, 'the opening is c_2 * d^{-1} mod p' if okv else
                                         'the opening is %s, not c_2 * d^{-1} mod p' % (T.show(m, 5) if m is not None else '?'), f)
        for f in prog.by_q.get('%s::VerifiableDecryptionProtocol_Prove' % cls, []):
            if not f.get('body'):
                continue
            a = ctx.analysis(f)
            T = a.T
            c1, xi, p = T.mk('param', 'c_1'), T.mk('this', 'x_i'), T.mk('this', 'p')
            want = T.mk('powm', c1, xi, p)
            n += 1
            snd = [ev for nid, ev in sorted(a.all_events('snd'), key=lambda x: -x[0]) if T.op(ev[2]) not in ('str', 'sym')]
            sent = bool(snd) and any(ev[2] == want for ev in snd)
            prf = False
            for nid, ev in list(a.all_events('selfcall')) + list(a.all_events('mcall')):
                if ev[1].endswith('::CP_Prove'):
                    args = ev[2] if ev[0] == 'selfcall' else ev[3]
                    if len(args) >= 5 and args[0] == want and args[1] == T.mk('this', 'h_i') and args[2] == c1 and args[3] == T.mk('this', 'g') and args[4] == xi:
                        prf = True
            okv = sent and prf
            (ctx.ok if okv else ctx.bad)('R01b', 'R01b:%s:prove' % cls, 'the published share is c_1^{x_i} mod p with the proof CP(d_i, h_i, c_1, g; x_i)' if okv else
                                         'the published share is not c_1^{x_i} mod p accompanied by CP(d_i, h_i, c_1, g; x_i) (share sent: %s, proof: %s)' % (sent, prf), f)
    ctx.floor('R01b', n, 4)


# ------------------------------------------------------------------------------------- R01c
def table_indices(a):
    """index terms of all accesses to the member table message_space"""
    return [(nid, ev[2]) for nid, ev in a.all_events('index') if ev[1] == ('m', 'message_space') and ev[2] is not None]


def r01c(ctx):
    prog = ctx.prog
    n = 0
    # IndexElement
    for cls in sorted(prog.subclasses(VT)):
        for f in prog.by_q.get('%s::IndexElement' % cls, []):
            if not f.get('body'):
                continue
            a = ctx.analysis(f)
            T = a.T
            v = final(a, param(a, f, f['params'][0]['n']))
            idx = T.mk('param', f['params'][1]['n'])
            n += 1
            okv = v == T.mk('powm', T.mk('this', 'g'), idx, T.mk('this', 'p'))
            (ctx.ok if okv else ctx.bad)('R01c', 'R01c:%s::IndexElement' % cls, 'the element of index i is g^i mod p (distinct for i below the group order)' if okv else
                                         'IndexElement computes %s, not g^index mod p' % (T.show(v, 5) if v is not None else '?'), f)
    # encoders
    for q in ('TMCG_CreateOpenCard', 'TMCG_CreatePrivateCard'):
        f = pick(prog, '%s::%s' % (TM, q), 'VTMF_Card')
        a = ctx.analysis(f)
        T = a.T
        ty = T.mk('param', 'type')
        n += 1
        idx = table_indices(a)
        fills = [ev for nid, ev in a.all_events('mcall') if ev[1].endswith('::IndexElement')]
        bad = None
        if not idx or not fills:
            bad = 'the card value is no longer taken from message_space[type] filled by IndexElement'
        elif any(t != ty for nid, t in idx):
            bad = 'message_space is accessed with an index other than the card type (%s)' % ', '.join(sorted(set(T.show(t, 3) for nid, t in idx if t != ty)))
        elif any(len(ev[3]) != 2 or ev[3][1] != ty for ev in fills):
            bad = 'message_space[type] is filled with the element of another index (%s)' % ', '.join(T.show(ev[3][1], 3) for ev in fills if len(ev[3]) == 2)
        if bad is None:
            if q == 'TMCG_CreateOpenCard':
                c = param(a, f, 'c')
                w1 = [ev[2] for nid, ev in a.all_events('write') if ev[1] == ('f', c, 'c_1')]
                w2 = [ev[2] for nid, ev in a.all_events('write') if ev[1] == ('f', c, 'c_2')]
                if not w1 or not all(T.is_int(x, 1) for x in w1):
                    bad = 'the open card does not start with c_1 = 1'
                elif not w2 or not all('message_space' in T.show(x, 4) for x in w2):
                    bad = 'c_2 of the open card is not message_space[type]'
            else:
                mk = [ev for nid, ev in a.all_events('mcall') if ev[1].endswith('::VerifiableMaskingProtocol_Mask')]
                if not mk or 'message_space' not in T.show(mk[0][3][0], 4):
                    bad = 'the private card does not mask message_space[type]'
        (ctx.ok if bad is None else ctx.bad)('R01c', 'R01c:%s:encode' % q, 'the card value is message_space[type], filled on demand with IndexElement(., type)' if bad is None else bad, f)
    # decoder
    f = pick(prog, '%s::TMCG_TypeOfCard' % TM, 'VTMF_Card')
    a = ctx.analysis(f)
    T = a.T
    n += 1
    bad = None
    full = [L for L, b in a.loop_bound.items() if b and b[0] == T.mk('this', 'TMCG_MaxCardType') and b[1] in ('<', '!=') and T.is_int(b[2], 0) and b[3] == 1]
    fin = [ev for nid, ev in a.all_events('mcall') if ev[1].endswith('::VerifiableDecryptionProtocol_Verify_Finalize')]
    if len(full) != 1:
        bad = 'the search does not run over every type t in [0, TMCG_MaxCardType)'
    elif not fin or 'c_2' not in T.show(fin[0][3][0], 3):
        bad = 'the opening is not computed from c_2 by Verify_Finalize'
    else:
        iv = T.mk('iv', full[0])
        idx = table_indices(a)
        fills = [ev for nid, ev in a.all_events('mcall') if ev[1].endswith('::IndexElement')]
        cmps = [ev for nid, ev in a.all_events('call') if ev[1] == 'mpz_cmp' and any('Verify_Finalize' in T.show(x, 3) for x in ev[2])]
        if not idx or any(t != iv for nid, t in idx):
            bad = 'message_space is accessed with an index other than the loop counter'
        elif not fills or any(len(ev[3]) != 2 or ev[3][1] != iv for ev in fills):
            bad = 'message_space[t] is filled with the element of another index'
        elif not cmps or not all(any('message_space' in T.show(x, 4) for x in ev[2]) for ev in cmps):
            bad = 'the opening is not compared with message_space[t]'
        else:
            rets = [val for nn, kind, val, st in a.exits() if kind == 'return' and val is not None]
            src = set()
            for v in rets:
                src |= phi_sources(T, v)
            if T.mk('this', 'TMCG_MaxCardType') not in src:
                bad = 'an opening that matches no type does not return the sentinel TMCG_MaxCardType'
            elif not all(x == T.mk('this', 'TMCG_MaxCardType') or x == iv for x in src):
                bad = 'the returned type is neither the matching t nor the sentinel (%s)' % ', '.join(T.show(x, 3) for x in src)
    (ctx.ok if bad is None else ctx.bad)('R01c', 'R01c:TMCG_TypeOfCard:decode', 'the opening is compared with message_space[t] = IndexElement(t) for every t in [0, 2^w); the matching t or the '
                                         'sentinel is returned' if bad is None else bad, f)
    # table size
    ctors = [g for g in prog.by_q.get('%s::%s' % (TM, TM), []) if g.get('body')]
    for g in ctors:
        a = ctx.analysis(g)
        T = a.T
        n += 1
        mx = final(a, ('m', 'TMCG_MaxCardType'))
        tb = T.mk('this', 'TMCG_TypeBits')
        tbv = final(a, ('m', 'TMCG_TypeBits'))
        okp = False
        if mx is not None:
            mn = T.node(mx)
            if mn[0] == 'phi':
                src = set(T.phi_src.get((mn[1], mn[2]), ()))
                dbl = [x for x in src if T.node(x)[0] == 'op' and T.node(x)[1] == '*' and set(T.node(x)[2:]) == {T.int(2), mx}]
                lb = a.loop_bound.get(mn[1])
                okp = T.int(1) in src and len(dbl) == 1 and len(src) == 2 and lb is not None and lb[0] in (tb, tbv) and lb[1] in ('<', '!=') and T.is_int(lb[2], 0) and lb[3] == 1
            elif mn[0] in ('pow',) and T.is_int(mn[1], 2) and mn[2] in (tb, tbv):
                okp = True
            elif mn[0] == 'op' and mn[1] == '<<' and T.is_int(mn[2], 1) and mn[3] in (tb, tbv):
                okp = True
        allocs = [ev for nid, ev in a.all_events('alloc')]
        oka = any(ev[1] == mx for ev in allocs) if mx is not None else False
        okv = okp and oka
        (ctx.ok if okv else ctx.bad)('R01c', 'R01c:constructor:table', 'TMCG_MaxCardType = 2^TMCG_TypeBits and message_space has that many entries' if okv else
                                     ('TMCG_MaxCardType is not 2^TMCG_TypeBits (%s)' % (T.show(mx, 4) if mx is not None else '?') if not okp else
                                      'message_space is not allocated with TMCG_MaxCardType entries'), g)
    ctx.floor('R01c', n, 5)


# ------------------------------------------------------------------------------------- R01d
def r01d(ctx):
    prog = ctx.prog
    n = 0
    # decoder: XOR over all players, weight 2^w
    f = pick(prog, '%s::TMCG_TypeOfCard' % TM, 'TMCG_CardSecret')
    a = ctx.analysis(f)
    T = a.T
    n += 1
    bad = None
    loops = {L: b for L, b in a.loop_bound.items() if b}
    outer = [L for L, b in loops.items() if b[1] in ('<', '!=') and T.is_int(b[2], 0) and b[3] == 1 and T.op(b[0]) == 'mc' and 'size' in T.node(b[0])[1] and
             T.show(b[0], 4).count('[0]') == 1]
    inner = [L for L, b in loops.items() if b[1] in ('<', '!=') and T.is_int(b[2], 0) and b[3] == 1 and T.op(b[0]) == 'mc' and 'size' in T.node(b[0])[1] and
             '[0]' not in T.show(b[0], 4)]
    rets = [val for nn, kind, val, st in a.exits() if kind == 'return' and val is not None]
    if len(outer) != 1 or len(inner) != 1:
        bad = 'the decoder does not run over all bits w in [0, bits) and, inside, all players k in [0, players)'
    elif len(rets) != 1 or T.op(rets[0]) != 'phi':
        bad = 'the returned type is not the accumulated sum'
    else:
        Lw, Lk = outer[0], inner[0]
        ty = rets[0]
        src = set(T.phi_src.get((T.node(ty)[1], T.node(ty)[2]), ()))
        # type: 0, then type + p2 (or unchanged)
        # the weights are distinct powers of two, so `type |= p2` is the same sum
        adds = [x for x in phi_sources(T, ty, 3) if T.node(x)[0] == 'op' and T.node(x)[1] in ('+', '|')]
        weight = None
        for x in adds:
            ops = [y for y in T.node(x)[2:] if T.op(y) == 'phi' and y != ty and T.node(y)[1] == Lw]
            if len(ops) == 1:
                weight = ops[0]
        if not any(T.is_int(x, 0) for x in phi_sources(T, ty, 3)) or weight is None:
            bad = 'the type is not accumulated as 0 + sum of the weights of the set bits'
        else:
            wsrc = set(T.phi_src.get((T.node(weight)[1], T.node(weight)[2]), ()))
            dbl = [x for x in wsrc if T.node(x)[0] == 'op' and T.node(x)[1] == '*' and set(T.node(x)[2:]) == {T.int(2), weight}] + \
                  [x for x in wsrc if T.node(x)[0] == 'op' and T.node(x)[1] == '<<' and T.node(x)[2] == weight and T.is_int(T.node(x)[3], 1)]
            if T.int(1) not in wsrc or len(dbl) != 1 or len(wsrc) != 2:
                bad = 'the weight of bit w is not 1, 2, 4, ... (sources %s)' % ', '.join(T.show(x, 3) for x in wsrc)
            else:
                # the bit is toggled once per player whose secret bit is set: writes not(bit) under b[k][w] & 1, starts false
                tog = [(nid, ev) for nid, ev in a.all_events('write') if T.node(ev[2])[0] == 'not' and T.op(T.node(ev[2])[1]) == 'phi' and T.node(T.node(ev[2])[1])[1] == Lk]
                rd = [ev for nid, ev in a.all_events('call') if ev[1] == 'mpz_get_ui' and Lw in a.ix_loops(ev[2][0]) and Lk in a.ix_loops(ev[2][0])]
                xr = [(nid, ev) for nid, ev in a.all_events('write') if T.node(ev[2])[0] == 'op' and T.node(ev[2])[1] == '^' and
                      any(T.op(y) == 'phi' and T.node(y)[1] == Lk for y in T.node(ev[2])[2:])]
                if len(tog) != 1 and len(xr) == 1 and rd:
                    # bit ^= (b[k][w] & 1)
                    acc_ = [y for y in T.node(xr[0][1][2])[2:] if T.op(y) == 'phi' and T.node(y)[1] == Lk][0]
                    oth = [y for y in T.node(xr[0][1][2])[2:] if y != acc_]
                    lsb = len(oth) == 1 and T.node(oth[0])[0] == 'op' and T.node(oth[0])[1] == '&' and T.int(1) in T.node(oth[0])[2:] and T.contains(oth[0], lambda z: z[0] == 'get_ui')
                    if not lsb or not any(T.is_int(x, 0) or T.node(x) == ('bool', False) for x in phi_sources(T, acc_, 3)):
                        bad = 'the XOR accumulator does not start at 0 or does not take the least significant bit of b[k][w]'
                elif len(tog) != 1 or not rd:
                    bad = 'the bit of position w is not the XOR over b[k][w] of all players k'
                else:
                    bitphi = T.node(tog[0][1][2])[1]
                    bsrc = set(T.phi_src.get((T.node(bitphi)[1], T.node(bitphi)[2]), ()))
                    st = a.instate[tog[0][0]]
                    under = any(T.node(fa)[0] == 'truthy' and T.contains(fa, lambda z: z[0] == 'get_ui') for fa in plain(T, st.facts))
                    if not under or not any(T.node(x) == ('bool', False) for x in phi_sources(T, bitphi, 3)):
                        bad = 'the XOR accumulator does not start at false or is not toggled exactly for set secret bits'
    (ctx.ok if bad is None else ctx.bad)('R01d', 'R01d:TMCG_TypeOfCard:decode', 'type = sum over w of 2^w * XOR_k b[k][w], all bits and all players' if bad is None else bad, f)
    # encoder
    f = pick(prog, '%s::TMCG_CreateOpenCard' % TM, 'TMCG_Card')
    a = ctx.analysis(f)
    T = a.T
    n += 1
    bad = None
    ty = T.mk('param', 'type')
    yw = [(nid, ev) for nid, ev in a.all_events('write') if ev[1][0] == 'e' and 'ring' in T.show(ev[2], 4) and T.show(ev[2], 4).endswith('.y')]
    ow = [(nid, ev) for nid, ev in a.all_events('write') if ev[1][0] == 'e' and T.is_int(ev[2], 1)]
    if len(yw) != 1 or 'keys[0]' not in T.show(yw[0][1][2], 4):
        bad = 'a set bit is not encoded by the non-residue y of player 0'
    else:
        nid, ev = yw[0]
        st = a.instate[nid]
        cond = [fa for fa in plain(T, st.facts) if T.node(fa)[0] == 'truthy' and T.node(T.node(fa)[1])[0] == 'op' and T.node(T.node(fa)[1])[1] == '&' and T.int(1) in T.node(T.node(fa)[1])[2:]]
        tb = None
        for fa in cond:
            for x in T.node(T.node(fa)[1])[2:]:
                if T.op(x) == 'phi':
                    tb = x
        if tb is None:
            bad = 'the non-residue is not written under the test of the least significant remaining bit'
        else:
            src = phi_sources(T, tb, 2)
            halves = [x for x in src if T.node(x)[0] == 'op' and T.node(x)[1] in ('/', '>>')]
            okh = bool(halves) and all((T.node(x)[1] == '/' and T.is_int(T.node(x)[3], 2)) or (T.node(x)[1] == '>>' and T.is_int(T.node(x)[3], 1)) for x in halves)
            if ty not in src or not okh or len(src) != 1 + len(halves):
                bad = 'the remaining type is not the card type halved once per bit position (sources %s)' % ', '.join(T.show(x, 3) for x in src)
            else:
                lb = a.loop_bound.get(T.node(tb)[1])
                if not (lb and lb[1] in ('<', '!=') and T.is_int(lb[2], 0) and lb[3] == 1):
                    bad = 'the bit positions are not visited from 0 upwards'
                elif not any(nid2 for nid2, e2 in ow if e2[1][1][0] == 'e' and e2[1][1][2] == 0) or not any(nid2 for nid2, e2 in ow if e2[1][1][0] == 'e' and e2[1][1][2] == '*'):
                    bad = 'clear bits of player 0 and all values of the other players are not set to 1'
    (ctx.ok if bad is None else ctx.bad)('R01d', 'R01d:TMCG_CreateOpenCard:encode', 'bit w of the type (least significant first) is encoded as y of player 0, everything else as 1' if bad is None else bad, f)
    # masking of one value
    f = prog.fn('%s::TMCG_MaskValue' % TM, 0)
    a = ctx.analysis(f)
    T = a.T
    n += 1
    z, r = T.mk('param', 'z'), T.mk('param', 'r')
    outs = set()
    for nn, kind, val, st in a.exits():
        if kind in ('end', 'return'):
            outs |= phi_sources(T, a.read(param(a, f, 'zz'), st), 3)
    m_ = None
    base = None
    withy = None
    for x in outs:
        xn = T.node(x)
        if xn[0] != 'mod':
            continue
        mn = T.node(xn[1])
        if mn[0] != 'mul' or len(mn) != 3:
            continue
        sq = [y for y in mn[1:] if T.node(y)[0] == 'mod' and T.node(T.node(y)[1]) == ('mul', r, r) and T.node(y)[2] == xn[2]]
        if sq and z in mn[1:]:
            base, m_ = x, xn[2]
    if base is not None:
        for x in outs:
            xn = T.node(x)
            if xn[0] == 'mod' and xn[2] == m_ and T.node(xn[1])[0] == 'mul' and base in T.node(xn[1])[1:] and any(T.show(y, 3).endswith('.y') for y in T.node(xn[1])[1:]):
                withy = x
    okv = base is not None and withy is not None and outs == {base, withy} and T.show(m_, 3).endswith('.m')
    if okv:
        # y is multiplied in exactly when the secret bit is set
        wr = [nid for nid, ev in a.all_events('write') if ev[2] == withy]
        okv = bool(wr) and all(any(T.node(fa)[0] == 'truthy' and T.contains(fa, lambda q_: q_[0] == 'get_ui') for fa in plain(T, a.instate[nid].facts)) for nid in wr)
    (ctx.ok if okv else ctx.bad)('R01d', 'R01d:TMCG_MaskValue', 'masked value is z * r^2 mod m, times y exactly when the secret bit is set' if okv else
                                 'masked value is not z * r^2 * y^b mod m (results: %s)' % ', '.join(T.show(x, 5) for x in outs), f)
    # own secret bits
    f = pick(prog, '%s::TMCG_SelfCardSecret' % TM, 'TMCG_Card')
    a = ctx.analysis(f)
    T = a.T
    n += 1
    bad = None
    w0 = [(nid, ev) for nid, ev in a.all_events('write') if ev[1][0] == 'e' and 'b' in str(ev[1]) and ev[1][1][0] == 'e' and ev[1][1][1][0] == 'f' and ev[1][1][1][2] == 'b']
    zero = [nid for nid, ev in w0 if T.is_int(ev[2], 0)]
    one = [nid for nid, ev in w0 if T.is_int(ev[2], 1)]
    def qr_fact(nid, pol):
        return any(T.node(fa)[0] == ('truthy' if pol else 'falsy') and T.node(T.node(fa)[1])[0] == 'callr' and T.node(T.node(fa)[1])[1] == 'tmcg_mpz_qrmn_p' for fa in plain(T, a.instate[nid].facts))
    if not zero or not one or not all(qr_fact(nid, True) for nid in zero) or not all(qr_fact(nid, False) for nid in one):
        bad = 'the own secret bit is not 0 exactly for quadratic residues and 1 otherwise'
    else:
        lb = [b for L, b in a.loop_bound.items() if b and b[1] in ('<', '!=') and T.is_int(b[2], 0) and b[3] == 1]
        if len(lb) != 1:
            bad = 'not all bit positions are visited'
    (ctx.ok if bad is None else ctx.bad)('R01d', 'R01d:TMCG_SelfCardSecret', 'b[index][w] = 0 iff z[index][w] is a quadratic residue, for every w' if bad is None else bad, f)
    n += r01d_secret(ctx)
    ctx.floor('R01d', n, 5)


def r01d_secret(ctx):
    """fresh card secrets keep the type: after the random bits of the other rows are drawn, the row of
    the masking player is made the XOR of all other rows -- the update inside the loop nest is read as
    a truth table over (own bit, other bit) and must be own := own XOR other for every other row"""
    from .. import evalx
    from ..facts import walk
    prog = ctx.prog
    f = pick(prog, '%s::TMCG_CreateCardSecret' % TM, 'TMCG_CardSecret')
    idx = [p_ for p_ in f['params'] if p_['n'] == 'index']
    key = 'R01d:TMCG_CreateCardSecret:xor'
    if not idx:
        raise AnalysisBroken('TMCG_CreateCardSecret has no parameter index any more')
    idx = idx[0]['id']

    def strip(x):
        while isinstance(x, dict) and (x.get('k') == 'cast' or (x.get('k') == 'un' and x.get('op') in ('&', '*'))):
            x = x['e'] if x.get('k') == 'cast' else x['a'][0]
        return x

    def row_of(x):
        """'own' / 'other' for the cell cs.b[ROW][w]"""
        x = strip(x)
        if not (isinstance(x, dict) and x.get('k') in ('opcall', 'idx') and len(x.get('a', [])) == 2):
            return None
        inner = strip(x['a'][0])
        if not (isinstance(inner, dict) and inner.get('k') in ('opcall', 'idx') and len(inner.get('a', [])) == 2):
            return None
        base = strip(inner['a'][0])
        if not (isinstance(base, dict) and base.get('k') == 'mem' and base.get('n') == 'b'):
            return None
        r = strip(inner['a'][1])
        if isinstance(r, dict) and r.get('k') == 'var':
            return 'own' if r['id'] == idx else 'other'
        return None

    # the loop nest that reads another row and writes the own row
    nests = []
    for e in walk(f['body']):
        if e.get('k') == 'for' and not any(x.get('k') == 'for' for x in walk(e.get('b'))):
            reads = [row_of(x['a'][0]) for x in walk(e['b']) if x.get('k') == 'call' and x.get('f') == 'mpz_get_ui' and x.get('a')]
            writes = [row_of(x['a'][0]) for x in walk(e['b']) if x.get('k') == 'call' and x.get('f') in ('mpz_set_ui', 'mpz_set') and x.get('a')]
            if 'other' in reads and 'own' in writes:
                nests.append(e)
    if len(nests) != 1:
        ctx.bad('R01d', key, 'no single loop makes the own row of bits the XOR of the other rows (found %d candidates)' % len(nests), f)
        return 1
    body = nests[0]['b']

    class Stop(Exception):
        pass

    def run(own, other):
        st = {'own': own}

        def call(e, env):
            if e.get('k') == 'call' and e.get('f') == 'mpz_get_ui' and e.get('a'):
                r = row_of(e['a'][0])
                if r == 'own':
                    return st['own']
                if r == 'other':
                    return other
            raise evalx.NotEvaluable('call')

        def stmt(x):
            if x is None:
                return
            k = x.get('k')
            if k == 'block':
                for y in x['s']:
                    stmt(y)
            elif k == 'if':
                stmt(x['t'] if evalx.ev(x['c'], {}, call) else x.get('e'))
            elif k == 'call' and x.get('f') in ('mpz_set_ui',) and row_of(x['a'][0]) == 'own':
                st['own'] = evalx.ev(x['a'][1], {}, call)
            elif k == 'bin' and x.get('op') == ',':
                stmt(x['a'][0]); stmt(x['a'][1])
            else:
                raise evalx.NotEvaluable('statement ' + str(k))
        stmt(body)
        return st['own']
    try:
        table = {(o, b): run(o, b) for o in (0, 1) for b in (0, 1)}
    except evalx.NotEvaluable as ex:
        ctx.note('R01d', key, 'update of the own row not evaluable as a truth table (%s): not decided' % ex, f)
        ctx.floor('R01d:xor-evaluable', 0, 1)
        return 1
    wrong = [(o, b, v) for (o, b), v in sorted(table.items()) if (v & 1) != (o ^ b)]
    # the other rows are visited completely and the own row is excluded
    a = ctx.analysis(f)
    T = a.T
    cond = nests[0].get('c')
    skip_own = any(x.get('k') == 'bin' and x.get('op') == '!=' and any(strip(y).get('id') == idx for y in x['a'] if isinstance(strip(y), dict)) for x in walk(cond)) or \
        any(x.get('k') == 'if' and any(strip(y).get('id') == idx for z in walk(x.get('c')) if z.get('k') == 'bin' and z.get('op') in ('!=', '==') for y in z['a'] if isinstance(strip(y), dict))
            for x in walk(f['body']))
    if wrong:
        ctx.bad('R01d', key, 'the own row is not updated to own XOR other: for (own, other) = (%d, %d) it becomes %d' % wrong[0], f, line=nests[0].get('l'))
    elif not skip_own:
        ctx.bad('R01d', key, 'the own row is XORed with itself (no test k != index)', f, line=nests[0].get('l'))
    else:
        ctx.ok('R01d', key, 'own bit := own XOR other for every other row (truth table 00->0, 01->1, 10->1, 11->0): the XOR over all rows of a fresh secret is 0', f, line=nests[0].get('l'))
    return 1


EXPLANATION = ("Shape conditions of the two card encodings read off the value terms of the dataflow: ElGamal masking / re-masking with one exponent, "
               "generator and common key in their places, modulo p; the decryption accumulator (own share, multiplication only after the accepted proof "
               "for that share, opening c_2 * d^-1); agreement of encoder and decoder on the table of type elements g^t, full search range and sentinel; "
               "bit order, XOR over all players and weights of the bitwise encoding, z * r^2 * y^b, residuosity to bit. Necessary conditions of the "
               "property; that every chain of maskings under every key set opens to the created type is an algebraic fact that is not decided.")
ASSUMPTIONS = ["GMP primitives as modelled in sa/sym.py", "element summary cells: which player's row of a card secret is written is not distinguished"]
