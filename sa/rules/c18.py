"""C18 Oblivious transfer delivers exactly the chosen message (structural part).

R18i frozen inventory of the three Send_* / Choose_* pairs,
R18e the class's element check is exact (range and order) -- the distinctness test of the sender
     compares representatives, so it relies on canonical representatives,
R18a every ciphertext is sent only after all received query elements passed the membership test
     and all pairs z_i != z_j were compared,
R18b fresh blinding randomness per message."""
from . import invcheck, c06
from ..core import facts_plain

CLS = 'NaorPinkasEOTP'


def run(ctx):
    prog = ctx.prog
    nfun, n = invcheck.check_inventory(ctx, 'C18', 'R18i')
    ctx.floor('R18i', n, 15)
    r18e(ctx)
    ns = 0
    for q in ('Send_interactive_OneOutOfTwo', 'Send_interactive_OneOutOfN', 'Send_interactive_OneOutOfN_optimized'):
        f = prog.fn(CLS + '::' + q, 0)
        ns += r18a(ctx, f)
        ns += r18b(ctx, f)
    ctx.floor('R18a+b', ns, 8)
    nc = 0
    for q in ('Choose_interactive_OneOutOfTwo', 'Choose_interactive_OneOutOfN', 'Choose_interactive_OneOutOfN_optimized'):
        nc += r18c(ctx, prog.fn(CLS + '::' + q, 0))
    ctx.floor('R18c', nc, 9)


def r18e(ctx):
    prog = ctx.prog
    f = prog.fn(CLS + '::CheckElement', 0)
    a = ctx.analysis(f)
    fs = a.accept_facts()
    m = c06.M(a, fs or set())
    T = a.T
    x = T.mk('param', f['params'][0]['n'])
    p, q = m.this('p'), m.this('q')
    for name, okv, what in [('gt0', m.lt(T.int(0), x), 'a > 0'), ('ltp', m.lt(x, p), 'a < p'), ('order', m.eq(T.int(1), T.mk('powm', x, q, p)), 'a^q = 1 (mod p)')]:
        (ctx.ok if okv else ctx.bad)('R18e', 'R18e:CheckElement:' + name, ('' if okv else 'query elements are accepted without: ') + what +
                                     (' (distinctness of z-values is tested on representatives)' if not okv else ''), f)


def wire_member_fact(a, st_facts, w):
    T = a.T
    for tags, fa in facts_plain(T, st_facts):
        n = T.node(fa)
        if n[0] == 'truthy':
            inner = T.node(n[1])
            if inner[0] == 'mc' and inner[1].endswith('::CheckElement'):
                arg = inner[3]
                if arg == w or w in phi_closure(a, arg):
                    return True
    return False


def phi_closure(a, t):
    T = a.T
    out = set()
    st = [t]
    while st:
        x = st.pop()
        if x in out:
            continue
        out.add(x)
        n = T.node(x)
        if n[0] == 'phi':
            st.extend(T.phi_src.get((n[1], n[2]), ()))
        elif n[0] == 'ix':
            st.append(n[1])
    return out


def r18a(ctx, f):
    a = ctx.analysis(f)
    T = a.T
    n = 0
    wires = [T.mk('wire', k, name) for k, (line, name) in enumerate(a.wire_sites)]
    snds = [(nid, ev) for nid, ev in a.all_events('snd')]
    key0 = 'R18a:' + f['q']
    if not snds:
        ctx.bad('R18a', key0 + ':send', 'sender sends nothing (anchor changed)', f, nec=False)
        return 0
    for w, (line, name) in zip(wires, a.wire_sites):
        n += 1
        bad = None
        for nid, ev in snds:
            st = a.instate[nid]
            if not wire_member_fact(a, st.facts, w):
                bad = ev[3]
                break
        if bad is None:
            ctx.ok('R18a', '%s:member:%s' % (key0, name), 'received %s passed CheckElement before anything is sent' % name, f)
        else:
            ctx.bad('R18a', '%s:member:%s' % (key0, name), 'a ciphertext is sent although the received query element %s was not (yet) checked for group membership' % name, f, line=bad)
    # pairwise distinct z-values (the optimised variant receives a single z and derives the others)
    zw = [w for w, (line, name) in zip(wires, a.wire_sites) if name.startswith('z')]
    if len(zw) >= 2 or any('[*]' in name for (line, name) in a.wire_sites if name.startswith('z')):
        n += 1
        okd = True
        for nid, ev in snds:
            st = a.instate[nid]
            found = False
            for tags, fa in facts_plain(T, st.facts):
                nn = T.node(fa)
                if nn[0] == 'rel' and nn[1] == '!=':
                    ca, cb = phi_closure(a, nn[2]), phi_closure(a, nn[3])
                    if len(zw) >= 2 and tags is None:
                        if (zw[0] in ca and zw[1] in cb) or (zw[1] in ca and zw[0] in cb):
                            found = True
                    elif tags is not None and len(tags) == 2 and any(z in ca for z in zw) and any(z in cb for z in zw):
                        if pair_cover(a, tags):
                            found = True
            if not found:
                okd = False
        (ctx.ok if okd else ctx.bad)('R18a', key0 + ':distinct', 'all pairs of z-values were compared before anything is sent' if okd else
                                     'ciphertexts are sent without comparing every pair of received z-values (coinciding queries open several messages)', f)
    return n


def pair_cover(a, tags):
    """two nested counting loops that together enumerate every unordered pair of one container"""
    T = a.T
    L1, L2 = tags
    b1, b2 = a.loop_bound.get(L1), a.loop_bound.get(L2)
    if not (b1 and b2):
        return False
    # L1 is the outer loop (smaller id is not guaranteed): the inner bound or init mentions the outer iv
    for (o, i, bo, bi) in ((L1, L2, b1, b2), (L2, L1, b2, b1)):
        ivo = T.mk('iv', o)
        full_outer = bo[1] == '<' and T.is_int(bo[2], 0) and bo[3] == 1
        # inner: j from 0 while j < i  (the outer loop may start at 1: index 0 has no partner below it)
        if bo[1] == '<' and (T.is_int(bo[2], 0) or T.is_int(bo[2], 1)) and bo[3] == 1 and \
                bi[1] == '<' and T.is_int(bi[2], 0) and bi[0] == ivo and bi[3] == 1:
            return True
        if not full_outer:
            continue
        # inner: j from i+1 while j < N
        ini = T.node(bi[2]) if bi[2] is not None else None
        if bi[1] == '<' and bi[0] == bo[0] and ini is not None and ini[0] == 'op' and ini[1] == '+' and set((ini[2], ini[3])) == set((ivo, T.int(1))) and bi[3] == 1:
            return True
    return False


def rand_ids(a, t):
    T = a.T
    return set(T.node(x)[1] for x in T.subterms(t) if T.node(x)[0] == 'rand')


def r18b(ctx, f):
    a = ctx.analysis(f)
    T = a.T
    n = 0
    key0 = 'R18b:' + f['q']
    site_node = {o: nid for (nid, line), o in a.rand_sites.items()}
    msg_params = [T.mk('param', p['n']) for p in f['params'] if '__mpz_struct' in p['t']]

    def depends_on_message(t):
        subs = T.subterms(t)
        return any(mp in subs for mp in msg_params)
    cts = [(nid, ev) for nid, ev in a.all_events('snd') if depends_on_message(ev[2])]
    if not cts:
        ctx.bad('R18b', key0 + ':ciphertexts', 'no message-dependent value is sent (anchor changed)', f, nec=False)
        return 0
    used = []
    for nid, ev in cts:
        rs = rand_ids(a, ev[2])
        n += 1
        k = '%s:blinded:%d' % (key0, len(used))
        if not rs:
            ctx.bad('R18b', k, 'a message is sent without blinding randomness', f, line=ev[3])
            used.append((nid, rs))
            continue
        # the randomness must be sampled as often as the ciphertext is produced: inside every loop
        # that (re)computes the value
        inloops = [h for h, body in a.loop_nodes.items() if nid in body]
        comp_loops = set()
        for wn, wev in a.all_events('write'):
            if wev[2] in T.subterms(ev[2]) and depends_on_message(wev[2]):
                comp_loops |= set(h for h, body in a.loop_nodes.items() if wn in body)
        stale = [r for r in rs if any(site_node.get(r) not in a.loop_nodes[h] for h in comp_loops)]
        if stale:
            ctx.bad('R18b', k, 'blinding randomness is sampled once outside the loop that encrypts the messages (one blinding pair for all messages)', f, line=ev[3])
        elif len(rs) < 2:
            # w_i = x^{s_i} g^{r_i}, key_i = z_i^{s_i} y^{r_i}: with s_i missing (left at its initial value) the key is y^{r_i} = w_i^b,
            # which the chooser can compute for every index -- the messages not chosen open as well
            ctx.bad('R18b', k, 'a ciphertext is blinded with one random exponent only: the pair (r_i, s_i) is incomplete, the key no longer depends on the query '
                    'element z_i and the chooser can open this message whatever it asked for', f, line=ev[3])
        else:
            ctx.ok('R18b', k, 'ciphertext depends on randomness sampled where it is computed', f, line=ev[3])
        used.append((nid, rs))
    # different send sites use disjoint randomness
    n += 1
    clash = False
    for i in range(len(used)):
        for j in range(i + 1, len(used)):
            if used[i][0] != used[j][0] and used[i][1] & used[j][1]:
                clash = True
    (ctx.ok if not clash else ctx.bad)('R18b', key0 + ':disjoint', 'different messages are blinded with disjoint randomness' if not clash else
                                       'two messages share blinding randomness', f)
    return n


EXPLANATION = ("Static structural check of the oblivious-transfer senders and choosers: frozen inventory of their guards; the class's element "
               "check is exact (0 < a < p and a^q = 1), which the sender's distinctness test on representatives relies on; at every send "
               "site of the three senders the must-facts contain the membership verdict of every received query element and the comparison "
               "of every pair of z-values (loop nests enumerating all unordered pairs); every message-dependent value sent depends on "
               "randomness sampled inside the loop that computes it, and different messages use disjoint randomness. Correct decryption by "
               "the chooser and secrecy of the other messages are not decided.")
ASSUMPTIONS = ["arrays are summarised per container", "sampler calls return independent values per call site and iteration"]


def r18c(ctx, f):
    """chooser index consistency: x = g^a and y = g^b are sent; the product a*b is hidden in the z-value
    of the chosen index and nowhere else; the message is recovered as ENC[sigma] / w[sigma]^b with the
    same index on both and the exponent of y."""
    a = ctx.analysis(f)
    T = a.T
    key0 = 'R18c:' + f['q'].split('::')[-1]
    n = 0
    g = T.mk('this', 'g')
    # (a) the two Diffie-Hellman shares
    shares = []
    for nid, ev in sorted(a.all_events('snd'), key=lambda x: (x[1][3], x[0])):
        vn = T.node(ev[2])
        if vn[0] == 'powm' and vn[1] == g and T.op(vn[2]) == 'rnd' and vn[2] not in shares:
            shares.append(vn[2])
    n += 1
    if len(shares) < 2:
        ctx.bad('R18c', key0 + ':shares', 'the chooser does not send two fresh values g^a, g^b', f)
        return n
    A, B = shares[0], shares[1]
    ctx.ok('R18c', key0 + ':shares', 'g^a and g^b with independent fresh exponents are sent', f)
    sig = [p for p in f['params'] if p['n'] and 'unsigned long' in p['t']][0]
    sigma = T.mk('param', sig['n'])
    outp = [p for p in f['params'] if p['t'] == '__mpz_struct *'][0]
    # (b) the recovered message
    n += 1
    finals = []
    for nid, ev in a.all_events('write'):
        if ev[1] == ('v', outp['id'], outp['n']):
            vn = T.node(ev[2])
            if vn[0] == 'mod':
                finals.append((nid, ev[2]))
    bad = None
    pairs = []
    for nid, v in finals:
        m = T.node(T.node(v)[1])
        if m[0] != 'mul' or len(m) != 3:
            bad = 'the message is not computed as ENC * (w^b)^-1'
            break
        inv = [x for x in m[1:] if T.op(x) == 'inv']
        oth = [x for x in m[1:] if T.op(x) != 'inv']
        if len(inv) != 1 or len(oth) != 1:
            bad = 'the message is not computed as ENC * (w^b)^-1'
            break
        pw = T.node(T.node(inv[0])[1])
        if pw[0] != 'powm' or pw[2] != B:
            bad = 'the blinding is removed with an exponent other than b (the exponent of y = g^b)'
            break
        pairs.append((nid, pw[1], oth[0]))
    if not finals:
        bad = 'no assignment of the recovered message found'
    (ctx.ok if bad is None else ctx.bad)('R18c', key0 + ':open', 'message = ENC / w^b with the exponent of y' if bad is None else bad, f)
    # (c) same index for w and ENC
    n += 1
    wires = [T.mk('wire', k, name) for k, (line, name) in enumerate(a.wire_sites)]
    badc = None
    if any(T.op(a.strip_ix(w_, a.ix_loops(w_))) == 'wire' for nid, w_, e_ in pairs):
        # 1-of-2: scalars read in the order w0, c0, w1, c1 -- the ciphertext belongs to the w read just before it
        seenk = set()
        for nid, w_, e_ in pairs:
            wn, en = T.node(w_), T.node(e_)
            if wn[0] != 'wire' or en[0] != 'wire' or en[1] != wn[1] + 1:
                badc = 'a ciphertext is opened with the w-value of another message'
            st = a.instate[nid]
            ks = [T.node(fa) for fa in st.facts if T.node(fa)[0] == 'rel' and T.node(fa)[1] == '==' and sigma in (T.node(fa)[2], T.node(fa)[3])]
            kv = [T.node(x)[1] for fa in ks for x in (fa[2], fa[3]) if T.is_int(x)]
            if not kv or wn[0] != 'wire' or wn[1] != 2 * kv[0]:
                badc = badc or 'the pair (w, ENC) that is opened is not the one of the chosen index'
            seenk.update(kv)
        if badc is None and seenk != {0, 1}:
            badc = 'not both choices are opened'
    else:
        idx = {}
        for nid, ev in a.all_events('index'):
            if ev[1] is not None and ev[1][0] == 'v' and ev[2] is not None and T.op(ev[2]) != 'iv' and T.op(ev[2]) != 'int':
                idx.setdefault(ev[1][2], set()).add(ev[2])
        used = {k2: v2 for k2, v2 in idx.items() if v2}
        if len(used) < 2 or any(v2 != {sigma} for v2 in used.values()):
            badc = 'w and ENC are not both indexed with the chosen index sigma (%s)' % {k2: [T.show(x, 2) for x in v2] for k2, v2 in used.items()}
    (ctx.ok if badc is None else ctx.bad)('R18c', key0 + ':index', 'w and ENC of the chosen index are combined' if badc is None else badc, f)
    # (d) where the product a*b goes
    n += 1
    prod_nodes = []
    for nid, ev in a.all_events('write'):
        vn = T.node(ev[2])
        if vn[0] == 'mod' and T.op(vn[1]) == 'mul' and set(T.node(vn[1])[1:]) == {A, B}:
            prod_nodes.append((nid, ev))
    badd = None
    if not prod_nodes:
        badd = 'the product a*b mod q is not computed'
    else:
        for nid, ev in prod_nodes:
            st = a.instate[nid]
            tied = [fa for fa in st.facts if T.node(fa)[0] == 'rel' and T.node(fa)[1] == '==' and sigma in (T.node(fa)[2], T.node(fa)[3])]
            if tied:
                continue
            # optimised variant: one z-value g^(ab) / g^sigma
            hid = any(T.contains(e2[2], lambda nn: nn[0] == 'inv') and any(T.node(x) == ('powm', g, sigma, T.mk('this', 'p')) for x in T.subterms(e2[2]))
                      for n2, e2 in a.all_events('snd'))
            if not hid:
                badd = 'the product a*b is placed without reference to the chosen index'
    (ctx.ok if badd is None else ctx.bad)('R18c', key0 + ':hide', 'a*b is hidden in the z-value of the chosen index' if badd is None else badd, f)
    return n
