"""C04 Soundness: proofs of false statements are rejected (structural part).

R04a frozen check inventory of every offered verifier (guard domination over fingerprints),
R04c challenge discipline of the interactive verifiers: each random challenge is sent only after
     the commitments it challenges were received (per function a frozen, read-confirmed list says
     which challenges have a preceding commitment -- some protocols open with a verifier move),
     it is drawn afresh in the round it is sent in, and the number of rounds is the verifier's own
     parameter, never a value from the peer,
R04d whole-object comparison operators, R04e no verification verdict is dropped."""
from . import invcheck, verifiers
from ..facts import walk

SCOPE_FILES = ('SchindelhauerTMCG.cc', 'BarnettSmartVTMF_dlog.cc', 'BarnettSmartVTMF_dlog_GroupQR.cc', 'GrothVSSHE.cc',
               'HooghSchoenmakersSkoricVillegasVRHE.cc', 'PedersenCOM.cc', 'TMCG_StackSecret.hh', 'TMCG_Stack.hh',
               'JareckiLysyanskayaASTC.cc', 'NaorPinkasEOTP.cc')
VERDICT_NAMES = ('Verify', 'Check', 'TestMembership', 'verify', 'check', 'import', 'Good')


def run(ctx):
    prog = ctx.prog
    nfun, n = invcheck.check_inventory(ctx, 'C04', 'R04a')
    ctx.floor('R04a', n, 250)
    ctx.info['verifiers_checked'] = nfun
    ctx.info['latent_unreachable'] = sorted(set(f['q'] for f in verifiers.latent(prog)))
    r04c(ctx)
    r04d(ctx)
    r04e(ctx)
    # R04f: a Fiat-Shamir challenge must depend on everything handed to its hash -- values cut off by a
    # too small count make challenges predictable or equal across rounds (shared with C05's R05a)
    from . import c05
    c05.r05a(ctx, rule='R04f')
    # R04g: the cut-and-choose verifiers take the prover's stack secret through TMCG_StackSecret::import and mix with it without a
    # bijection test of their own -- the importer's range and presence checks are what keeps a duplicated-and-dropped card from
    # being accepted for every coin string (shared with C02's R02a)
    from . import c02
    c02.r02a(ctx, rule='R04g')


def r04d(ctx):
    """operator== of cards and stacks references every data member"""
    prog = ctx.prog
    n = 0
    for cls, members in (('VTMF_Card', None), ('TMCG_Card', None), ('VTMF_CardSecret', None), ('TMCG_CardSecret', None)):
        fs = [f for f in prog.by_q.get(cls + '::operator==', [])]
        if not fs:
            continue
        c = prog.classes.get(cls)
        fields = [x['n'] for x in c['fields']]
        for f in fs:
            used = set()
            for e in walk(f['body']):
                if e.get('k') == 'mem' and e.get('c') == cls:
                    used.add(e['n'])
            for fld in fields:
                n += 1
                key = 'R04d:%s::operator==:%s' % (cls, fld)
                if fld in used:
                    ctx.ok('R04d', key, 'operator== compares member ' + fld, f)
                else:
                    ctx.bad('R04d', key, 'operator== of %s does not look at member %s (partial comparison)' % (cls, fld), f)
    # stacks: element-wise comparison over the whole container
    for q, fl in prog.by_q.items():
        if q.startswith('TMCG_Stack<') and q.endswith('::operator=='):
            for f in fl:
                a = ctx.analysis(f)
                n += 1
                fs = a.accept_facts() or set()
                T = a.T
                okv = any(T.op(x) == 'rel' and T.node(x)[1] == '==' and T.contains(x, lambda nn: nn[0] == 'mc' and nn[1].endswith('::size')) for x in fs) or \
                    any(e.get('k') in ('mcall', 'call', 'opcall') and 'equal' in e.get('f', '') for e in walk(f['body']))
                key = 'R04d:%s:size+elements' % q
                if okv:
                    ctx.ok('R04d', key, 'stack comparison covers size and elements', f)
                else:
                    ctx.bad('R04d', key, 'stack operator== does not compare sizes/elements', f)
    ctx.floor('R04d', n, 4)


def r04e(ctx):
    """no call to a verdict function has its result discarded"""
    prog = ctx.prog
    n = 0
    bad = 0

    def verdict(fname):
        short = fname.split('::')[-1]
        return any(short.startswith(v) for v in VERDICT_NAMES) or 'Verify' in short

    def is_bool_fn(fid, fname):
        g = prog.funcs.get(fid) or prog.decls.get(fid)
        return g is not None and g.get('ret') == 'bool'

    def stmts(node):
        """expression statements (results discarded)"""
        if not isinstance(node, dict):
            return
        k = node.get('k')
        if k == 'block':
            for s in node['s']:
                yield from top(s)
        elif k in ('if',):
            yield from top(node.get('t'))
            yield from top(node.get('e'))
        elif k in ('while', 'do', 'for', 'forrange', 'switch'):
            yield from top(node.get('b'))
            if k == 'for':
                yield from top(node.get('i'))
                yield from top(node.get('n'))
        elif k in ('case', 'default', 'label'):
            yield from top(node.get('s'))
        elif k == 'try':
            yield from top(node.get('b'))
            for h in node.get('h', []):
                yield from top(h.get('b'))

    def top(s):
        if not isinstance(s, dict):
            return
        k = s.get('k')
        if k in ('block', 'if', 'while', 'do', 'for', 'forrange', 'switch', 'case', 'default', 'label', 'try'):
            yield from stmts(s)
        elif k == 'bin' and s.get('op') == ',':
            yield from top(s['a'][0])
            yield from top(s['a'][1])
        elif k == 'cast' and s.get('t') == 'void':
            yield from top(s.get('e'))
        else:
            yield s

    for key, f in prog.funcs.items():
        if 'body' not in f or not f['body']:
            continue
        for s in top(f['body']):
            if s.get('k') in ('call', 'mcall') and s.get('fid') and verdict(s.get('f', '')) and is_bool_fn(s['fid'], s['f']):
                n += 1
                bad += 1
                inscope = any(f['file'].endswith(x) for x in SCOPE_FILES)
                ctx.bad('R04e', 'R04e:%s:%s' % (f['q'], s['f']), 'result of %s is discarded' % s['f'], f, line=s.get('l'), nec=inscope)
    # count the verdict call sites whose result is used (instances) for the floor
    used = 0
    for key, f in prog.funcs.items():
        for e in walk(f.get('body')):
            if e.get('k') in ('call', 'mcall') and e.get('fid') and verdict(e.get('f', '')) and is_bool_fn(e['fid'], e['f']):
                used += 1
    for i in range(0, 1):
        ctx.ok('R04e', 'R04e:summary', '%d verdict call sites library-wide, %d with discarded result' % (used, bad))
    ctx.info['verdict_call_sites'] = used
    ctx.floor('R04e', used, 200)


EXPLANATION = ("Static check inventory: for every offered verifier (functions reachable from the installed API that return bool and read a "
               "proof from a stream, plus the listed stand-alone verifiers) the accepting exits are shown, by a must-fact dataflow over the "
               "CFG with term normalisation, to be guarded by every check in a frozen, reviewed inventory (membership tests, range tests, "
               "final equations abstracted to the set of inputs they relate, verdicts of sub-verifiers, per-round checks of cut-and-choose "
               "loops, under each value of the bool parameters); in the interactive verifiers every random challenge is sent after the "
               "commitment it challenges (dominance, loops taken as units), is drawn in the round it is sent in, and the number of rounds "
               "is not a value from the peer; comparison operators look at every member; no verdict of a "
               "Check*/Verify* function is dropped anywhere in the library. Decides that no listed check was removed, weakened or bypassed "
               "on some path; does not decide the 2^-kappa bound nor the algebra of the equations.")
ASSUMPTIONS = ["reference inventory (sa/rules/inventory_ref.json) was confirmed by reading the verifiers on the repaired tree",
               "equations are abstracted to relation kind + set of inputs", "arrays summarised per container"]


# challenge sends in control-flow order; True = commitments are received before this challenge leaves.
# Confirmed by reading each protocol: Groth's SKC, the rotation proofs and their callers open with a
# verifier challenge (False); every cut-and-choose round and every sigma protocol challenges a
# commitment that was received before (True).
CHALLENGE_AFTER_COMMITMENT = {
    'BarnettSmartVTMF_dlog::KeyGenerationProtocol_VerifyKey_interactive': [True],
    'GrothSKC::Verify_interactive': [False, True],
    'GrothVSSHE::Verify_interactive': [True, True],
    'HooghSchoenmakersSkoricVillegasPUBROTZK::Verify_interactive': [False, True],
    'HooghSchoenmakersSkoricVillegasVRHE::Verify_interactive': [False, True],
    'SchindelhauerTMCG::TMCG_VerifyQuadraticResidue': [True],
    'SchindelhauerTMCG::TMCG_VerifyMaskValue': [True],
    'SchindelhauerTMCG::TMCG_VerifyStackEquality': [True],
}


def r04c(ctx):
    prog = ctx.prog
    off = prog.offered()
    n = 0
    seen_q = set()
    for k, f in sorted(prog.funcs.items()):
        if not f.get('body') or f['ret'] != 'bool' or k not in off:
            continue
        if 'Verify' not in f['q'].split('::')[-1]:
            continue
        if not any('istream' in p['t'] for p in f['params']) or not any('ostream' in p['t'] for p in f['params']):
            continue
        a = ctx.analysis(f)
        T = a.T
        pos = a._rpo_pos()
        site_of = {r: nl[0] for nl, r in a.rand_sites.items()}
        rcvs = [nid for nid, ev in a.all_events('rcv')]
        sends = []
        for nid, ev in a.all_events('snd'):
            rands = [x for x in T.subterms(ev[2]) if T.node(x)[0] == 'rand']
            if rands:
                sends.append((pos.get(nid, 0), nid, ev, rands))
        if not sends:
            continue
        domc = {}

        def precedes(x, y):
            """x is executed before y on every path (a loop containing x but not y counts as a unit)"""
            if y not in domc:
                domc[y] = set(a.dominators_of(y, limit=100000))
            if x == y:
                return False
            if x in domc[y]:
                return True
            return any(x in b and y not in b and h in domc[y] for h, b in a.loop_nodes.items())
        sends.sort(key=lambda s1: (sum(1 for s2 in sends if precedes(s2[1], s1[1])), s1[2][3]))
        exp = CHALLENGE_AFTER_COMMITMENT.get(f['q'])
        seen_q.add(f['q'])
        if exp is None:
            ctx.bad('R04c', 'R04c:%s:unlisted' % f['q'], 'an interactive verifier that sends random challenges is not in the confirmed table of R04c '
                    '(new protocol: read it and list which challenges follow a commitment)', f, nec=False)
            continue
        for i, (_, nid, ev, rands) in enumerate(sends):
            n += 1
            loops = [h for h, b in a.loop_nodes.items() if nid in b]
            prior = any(precedes(r, nid) for r in rcvs)
            key = 'R04c:%s:challenge%d' % (f['q'], i)
            want = exp[i] if i < len(exp) else True
            if want and not prior:
                ctx.bad('R04c', key + ':order', 'the random challenge sent here leaves before any commitment of the prover was received: the prover can '
                        'choose its commitment to fit the challenge', f, line=ev[3])
            else:
                ctx.ok('R04c', key + ':order', 'challenge is sent after the prover\'s commitment was received' if want else
                       'opening verifier move (no commitment precedes it by design of the protocol)', f, line=ev[3])
            fresh = all(all(site_of[T.node(x)[1]] in a.loop_nodes[h] for h in loops) for x in rands)
            if fresh:
                ctx.ok('R04c', key + ':fresh', 'the challenge is drawn in the round it is sent in', f, line=ev[3])
            else:
                ctx.bad('R04c', key + ':fresh', 'the challenge sent in every round was drawn once outside the round loop: after the first round the '
                        'prover knows all later challenges', f, line=ev[3])
            for h in loops:
                b = a.loop_bound.get(h)
                if b is None:
                    continue
                tainted = T.contains(b[0], lambda nn: nn[0] == 'wire')
                if tainted:
                    ctx.bad('R04c', key + ':rounds', 'the number of challenge rounds is a value received from the peer', f, line=ev[3])
                else:
                    ctx.ok('R04c', key + ':rounds', 'the number of rounds is %s, not a value from the peer' % T.show(b[0], 2), f, line=ev[3])
        if len(sends) != len(exp):
            ctx.bad('R04c', 'R04c:%s:count' % f['q'], 'the verifier sends %d random challenges, the confirmed protocol has %d' % (len(sends), len(exp)), f)
    missing = set(CHALLENGE_AFTER_COMMITMENT) - seen_q
    if missing:
        from ..facts import AnalysisBroken
        raise AnalysisBroken('R04c: interactive verifier(s) vanished or no longer send a random challenge: %s' % sorted(missing))
    ctx.floor('R04c', n, 13)
