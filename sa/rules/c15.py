"""C15 Secret sharing and DKG are consistent (structural part of the joint sharing phase only).

Agreement between parties, interpolation of shares and the effect of a refresh are relations over
executions and are not decided.  What is decided, for the four joint verifiable sharings that all
key generations, coin flips and signatures of the library are built on
(JareckiLysyanskayaRVSS::Share, CanettiGennaroJareckiKrawczykRabinRVSS::Share,
CanettiGennaroJareckiKrawczykRabinZVSS::Share, GennaroJareckiKrawczykRabinDKG::Generate), are the
local rules every honest party must follow for the clauses to be able to hold:

R15a qualified set: QUAL is cleared and then receives exactly the parties j of a counting loop over
     [0, n) that are not in the final complaint list (fact: find(complaints, j) == end),
R15b share check: every comparison of a Pedersen commitment g^s h^s' with the product of the
     dealer's coefficient commitments leads, on the unequal edge, to a complaint against (or the
     disqualification of) that dealer before the loop goes on; the product runs over all t+1
     coefficients with exponent (index+1)^k,
R15c threshold: a party with more than t complaints (counter > t, exactly t as bound) is put on
     the complaint list,
R15d own share: the share and its companion are the sums modulo q, over the members of QUAL, of
     the sub-shares received,
R15e every std::unique on a complaint list directly follows a std::sort of that list."""
from ..facts import AnalysisBroken
from .c01 import plain, phi_sources

SHARINGS = (('JareckiLysyanskayaRVSS', 'Share', ('alpha_i', 'hatalpha_i')),
            ('CanettiGennaroJareckiKrawczykRabinRVSS', 'Share', ('x_i', 'xprime_i')),
            ('CanettiGennaroJareckiKrawczykRabinZVSS', 'Share', ('x_i', 'xprime_i')),
            ('GennaroJareckiKrawczykRabinDKG', 'Generate', ('x_i', 'xprime_i')))


def anchor(prog, cls, name):
    r = sorted([g for g in prog.by_q.get('%s::%s' % (cls, name), []) if g.get('body')], key=lambda g: -len(g['params']))
    if not r:
        raise AnalysisBroken('anchor %s::%s not found' % (cls, name))
    return r[0]


def is_complaint_push(ev):
    return ev[0] == 'mcall' and ev[1].endswith('::push_back') and ev[6] is not None and ev[6][0] == 'v' and 'complaint' in ev[6][2] and 'counter' not in ev[6][2]


def leads_to_complaint(a, node, succ_index):
    """from the given edge every path reaches a complaint push (or an aborting throw) before it
    reaches a loop head or leaves the function normally"""
    pushes = set(nid for nid, ev in a.all_events('mcall') if is_complaint_push(ev))
    # the dealer-based sharing registers a complaint in a flag that is broadcast right after
    T = a.T
    pushes |= set(nid for nid, ev in a.all_events('write') if ev[1][0] == 'v' and 'complaint' in ev[1][2] and
                  (T.node(ev[2]) == ('bool', True) or (T.node(ev[2])[0] == 'disj' and any(T.node(x) == ('bool', True) for x in T.node(ev[2])[1:]))))
    start = node.succ[succ_index]
    seen = set()
    stack = [start]
    while stack:
        x = stack.pop()
        if x.id in seen:
            continue
        seen.add(x.id)
        if x.id in pushes:
            continue
        if x.kind == 'exit':
            if x.meta.get('kind') == 'throw':
                continue
            return False, x
        if x.kind == 'loophead':
            return False, x
        for y in x.succ:
            stack.append(y)
    return True, None


def commitment(T, t, g, h):
    """t = g^s * h^s' mod p (either order)"""
    n = T.node(t)
    if n[0] != 'mod':
        return False
    m = T.node(n[1])
    if m[0] != 'mul' or len(m) != 3:
        return False
    bases = set()
    for x in m[1:]:
        xn = T.node(x)
        if xn[0] != 'powm':
            return False
        bases.add(xn[1])
    return bases == {g, h}


def run(ctx):
    prog = ctx.prog
    na = nb = nc = nd = 0
    for cls, name, shares in SHARINGS:
        f = anchor(prog, cls, name)
        a = ctx.analysis(f)
        T = a.T
        g, h = T.mk('this', 'g'), T.mk('this', 'h')
        tn = [T.mk('this', 't'), T.mk('this', 'tprime'), T.mk('param', 't')]
        nn = T.mk('this', 'n')
        byid = {x.id: x for x in a.cfg.rpo}
        # ------------------------------------------------------------------ R15a
        evs = list(a.all_events('mcall'))
        for nid, ev in sorted(evs, key=lambda x: (x[1][4], x[0])):
            ol = ev[6]
            if not (ev[1].endswith('::push_back') and ol and ol[0] == 'm' and ol[1].upper() == 'QUAL'):
                continue
            na += 1
            key = 'R15a:%s::%s' % (cls, name)
            doms = set(a.dominators_of(nid, 100000))
            cleared = any(e2[1].split('::')[-1] == 'clear' and e2[6] == ol and n2 in doms and n2 != nid for n2, e2 in evs)
            v = ev[3][0]
            loops = a.ix_loops(v) if T.op(v) != 'iv' else {T.node(v)[1]}
            full = any(a.loop_bound.get(L) and a.loop_bound[L][0] == nn and a.loop_bound[L][1] in ('<', '!=') and T.is_int(a.loop_bound[L][2], 0) and a.loop_bound[L][3] == 1 for L in loops)
            st = a.instate[nid]
            notin = False
            for fa0 in st.facts:
                f0 = T.node(fa0)
                tags = set(f0[1]) if f0[0] == 'all' else set()
                fa = f0[2] if f0[0] == 'all' else fa0
                fn_ = T.node(fa)
                if fn_[0] != 'rel' or fn_[1] != '==':
                    continue
                for x, y in ((fn_[2], fn_[3]), (fn_[3], fn_[2])):
                    xn, yn = T.node(x), T.node(y)
                    if xn[0] == 'callr' and xn[1].split('::')[-1] == 'find' and yn[0] == 'mc' and yn[1].endswith('::end') and 'complaint' in T.show(y, 3):
                        who = xn[-1]
                        wl = (a.ix_loops(who) if T.op(who) != 'iv' else {T.node(who)[1]}) | tags
                        if wl & loops:
                            notin = True
            if cleared and full and notin:
                ctx.ok('R15a', key, 'QUAL is cleared and receives every j in [0, n) that is not on the final complaint list', f, line=ev[4])
            else:
                ctx.bad('R15a', key, 'QUAL is not built as "cleared, then every j in [0, n) without a standing complaint" (cleared first: %s, loop over all parties: %s, '
                        'membership test against the complaint list: %s)' % (cleared, full, notin), f, line=ev[4])
        # ------------------------------------------------------------------ R15b
        sites = 0
        for n_ in a.cfg.rpo:
            if n_.kind != 'branch':
                continue
            for i, sx in enumerate(n_.succ):
                for fa in plain(T, a.gen.get((n_.id, i)) or ()):
                    fn_ = T.node(fa)
                    if fn_[0] != 'rel' or fn_[1] != '!=':
                        continue
                    lhs = [x for x in fn_[2:] if commitment(T, x, g, h)]
                    rhs = [x for x in fn_[2:] if not commitment(T, x, g, h)]
                    if len(lhs) != 1 or len(rhs) != 1:
                        continue
                    sites += 1
                    nb += 1
                    key = 'R15b:%s::%s#%d' % (cls, name, sites)
                    okc, where = leads_to_complaint(a, n_, i)
                    # the right-hand side: product over k = 0..t of C_k^{(index+1)^k}
                    src = phi_sources(T, rhs[0], 1)
                    shape = False
                    rn = T.node(rhs[0])
                    if rn[0] == 'phi' and any(T.is_int(x, 1) for x in src):
                        for x in src:
                            xn = T.node(x)
                            if xn[0] == 'mod' and T.node(xn[1])[0] == 'mul' and rhs[0] in T.node(xn[1])[1:]:
                                fac = [y for y in T.node(xn[1])[1:] if y != rhs[0]]
                                if len(fac) == 1 and T.node(fac[0])[0] == 'powm':
                                    ex = T.node(T.node(fac[0])[2])
                                    lb = a.loop_bound.get(rn[1])
                                    if ex[0] == 'pow' and T.node(ex[1])[0] == 'op' and T.node(ex[1])[1] == '+' and T.int(1) in T.node(ex[1])[2:] and ex[2] == T.mk('iv', rn[1]) and \
                                            lb and lb[0] in tn and lb[1] == '<=' and T.is_int(lb[2], 0) and lb[3] == 1:
                                        shape = True
                    if okc and shape:
                        ctx.ok('R15b', key, 'a share pair that does not match prod_{k=0..t} C_k^{(index+1)^k} leads to a complaint', f, line=n_.line)
                    elif not okc:
                        ctx.bad('R15b', key, 'the share check can fail without a complaint being registered (path reaches line %d first)' % (where.line if where is not None else 0), f, line=n_.line)
                    else:
                        ctx.bad('R15b', key, 'the commitment product the share is checked against is not prod_{k=0..t} C_k^{(index+1)^k} over all t+1 coefficients (%s)' %
                                ', '.join(T.show(x, 5) for x in src), f, line=n_.line)
        ctx.floor('R15b:%s' % cls, sites, 2)
        # ------------------------------------------------------------------ R15c
        found = 0
        for n_ in a.cfg.rpo:
            if n_.kind != 'branch':
                continue
            for i, sx in enumerate(n_.succ):
                for fa in plain(T, a.gen.get((n_.id, i)) or ()):
                    fn_ = T.node(fa)
                    if fn_[0] == 'rel' and fn_[1] in ('<', '<=') and 'complaints_counter' in T.show(fn_[3], 3) and 'complaints_counter' not in T.show(fn_[2], 3) and 'size' not in T.show(fa, 4):
                        found += 1
                        nc += 1
                        key = 'R15c:%s::%s#%d' % (cls, name, found)
                        exact = fn_[1] == '<' and fn_[2] in tn
                        okc, where = leads_to_complaint(a, n_, i)
                        if exact and okc:
                            ctx.ok('R15c', key, 'more than t complaints put the party on the complaint list', f, line=n_.line)
                        else:
                            ctx.bad('R15c', key, 'disqualification does not happen at exactly "more than t complaints" (condition %s; leads to the complaint list: %s)' % (T.show(fa, 3), okc), f, line=n_.line)
        ctx.floor('R15c:%s' % cls, found, 1)
        # ------------------------------------------------------------------ R15d
        q = T.mk('this', 'q')
        for mname in shares:
            nd += 1
            key = 'R15d:%s::%s:%s' % (cls, name, mname)
            okd = False
            for nid, ev in a.all_events('write'):
                if ev[1] != ('m', mname):
                    continue
                vn = T.node(ev[2])
                if vn[0] == 'mod' and vn[2] == q and T.node(vn[1])[0] == 'add':
                    acc = [x for x in T.node(vn[1])[1:] if T.op(x) == 'phi' and T.node(x)[2] == ('m', mname)]
                    if len(acc) == 1:
                        lb = a.loop_bound.get(T.node(acc[0])[1])
                        zero = any(T.is_int(x, 0) for x in phi_sources(T, acc[0], 2))
                        if lb and T.contains(lb[0], lambda z: z[0] == 'this' and str(z[1]).upper() == 'QUAL') and zero:   # the member set, not a like-named local
                            okd = True
            (ctx.ok if okd else ctx.bad)('R15d', key, '%s = sum over QUAL of the received sub-shares, modulo q' % mname if okd else
                                         '%s is not accumulated as 0 + sum over the members of QUAL of the received sub-shares modulo q' % mname, f)
    r15e(ctx)
    r15f(ctx)
    r15g(ctx)
    # the dealer-based sharing (receiving side): the same share check, complaint kept in a flag
    f = [g_ for g_ in prog.by_q.get('PedersenVSS::Share', []) if g_.get('body') and any(p_['n'] == 'dealer' for p_ in g_['params'])]
    if not f:
        raise AnalysisBroken('anchor PedersenVSS::Share(dealer, ...) not found')
    f = sorted(f, key=lambda g_: -len(g_['params']))[0]
    a = ctx.analysis(f)
    T = a.T
    g, h = T.mk('this', 'g'), T.mk('this', 'h')
    sites = 0
    for n_ in a.cfg.rpo:
        if n_.kind != 'branch':
            continue
        for i, sx in enumerate(n_.succ):
            for fa in plain(T, a.gen.get((n_.id, i)) or ()):
                fn_ = T.node(fa)
                if fn_[0] == 'rel' and fn_[1] == '!=' and sum(1 for x in fn_[2:] if commitment(T, x, g, h)) == 1:
                    sites += 1
                    nb += 1
                    key = 'R15b:PedersenVSS::Share#%d' % sites
                    okc, where = leads_to_complaint(a, n_, i)
                    if okc:
                        ctx.ok('R15b', key, 'a share pair that does not match the dealer\'s commitments raises the complaint flag', f, line=n_.line)
                    else:
                        ctx.bad('R15b', key, 'the share check can fail without a complaint being registered (path reaches line %d first)' % (where.line if where is not None else 0), f, line=n_.line)
    ctx.floor('R15b:PedersenVSS', sites, 2)
    ctx.floor('R15a', na, 4)
    ctx.floor('R15b', nb, 8)
    ctx.floor('R15c', nc, 4)
    ctx.floor('R15d', nd, 8)


def r15e(ctx):
    """complaint lists are made duplicate-free by std::unique, which removes *adjacent* duplicates
    only: each such call must directly follow a std::sort of the same container (nothing appended
    in between).  A list like [5, 6, 5, 6] otherwise keeps its duplicates; the party then broadcasts
    a complaint twice, which the receivers treat as misbehaviour of the complainer, and counts its
    own complaints twice against the threshold"""
    from ..facts import walk
    prog = ctx.prog
    files = ('GennaroJareckiKrawczykRabinDKG.cc', 'CanettiGennaroJareckiKrawczykRabinASTC.cc', 'JareckiLysyanskayaASTC.cc', 'PedersenVSS.cc')

    def strip(x):
        while isinstance(x, dict) and (x.get('k') == 'cast' or (x.get('k') == 'ctor' and len(x.get('a', [])) == 1)):
            x = x['e'] if x.get('k') == 'cast' else x['a'][0]
        return x

    def container(call):
        a0 = strip(call['a'][0]) if call.get('a') else None
        if isinstance(a0, dict) and a0.get('k') == 'mcall' and a0['f'].split('::')[-1] in ('begin',):
            o = strip(a0.get('o'))
            if isinstance(o, dict) and o.get('k') == 'var':
                return ('v', o['id'], o['n'])
            if isinstance(o, dict) and o.get('k') == 'mem':
                return ('m', o['n'])
        return None

    def calls(stmt, name):
        return [e for e in walk(stmt) if e.get('k') == 'call' and e.get('f', '').split('::')[-1] == name and e.get('f', '').startswith('std::')]

    def mutates(stmt, c):
        for e in walk(stmt):
            if e.get('k') == 'mcall' and e['f'].split('::')[-1] in ('push_back', 'insert', 'emplace_back', 'assign', 'swap'):
                o = strip(e.get('o'))
                if isinstance(o, dict) and ((o.get('k') == 'var' and c[0] == 'v' and o['id'] == c[1]) or (o.get('k') == 'mem' and c[0] == 'm' and o['n'] == c[1])):
                    return True
        return False
    n = 0
    for k, f in sorted(prog.funcs.items(), key=lambda kv: (kv[1]['q'], kv[0])):
        if not f.get('body') or not f['file'].endswith(files):
            continue
        occ = 0
        for blk in walk(f['body']):
            if blk.get('k') != 'block':
                continue
            stmts = blk['s']
            for i, st_ in enumerate(stmts):
                if st_.get('k') in ('block', 'if', 'for', 'while', 'do', 'try', 'switch'):
                    continue        # calls inside nested statements are found when their own block is visited
                for u in calls(st_, 'unique'):
                    c = container(u)
                    if c is None:
                        continue
                    occ += 1
                    n += 1
                    key = 'R15e:%s:%s#%d' % (f['q'], c[-1], occ)
                    okv = None
                    for j in range(i - 1, -1, -1):
                        if any(container(s_) == c for s_ in calls(stmts[j], 'sort')):
                            okv = True
                            break
                        if mutates(stmts[j], c):
                            okv = False
                            break
                    if okv:
                        ctx.ok('R15e', key, 'std::unique follows a std::sort of the same list', f, line=u.get('l'))
                    else:
                        ctx.bad('R15e', key, 'std::unique is applied to %s without a preceding std::sort of it: only adjacent duplicates are removed, the list can keep '
                                'duplicate complaints (broadcast twice, counted twice)' % c[-1], f, line=u.get('l'))
    ctx.floor('R15e', n, 15)


EXPLANATION = ("Local rules of the joint sharing phase of the four joint verifiable secret sharings, decided by must-facts and must-pass-through on the CFG: "
               "construction of the qualified set, complaint on every failed share check against the full commitment product, disqualification at more than t "
               "complaints, own share as the sum over QUAL modulo q. Necessary conditions of C15 that each honest party's code must satisfy; agreement between "
               "parties, interpolation of any t+1 shares, dealer-based sharing and refresh are relations over executions and are not decided.")
ASSUMPTIONS = ["GMP primitives as modelled in sa/sym.py", "element summary cells: rows of the share matrices are not distinguished", "the reliable broadcast delivers the same complaints to all (C14)"]


def r15f(ctx, files=None, rule='R15f', floor=5):
    """complaints are counted once per (complainer, accused): in every loop that collects the broadcast complaints of sender j
    (a do/while around DeliverFrom(.., j)) the counter complaints_counter[who] is advanced under a test of a local table of
    the parties this sender has already complained about.  That table belongs to one sender: it must be declared inside the
    body of the loop over the senders (or cleared there before the collecting loop).  One table for all senders turns the
    second complainer's complaint against the same dealer into a "duplicate" -- the counter stays below the threshold, the
    second complainer is itself put on the complaint list, and parties that did not run their own complaints through this
    loop end with a different qualified set."""
    from ..facts import walk
    prog = ctx.prog
    FILES = files or ('JareckiLysyanskayaASTC.cc', 'CanettiGennaroJareckiKrawczykRabinASTC.cc', 'GennaroJareckiKrawczykRabinDKG.cc', 'PedersenVSS.cc')
    n = 0
    for k, f in sorted(prog.funcs.items(), key=lambda kv: (kv[1]['file'], kv[1]['line'])):
        if not f.get('body') or not f['file'].endswith(FILES):
            continue
        decl_in = {}        # decl id -> ids of the enclosing loop statements

        def rec(s, loops, out):
            if isinstance(s, list):
                for x in s:
                    rec(x, loops, out)
                return
            if not isinstance(s, dict):
                return
            if s.get('k') == 'decl':
                for v in s['v']:
                    decl_in[v['id']] = list(loops)
            if s.get('k') in ('for', 'while', 'do', 'forrange'):
                out.append((s, list(loops)))
                loops = loops + [s]
            for key, v in s.items():
                if isinstance(v, (dict, list)):
                    rec(v, loops, out)
        allloops = []
        rec(f['body'], [], allloops)
        for lp, enclosing in allloops:
            if lp.get('k') not in ('do', 'while'):
                continue
            calls = [e for e in walk(lp.get('b')) if e.get('k') == 'mcall' and e.get('f', '').endswith('::DeliverFrom') and len(e.get('a', [])) >= 2]
            if not calls:
                continue
            incs = []
            for e in walk(lp.get('b')):
                if e.get('k') == 'if':
                    thn = e.get('t')
                    if any(x.get('k') == 'un' and '++' in x.get('op', '') and 'complaints_counter' in str(x.get('a')) for x in walk(thn)):
                        incs.append(e)
            if not incs:
                continue
            sender = calls[0]['a'][1]
            while isinstance(sender, dict) and sender.get('k') == 'cast':
                sender = sender['e']
            sid = sender.get('id') if isinstance(sender, dict) else None
            floop = None
            for F in reversed(enclosing):
                if F.get('k') == 'for' and isinstance(F.get('i'), dict) and F['i'].get('k') == 'decl' and any(v['id'] == sid for v in F['i']['v']):
                    floop = F
                    break
            if floop is None:
                continue
            tables = {}
            for e in incs:
                for x in walk(e.get('c')):
                    if x.get('k') == 'var' and any(t_ in x.get('t', '') for t_ in ('map<', 'vector<bool', 'set<', 'bitset')) and not x.get('p'):
                        tables[x['id']] = x.get('n')
            n += 1
            key = rule + ':%s@%d' % (f['q'], lp.get('l', 0))
            if not tables:
                ctx.bad(rule, key, 'complaints of one sender are counted without a table of the parties it has already complained about: a repeated complaint '
                        'is counted again', f, line=lp.get('l'))
                continue
            bad = None
            for did, nm in tables.items():
                inside = any(L is floop for L in decl_in.get(did, []))
                cleared = any(e.get('k') == 'mcall' and e.get('f', '').split('::')[-1] in ('clear', 'assign') and isinstance(e.get('o'), dict) and e['o'].get('id') == did
                              for e in walk(floop.get('b')) if e is not lp)
                if not inside and not cleared:
                    bad = nm
            if bad:
                ctx.bad(rule, key, 'the table `%s` of parties a sender has already complained about is shared by all senders (declared outside the loop over the senders '
                        'and never cleared in it): the complaint of a second complainer against the same dealer is dropped as a duplicate and the complainer itself '
                        'is put on the complaint list' % bad, f, line=lp.get('l'))
            else:
                ctx.ok(rule, key, 'duplicate complaints are filtered per sender (table %s is local to one sender)' % ', '.join(sorted(tables.values())), f, line=lp.get('l'))
    ctx.floor(rule, n, floor)


# armed where the failure was replayed against the library (replay/f15_unanswered_complaint.cc); the siblings have the same shape
R15G_REPLAYED = ('JareckiLysyanskayaRVSS::Share',)


def r15g(ctx):
    """"forced to publish consistent ones": when the complaints of sender j are collected, a party must remember *who complained
    about whom* -- otherwise the later resolution step, which reads the shares dealer `who` reveals up to its end marker, cannot
    tell an answered complaint from an ignored one, and a dealer that stays below the disqualification threshold and reveals
    nothing remains qualified while the complainer keeps a share that does not match the commitments.  Necessary structural
    condition: in the block that advances complaints_counter[who] the complainer j is stored in a container addressed by (or
    together with) the accused `who`, for every accused, not only for the party itself."""
    from ..facts import walk
    prog = ctx.prog
    FILES = ('JareckiLysyanskayaASTC.cc', 'CanettiGennaroJareckiKrawczykRabinASTC.cc', 'GennaroJareckiKrawczykRabinDKG.cc')
    n = 0
    for k, f in sorted(prog.funcs.items(), key=lambda kv: (kv[1]['file'], kv[1]['line'])):
        if not f.get('body') or not f['file'].endswith(FILES):
            continue
        loops = []

        def rec(s, enclosing):
            if isinstance(s, list):
                for x in s:
                    rec(x, enclosing)
                return
            if not isinstance(s, dict):
                return
            if s.get('k') in ('for', 'while', 'do', 'forrange'):
                loops.append((s, list(enclosing)))
                enclosing = enclosing + [s]
            for v in s.values():
                if isinstance(v, (dict, list)):
                    rec(v, enclosing)
        rec(f['body'], [])
        for lp, enclosing in loops:
            if lp.get('k') not in ('do', 'while'):
                continue
            calls = [e for e in walk(lp.get('b')) if e.get('k') == 'mcall' and e.get('f', '').endswith('::DeliverFrom') and len(e.get('a', [])) >= 2]
            if not calls:
                continue
            sender = calls[0]['a'][1]
            while isinstance(sender, dict) and sender.get('k') == 'cast':
                sender = sender['e']
            sid = sender.get('id') if isinstance(sender, dict) else None
            for e in walk(lp.get('b')):
                if e.get('k') != 'if':
                    continue
                thn = e.get('t')
                incs = [x for x in walk(thn) if x.get('k') == 'un' and '++' in x.get('op', '') and 'complaints_counter' in str(x.get('a'))]
                if not incs:
                    continue
                # the accused: the variable that indexes the counter
                acc = None
                for x in walk(incs[0]):
                    if x.get('k') == 'var' and 'complaints_counter' not in x.get('n', ''):
                        acc = x.get('id')
                recorded = False
                for x in walk(thn):
                    if x.get('k') == 'mcall' and x.get('f', '').split('::')[-1] in ('push_back', 'insert', 'emplace', 'emplace_back'):
                        ids = set(y.get('id') for y in walk(x) if y.get('k') == 'var')
                        if sid in ids and acc in ids:
                            recorded = True
                    if x.get('k') in ('bin', 'opcall') and x.get('op') == '=':
                        ids = set(y.get('id') for y in walk(x) if y.get('k') == 'var')
                        if sid in ids and acc in ids and 'complaints_counter' not in str(x)[:400]:
                            recorded = True
                n += 1
                key = 'R15g:%s' % f['q']
                if recorded:
                    ctx.ok('R15g', key, 'the complainer is recorded together with the accused, so unanswered complaints can be told apart', f, line=e.get('l'))
                elif f['q'] not in R15G_REPLAYED:
                    ctx.note('R15g', key, 'same shape as the replayed finding in JareckiLysyanskayaRVSS::Share (complaints counted per accused only, complainers not kept); '
                             'not replayed for this sibling, so reported as a note', f, line=e.get('l'))
                else:
                    ctx.bad('R15g', key, 'complaints are only counted per accused; who complained about whom is not kept (the complainers of the party itself excepted), so '
                            'the resolution step cannot notice that a dealer answered none of the complaints against it: a dealer below the disqualification '
                            'threshold that reveals nothing stays qualified and the complainer keeps a share that does not match the commitments', f, line=e.get('l'))
                break
    ctx.floor('R15g', n, 4)
