"""C03 Completeness: an honest proof is always accepted (necessary structural conditions).

R03a no accepting path contradicts the precondition of a fixed-base power: the base handed to
     tmcg_mpz_fpowm / _fspowm / _fpowm_ui is the member its table was precomputed from, or is
     guarded on the path by an equality with it (a guard establishing inequality is a contradiction),
R03b prover/verifier duality of the I/O shapes for every prover/verifier pair,
R03c prover and verifier hash the same argument lists,
R03f cyclic index arithmetic: an unsigned difference of two loop counters (j - k) is evaluated only
     under a guard that orders them (the (j >= k) ? j-k : n-(k-j) idiom); unguarded it wraps modulo 2^64
     for every iteration with j < k, and `% n` of the wrapped value is the intended index only when n
     is a power of two -- honest proofs of other sizes are rejected,
R03e reject clauses of a verifier that constrain the *statement alone* (no transmitted value
     involved) and are not in the frozen inventory: a new "differs from a specific value" clause
     refuses the true statements that have this value whatever the honest prover does (the property
     quantifies over every card and key) -> violation; new equalities among statement inputs
     (consistency of caller objects) are listed as notes only."""
import re
from .. import ioshape
from ..facts import walk, AnalysisBroken
from ..sym import FPOWM


def member_of(e):
    """name of the data member an expression denotes (this->m or this->m[i]), else None"""
    while isinstance(e, dict) and e.get('k') in ('idx', 'cast') or (isinstance(e, dict) and e.get('k') == 'opcall' and e.get('op') == '[]') or \
            (isinstance(e, dict) and e.get('k') == 'un' and e.get('op') in ('*', '&')):
        if e.get('k') == 'cast':
            e = e['e']
        else:
            e = e['a'][0]
    if isinstance(e, dict) and e.get('k') == 'mem' and isinstance(e.get('o'), dict) and e['o'].get('k') == 'this':
        return e['n']
    return None


def index_of(e):
    if isinstance(e, dict) and (e.get('k') == 'idx' or (e.get('k') == 'opcall' and e.get('op') == '[]')):
        return e['a'][1]
    return None


def pairs(prog):
    out = []
    for f in sorted(prog.funcs.values(), key=lambda f: (f['file'], f['line'])):
        q = f['q']
        if 'RFC4880' in f['file'] or not re.search(r'Prove|Send_', q.split('::')[-1]):
            continue
        cand = q.replace('ProveFirst', 'Verify').replace('ProveSecond', 'Verify').replace('Prove', 'Verify').replace('Send_', 'Choose_')
        vs = prog.by_q.get(cand, []) + prog.by_q.get(cand + '_Update', [])
        if not vs:
            continue
        if len(vs) > 1:
            t0 = f['params'][0]['t'] if f['params'] else ''
            same = [v for v in vs if v['params'] and v['params'][0]['t'] == t0]
            vs = same or sorted(vs, key=lambda v: len(v['params']))
        out.append((f, vs[0]))
    return out


def run(ctx):
    prog = ctx.prog
    r03a(ctx)
    r03bc(ctx)
    r03d(ctx)
    r03e(ctx)
    r03f(ctx)


def class_chain(prog, cls):
    out = []
    st = [cls]
    while st:
        c = st.pop()
        if c in out or c not in prog.classes:
            continue
        out.append(c)
        st.extend(prog.classes[c]['bases'])
    return out


def r03a(ctx):
    prog = ctx.prog
    # table member -> base member, per class, from the precompute sites
    tab = {}
    for key, f in prog.funcs.items():
        cls = f.get('cls')
        if not cls:
            continue
        for e in walk(f.get('body')):
            if e.get('k') == 'call' and e.get('f') == 'tmcg_mpz_fpowm_precompute' and len(e['a']) >= 2:
                t, b = member_of(e['a'][0]), member_of(e['a'][1])
                if t and b:
                    tab.setdefault(cls, {}).setdefault(t, set()).add(b)
    ctx.info['fixed_base_tables'] = {c: {t: sorted(b) for t, b in m.items()} for c, m in tab.items()}
    n = 0
    off = prog.offered()
    for key, f in prog.funcs.items():
        cls = f.get('cls')
        if not cls or key not in off:
            continue
        uses = [e for e in walk(f.get('body')) if e.get('k') == 'call' and e.get('f') in FPOWM and len(e['a']) >= 5]
        if not uses:
            continue
        chain = class_chain(prog, cls)
        a = None
        for e in uses:
            t = member_of(e['a'][0])
            if t is None:
                continue
            bases = set()
            for c in chain:
                bases |= tab.get(c, {}).get(t, set())
            n += 1
            k = 'R03a:%s:%s' % (f['q'], t)
            if not bases:
                ctx.bad('R03a', k, 'fixed-base power uses table %s that is never precomputed in class %s' % (t, cls), f, line=e.get('l'), nec=False)
                continue
            b = member_of(e['a'][2])
            if b is not None:
                if b in bases:
                    # vector tables: the same index selects table and base
                    it, ib = index_of(e['a'][0]), index_of(e['a'][2])
                    if (it is None) != (ib is None) or (it is not None and strip_lines(it) != strip_lines(ib)):
                        ctx.bad('R03a', k, 'table %s and base %s are selected with different indices: the power can only throw' % (t, b), f, line=e.get('l'))
                    else:
                        ctx.ok('R03a', k, 'base %s is the member table %s was built from' % (b, t), f, line=e.get('l'))
                else:
                    ctx.bad('R03a', k, 'fixed-base power with table %s (built from %s) is given base %s: it can only throw (wrong table)' % (
                        t, '/'.join(sorted(bases)), b), f, line=e.get('l'))
                continue
            # base is a parameter or local: needs an equality guard on the path
            if a is None:
                a = ctx.analysis(f)
            T = a.T
            verdict = None
            for nid, ev in a.all_events('pow'):
                if ev[5] != e.get('l') or ev[6] is None or ev[6] != ('m', t):
                    continue
                st = a.instate[nid]
                base_t = ev[1]
                for bm in bases:
                    mt = st.env.get(('m', bm), T.mk('this', bm))
                    x, y = sorted((base_t, mt))
                    if T.mk('rel', '==', x, y) in st.facts:
                        verdict = 'eq'
                    elif T.mk('rel', '!=', x, y) in st.facts and verdict is None:
                        verdict = 'ne'
                    elif base_t == mt:
                        verdict = 'eq'
            if verdict == 'eq':
                ctx.ok('R03a', k, 'base is guarded to be equal to the base of table %s on every path to the power' % t, f, line=e.get('l'))
            elif verdict == 'ne':
                ctx.bad('R03a', k, 'the guard before the fixed-base power establishes base != %s although table %s requires equality: every path through it throws, honest proofs are rejected' % (
                    '/'.join(sorted(bases)), t), f, line=e.get('l'))
            else:
                ctx.bad('R03a', k, 'base of the fixed-base power is neither the table\'s member nor guarded to equal it (power may throw on honest input)', f, line=e.get('l'), nec=False)
    ctx.floor('R03a', n, 150)


def strip_lines(e):
    if isinstance(e, dict):
        return {k: strip_lines(v) for k, v in e.items() if k not in ('l', 't')}
    if isinstance(e, list):
        return [strip_lines(x) for x in e]
    return e


def r03bc(ctx):
    prog = ctx.prog
    ps = pairs(prog)
    off = prog.offered()
    nb = 0
    nc = 0
    latent = []
    for f, v in ps:
        if f['key'] not in off or v['key'] not in off:
            latent.append(f['q'])
            continue
        nb += 1
        sp = ioshape.Shaper(prog, f, swap=True).shape()
        sv = ioshape.Shaper(prog, v).shape()
        k = 'R03b:%s<->%s:%s' % (f['q'].split('::')[-1], v['q'].split('::')[-1], (f['params'][0]['t'] if f['params'] else '')[:40])
        if sp == sv:
            ctx.ok('R03b', k, 'prover sends exactly what the verifier reads, in the same order: ' + ioshape.show(sv)[:120], f)
        else:
            ctx.bad('R03b', k, 'prover and verifier disagree on the message sequence: dual(prover) = %s ; verifier = %s' % (
                ioshape.show(sp)[:150], ioshape.show(sv)[:150]), v)
        # R03c hash agreement
        hp = ioshape.hash_calls(prog, f)
        hv = ioshape.hash_calls(prog, v)
        if not hp and not hv:
            continue
        nc += 1
        k2 = 'R03c:%s<->%s:%s' % (f['q'].split('::')[-1], v['q'].split('::')[-1], (f['params'][0]['t'] if f['params'] else '')[:40])
        if len(hp) != len(hv):
            ctx.bad('R03c', k2, 'prover makes %d Fiat-Shamir hash calls, verifier %d' % (len(hp), len(hv)), v)
            continue
        bad = None
        for (fp_, rp, lp), (fv_, rv, lv) in zip(hp, hv):
            if fp_ != fv_:
                bad = 'different hash functions %s / %s' % (fp_, fv_)
                break
            if len(rp) != len(rv):
                bad = '%s is given %d arguments by the prover (line %d) and %d by the verifier (line %d)' % (fp_, len(rp), lp, len(rv), lv)
                break
            for i, (x, y) in enumerate(zip(rp, rv)):
                if x == y:
                    continue
                if x == 'L' or y == 'L':
                    # a value the prover computes is the value the verifier reads or recomputes
                    if (x.startswith('this.') and x.count('.') == 1) or (y.startswith('this.') and y.count('.') == 1):
                        bad = 'argument %d of %s is %s for the prover but %s for the verifier' % (i, fp_, x, y)
                    continue
                if x.startswith('#') or y.startswith('#'):
                    bad = 'count/constant argument %d of %s differs: %s vs %s' % (i, fp_, x, y)
                    break
                if x.startswith('this.') and y.startswith('this.'):
                    bad = 'argument %d of %s is member %s for the prover but %s for the verifier' % (i, fp_, x, y)
                    break
            if bad:
                break
        if bad:
            ctx.bad('R03c', k2, 'prover and verifier hash different inputs (honest proofs fail): ' + bad, v)
        else:
            ctx.ok('R03c', k2, '%d hash call(s) with agreeing function, count and argument roles' % len(hp), f)
    ctx.info['latent_pairs'] = sorted(set(latent))
    ctx.floor('R03b', nb, 30)
    ctx.floor('R03c', nc, 8)


EXPLANATION = ("Necessary conditions of completeness decided statically for all prover/verifier pairs the library offers: (R03a) at each "
               "fixed-base power the base is the member its table was precomputed from (per class, from the precompute sites) or the path "
               "carries an equality guard with it -- a guard establishing inequality is a contradiction that makes every honest run fail; "
               "(R03b) the prover's I/O shape (sends, receives, loops, alternatives, sub-protocol calls) is the exact dual of the "
               "verifier's; (R03c) both sides call the same hash function with the same count and argument roles; (R03d) sibling constructors "
               "of a class forward the same configuration parameters to sub-objects; (R03e) no verifier refuses a statement for having a "
               "specific value through a clause that is not part of the confirmed inventory. The algebra that makes the "
               "verifier's equations follow from the prover's computation is not decided.")
ASSUMPTIONS = ["tables are used only after the precompute of their class ran (constructor / Finalize)",
               "numeric string literals sent are values, other literals are framing", "prover and verifier are paired by name"]


def r03d(ctx):
    """constructor sibling agreement: a configuration parameter that one constructor of a class
    forwards to the construction of a sub-object is forwarded by its sibling constructors too
    (otherwise two parties that build the same object in different ways disagree on it)"""
    prog = ctx.prog
    n = 0
    for cls in sorted(prog.classes):
        ctors = [f for f in prog.by_q.get(cls + '::' + cls.split('::')[-1], []) if f['kind'] == 'ctor' and 'RFC4880' not in f['file']]
        if len(ctors) < 2:
            continue
        fw = []
        for f in ctors:
            a = ctx.analysis(f)
            T = a.T
            d = {}
            for nid, ev in a.all_events('ctor'):
                sub = ev[1]
                if sub.startswith('std::') or sub == '(anonymous)':
                    continue
                for i, t in enumerate(ev[2]):
                    nn = T.node(t)
                    if nn[0] == 'param':
                        d.setdefault(sub, set()).add(nn[1])
                    d.setdefault(sub, set())
            fw.append((f, d))
        for i in range(len(fw)):
            for j in range(i + 1, len(fw)):
                (f1, d1), (f2, d2) = fw[i], fw[j]
                p1 = set(p['n'] for p in f1['params'])
                p2 = set(p['n'] for p in f2['params'])
                for sub in sorted(set(d1) & set(d2)):
                    for q in sorted(p1 & p2):
                        n += 1
                        in1, in2 = q in d1[sub], q in d2[sub]
                        key = 'R03d:%s:%s:%s:%d/%d' % (cls, sub, q, f1['line'], f2['line'])
                        key = 'R03d:%s:%s:%s' % (cls, sub, q)
                        if in1 == in2:
                            if in1:
                                ctx.ok('R03d', key, 'both constructors forward %s to the %s sub-object' % (q, sub), f1)
                        else:
                            g = f2 if in1 else f1
                            ctx.bad('R03d', key, 'constructor at line %d forwards its parameter %s to the %s sub-object, the sibling constructor at line %d '
                                    'does not: objects built from a stream and from parameters disagree, honest proofs between them fail' % (
                                        (f1 if in1 else f2)['line'], q, sub, g['line']), g)
    ctx.floor('R03d', n, 6)


def r03e(ctx):
    import ast
    from . import invcheck, verifiers
    from .. import inventory
    prog = ctx.prog
    ref = invcheck.load_ref()
    sel = {f['key']: f for f, props in verifiers.selected(prog)}

    def strings(x, out):
        if isinstance(x, str):
            out.append(x)
        elif isinstance(x, (tuple, list)):
            for y in x:
                strings(y, out)
        return out
    n = 0
    new = 0
    for key, ent in ref.items():
        f = sel.get(key)
        if f is None or 'Verify' not in ent['q']:
            continue
        inv, _ = inventory.inventory(ctx, f)
        reffps = [ast.literal_eval(it['fp']) for it in ent['items']]
        for fp in inv:
            k = invcheck.kind_of(fp).split(':')[-1]
            if k not in ('eq', 'ne'):
                continue
            leaves = strings(fp, [])
            if any(x.startswith('W') and x[1:2].isdigit() for x in leaves) or not any(x.startswith('P') and x[1:2].isdigit() for x in leaves):
                continue
            n += 1
            if any(inventory.covers(fp, r) or inventory.covers(r, fp) for r in reffps):
                continue
            new += 1
            if k == 'ne':
                ctx.bad('R03e', 'R03e:%s:%s' % (ent['q'], invcheck.short(fp)), 'acceptance now requires a statement-derived value to differ from a specific value '
                        '(%s), a condition on the statement alone that the confirmed protocol does not have: true statements with that value are '
                        'refused whatever the honest prover does' % invcheck.describe(fp), f)
                continue
            ctx.note('R03e', 'R03e:%s:%s' % (ent['q'], invcheck.short(fp)), 'acceptance now also requires a condition on the statement alone that the '
                     'confirmed inventory does not have: %s -- statements of that form are refused whatever the prover does' % invcheck.describe(fp), f)
    ctx.info['R03e_statement_only_clauses'] = n
    ctx.info['R03e_new'] = new
    ctx.ok('R03e', 'R03e:summary', '%d statement-only (in)equalities in the verifiers, all part of the confirmed inventory' % n)
    ctx.floor('R03e', n, 20)


def r03f(ctx):
    from .. import bounds
    from ..sym import State
    prog = ctx.prog
    off = prog.offered()
    n = 0
    files = ('SchindelhauerTMCG.cc', 'BarnettSmartVTMF_dlog.cc', 'GrothVSSHE.cc', 'HooghSchoenmakersSkoricVillegasVRHE.cc', 'PedersenCOM.cc',
             'JareckiLysyanskayaASTC.cc', 'NaorPinkasEOTP.cc')
    for k, f in sorted(prog.funcs.items()):
        if not f.get('body') or k not in off or not f['file'].endswith(files):
            continue
        if not re.search(r'Prove|Verify|Send_|Choose_|Flip|Share|Mix|Glue', f['q'].split('::')[-1]):
            continue
        a = ctx.analysis(f)
        T = a.T
        occ = {}
        for nid, ev in sorted(a.all_events('usub'), key=lambda x: (x[1][4], x[0])):
            x, y = ev[1], ev[2]
            if T.op(x) != 'iv' or T.op(y) != 'iv' or x == y:
                continue
            st = a.instate[nid]
            if len(ev) > 5 and ev[5]:
                st = State(st.env, st.facts | frozenset(ev[5]))
            n += 1
            cons = bounds.constraints(a, st)
            G = bounds.sub(bounds.upoly(a, x), bounds.upoly(a, y))
            cons = cons + bounds.atom_constraints(a, bounds.atoms_of([G] + cons))
            key0 = 'R03f:%s' % f['q']
            occ[key0] = occ.get(key0, 0) + 1
            key = '%s#%d' % (key0, occ[key0])
            if bounds.prove_ge0(G, cons):
                ctx.ok('R03f', key, 'difference of two loop counters is taken only where the first is not smaller', f, line=ev[4])
            else:
                ctx.bad('R03f', key, 'the unsigned difference of two loop counters is computed without a guard ordering them: it wraps for every '
                        'iteration where the first is smaller, and a following reduction modulo the size gives the intended cyclic index only '
                        'for sizes that divide 2^64', f, line=ev[4])
    ctx.floor('R03f', n, 10)
