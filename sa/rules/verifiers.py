"""Selector shared by C04/C05/C08/C10/C17/C18: the receiving / verifying entry points whose
check inventory is frozen in inventory_ref.json, with the properties each one serves."""
import re

EXTRA = {
    'BarnettSmartVTMF_dlog::KeyGenerationProtocol_VerifyNIZK': ['C04', 'C05', 'C08'],
    'PedersenCommitmentScheme::Verify': ['C04', 'C05'],
    'PedersenTrapdoorCommitmentScheme::Verify': ['C04', 'C17'],
    'CanettiGennaroJareckiKrawczykRabinDSS::Verify': ['C04', 'C16'],
    'GennaroJareckiKrawczykRabinNTS::Verify': ['C04', 'C16'],
    'TMCG_PublicKey::verify': ['C10'],
    'TMCG_PublicKey::check': ['C10'],
    'TMCG_SecretKey::decrypt': ['C10'],
}


def props_for(f):
    q = f['q']
    short = q.split('::')[-1]
    if q in EXTRA:
        return EXTRA[q]
    if f['ret'] != 'bool' or not any('istream' in p['t'] for p in f['params']):
        return None
    if 'RFC4880' in f['file'] or f['kind'] != 'method':
        return None
    if 'UpdateKey' in short or 'RemoveKey' in short:
        return ['C08', 'C05']
    if 'Flip_twoparty' in short or 'Share_twoparty' in short:
        return ['C17', 'C05']
    if short.startswith('Send_') or short.startswith('Choose_'):
        return ['C18', 'C05']
    if 'ProveKey' in short:
        return ['C05']
    if 'Verify' in short:
        return ['C04', 'C05']
    return None


def selected(prog):
    off = prog.offered()
    out = []
    for k, f in sorted(prog.funcs.items(), key=lambda kv: (kv[1]['file'], kv[1]['line'])):
        p = props_for(f)
        if p and k in off:
            out.append((f, p))
    return out


def latent(prog):
    off = prog.offered()
    return [f for k, f in prog.funcs.items() if props_for(f) and k not in off]
