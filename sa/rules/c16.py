"""C16 Threshold signatures verify under the jointly generated key (the verifier clause only).

Decided: "the library's own verifiers accept exactly the triples that the standard equation and
range conditions accept", for GennaroJareckiKrawczykRabinNTS::Verify (Schnorr) and
CanettiGennaroJareckiKrawczykRabinDSS::Verify (DSA):
R16i frozen inventory of their accepting exits (the equation, abstracted to the inputs it relates,
     the range tests, invertibility),
R16a canonical signature components: every signature component (parameter other than the message)
     is either compared as a whole with a recomputed, reduced value (then only its canonical
     representative can be accepted) or carries explicit range facts lo <= x < q at acceptance --
     a component that only enters through an exponent of an order-q element, a reduction modulo q or
     an inversion modulo q would otherwise be accepted in every representative x + kq,
R16b sibling agreement: the Schnorr verifier recomputes the commitment from g^s * y^-c and compares
     the challenge with the hash of (message, commitment); the DSA verifier compares r with the
     recomputed r' reduced modulo q.
R16c (Schnorr signing, one necessary shape condition of sentence 1): the output s is the sum modulo q of the additive
     shares over *all* members of the key's qualified set QUAL.
Not decided: that a completed multi-party signing run outputs a valid signature (beyond R16c), and that all
honest parties obtain the same one (relations over executions)."""
from . import invcheck

VERIFIERS = ('GennaroJareckiKrawczykRabinNTS::Verify', 'CanettiGennaroJareckiKrawczykRabinDSS::Verify')


def run(ctx):
    prog = ctx.prog
    nfun, n = invcheck.check_inventory(ctx, 'C16', 'R16i')
    ctx.floor('R16i', n, 6)
    na = 0
    for q in VERIFIERS:
        f = prog.fn(q, 0)
        a = ctx.analysis(f)
        T = a.T
        fs = a.accept_facts()
        if fs is None:
            ctx.bad('R16a', 'R16a:%s:accept' % q, 'the verifier has no accepting exit', f)
            continue
        order = T.mk('this', 'q')
        mpz_params = [p for p in f['params'] if '__mpz_struct' in p['t']]
        for p in mpz_params[1:]:
            na += 1
            x = T.mk('param', p['n'])
            key = 'R16a:%s:%s' % (q, 'sig%d' % (mpz_params.index(p)))
            whole = False
            lo = hi = False
            for fa in fs:
                n_ = T.node(fa)
                if n_[0] != 'rel':
                    continue
                if n_[1] == '==' and x in (n_[2], n_[3]):
                    other = n_[3] if n_[2] == x else n_[2]
                    on = T.node(other)
                    if on[0] in ('hash', 'mod') or (on[0] == 'phi'):
                        whole = True
                if n_[1] in ('<', '<='):
                    if n_[2] == x and n_[3] == order and n_[1] == '<':
                        hi = True
                    if n_[3] == x and T.is_int(n_[2]) and T.node(n_[2])[1] >= 0:
                        lo = True
                    if n_[3] == x and T.is_int(n_[2]) and n_[1] == '<' and T.node(n_[2])[1] >= -1:
                        lo = True
            if whole:
                ctx.ok('R16a', key, 'signature component %s is compared as a whole with the recomputed value: only its canonical representative is accepted' % p['n'], f)
            elif lo and hi:
                ctx.ok('R16a', key, 'signature component %s is accepted only in the range [0, q)' % p['n'], f)
            else:
                ctx.bad('R16a', key, 'signature component %s enters the verification only modulo q and is not range-checked (%s): every '
                        'representative %s + kq of an accepted value is accepted as well' % (
                            p['n'], 'no upper bound against q' if not hi else 'no lower bound', p['n']), f)
    ctx.floor('R16a', na, 4)
    r16c(ctx)


def r16c(ctx):
    """combination of the Schnorr signature value: y is the product of the y_i of *all* members of the key's qualified set
    QUAL, so s = k + cx needs the additive share s_i of every member of QUAL -- contributed by the party itself or
    computed from its reconstructed z_i when it is missing from the signing run.  The value written to the output `s`
    must therefore be (acc + s_i[..]) mod q with an accumulator that starts at 0 and is carried by a loop over the member
    set QUAL (not over the parties that happened to take part in this run)."""
    prog = ctx.prog
    f = prog.fn('GennaroJareckiKrawczykRabinNTS::Sign', 0)
    a = ctx.analysis(f)
    T = a.T
    sp = [p for p in f['params'] if p['n'] == 's']
    if not sp:
        from ..facts import AnalysisBroken
        raise AnalysisBroken('output parameter s of GennaroJareckiKrawczykRabinNTS::Sign not found')
    loc = ('v', sp[0]['id'], 's')
    q = T.mk('this', 'q')
    ok = False
    seen = None
    for nid, ev in a.all_events('write'):
        if ev[1] != loc:
            continue
        vn = T.node(ev[2])
        accloc = loc
        if vn[0] == 'mod' and vn[2] == q and T.op(vn[1]) == 'phi' and T.node(vn[1])[1] in a.loop_nodes:
            # the sum is carried in a temporary and reduced once after the loop: (sum) mod q is the same residue
            srcs = T.phi_src.get((T.node(vn[1])[1], T.node(vn[1])[2]), ())
            body_src = [x for x in srcs if T.op(x) == 'add' and vn[1] in T.node(x)[1:]]
            if body_src and any(T.is_int(x, 0) for x in srcs):
                vn = ('mod', body_src[0], q)
                accloc = T.node(T.node(ev[2])[1])[2]        # the temporary that carries the sum
        if vn[0] == 'mod' and vn[2] == q and T.node(vn[1])[0] == 'add':
            acc = [x for x in T.node(vn[1])[1:] if T.op(x) == 'phi' and T.node(x)[2] == accloc]
            if len(acc) == 1:
                lb = a.loop_bound.get(T.node(acc[0])[1])
                seen = T.show(lb[0], 3) if lb else 'no counting loop'
                over_qual = bool(lb) and T.contains(lb[0], lambda z: z == ('this', 'QUAL')) and T.op(lb[0]) == 'mc' and T.node(lb[0])[1].split('::')[-1] == 'size' and \
                    T.node(lb[0])[2] == T.mk('this', 'QUAL')
                zero = any(T.is_int(x, 0) for x in T.phi_src.get((T.node(acc[0])[1], T.node(acc[0])[2]), ()))
                body = a.loop_nodes.get(T.node(acc[0])[1], set())
                uncond = not any(x.kind == 'branch' and x.id in body and all(y.id in body for y in x.succ) for x in a.cfg.rpo)
                if not uncond:
                    seen = (seen or '') + '; members are skipped under a condition'
                if over_qual and zero and uncond:
                    ok = True
    (ctx.ok if ok else ctx.bad)('R16c', 'R16c:GennaroJareckiKrawczykRabinNTS::Sign:s', 's = sum over all members of QUAL of the additive shares s_i, modulo q' if ok else
                                'the signature value s is not accumulated as 0 + sum of s_i over all members of the key\'s qualified set QUAL modulo q (loop range: %s): '
                                'when a key holder is missing from the signing run its reconstructed share c*z_j is left out and every honest party outputs the same '
                                'invalid signature' % seen, f)
    ctx.floor('R16c', 1, 1)


EXPLANATION = ("Static guard inventory of the two signature verifiers the library offers for its threshold schemes (Schnorr: "
               "GennaroJareckiKrawczykRabinNTS::Verify, DSA: CanettiGennaroJareckiKrawczykRabinDSS::Verify): the accepting exits are guarded "
               "by the frozen inventory (verification equation abstracted to the inputs it relates, range tests, invertibility), and every "
               "signature component is either compared as a whole with a recomputed reduced value or carries the range facts 0 <= x < q, so "
               "that no non-canonical representative is accepted. Decides the last sentence of C16 (the library's verifiers accept "
               "exactly what equation and range conditions accept) and one necessary shape condition of the first: the threshold Schnorr signer "
               "combines s as the sum modulo q of the additive shares of all members of the key's qualified set. Validity and agreement of the "
               "outputs of a multi-party signing run are otherwise relations over executions and are not decided.")
ASSUMPTIONS = ["the first mpz parameter of a verifier is the message, the others are the signature components",
               "the hash function is collision resistant (not checked)"]
