"""C16 Threshold signatures verify under the jointly generated key (the verifier clause only).

Decided: "the library's own verifiers accept exactly the triples that the standard equation and
range conditions accept", for GennaroJareckiKrawczykRabinNTS::Verify (Schnorr) and
CanettiGennaroJareckiKrawczykRabinDSS::Verify (DSA):
R16i frozen inventory of their accepting exits (the equation, abstracted to the inputs it relates,
     the range tests, invertibility),
R16a canonical signature components: every signature component (parameter other than the message)
     is either compared as a whole with a recomputed, reduced value (then only its canonical
     representative can be accepted) or carries explicit range facts lo <= x < q at acceptance --
     a component that only enters through an exponent of an order-q element, a reduction modulo q or
     an inversion modulo q would otherwise be accepted in every representative x + kq,
R16b sibling agreement: the Schnorr verifier recomputes the commitment from g^s * y^-c and compares
     the challenge with the hash of (message, commitment); the DSA verifier compares r with the
     recomputed r' reduced modulo q.
Not decided: that a completed multi-party signing run outputs a valid signature, and that all
honest parties obtain the same one (relations over executions)."""
from . import invcheck

VERIFIERS = ('GennaroJareckiKrawczykRabinNTS::Verify', 'CanettiGennaroJareckiKrawczykRabinDSS::Verify')


def run(ctx):
    prog = ctx.prog
    nfun, n = invcheck.check_inventory(ctx, 'C16', 'R16i')
    ctx.floor('R16i', n, 6)
    na = 0
    for q in VERIFIERS:
        f = prog.fn(q, 0)
        a = ctx.analysis(f)
        T = a.T
        fs = a.accept_facts()
        if fs is None:
            ctx.bad('R16a', 'R16a:%s:accept' % q, 'the verifier has no accepting exit', f)
            continue
        order = T.mk('this', 'q')
        mpz_params = [p for p in f['params'] if '__mpz_struct' in p['t']]
        for p in mpz_params[1:]:
            na += 1
            x = T.mk('param', p['n'])
            key = 'R16a:%s:%s' % (q, 'sig%d' % (mpz_params.index(p)))
            whole = False
            lo = hi = False
            for fa in fs:
                n_ = T.node(fa)
                if n_[0] != 'rel':
                    continue
                if n_[1] == '==' and x in (n_[2], n_[3]):
                    other = n_[3] if n_[2] == x else n_[2]
                    on = T.node(other)
                    if on[0] in ('hash', 'mod') or (on[0] == 'phi'):
                        whole = True
                if n_[1] in ('<', '<='):
                    if n_[2] == x and n_[3] == order and n_[1] == '<':
                        hi = True
                    if n_[3] == x and T.is_int(n_[2]) and T.node(n_[2])[1] >= 0:
                        lo = True
                    if n_[3] == x and T.is_int(n_[2]) and n_[1] == '<' and T.node(n_[2])[1] >= -1:
                        lo = True
            if whole:
                ctx.ok('R16a', key, 'signature component %s is compared as a whole with the recomputed value: only its canonical representative is accepted' % p['n'], f)
            elif lo and hi:
                ctx.ok('R16a', key, 'signature component %s is accepted only in the range [0, q)' % p['n'], f)
            else:
                ctx.bad('R16a', key, 'signature component %s enters the verification only modulo q and is not range-checked (%s): every '
                        'representative %s + kq of an accepted value is accepted as well' % (
                            p['n'], 'no upper bound against q' if not hi else 'no lower bound', p['n']), f)
    ctx.floor('R16a', na, 4)


EXPLANATION = ("Static guard inventory of the two signature verifiers the library offers for its threshold schemes (Schnorr: "
               "GennaroJareckiKrawczykRabinNTS::Verify, DSA: CanettiGennaroJareckiKrawczykRabinDSS::Verify): the accepting exits are guarded "
               "by the frozen inventory (verification equation abstracted to the inputs it relates, range tests, invertibility), and every "
               "signature component is either compared as a whole with a recomputed reduced value or carries the range facts 0 <= x < q, so "
               "that no non-canonical representative is accepted. Decides only the last sentence of C16 (the library's verifiers accept "
               "exactly what equation and range conditions accept); validity and agreement of the outputs of a multi-party signing run "
               "are relations over executions and are not decided.")
ASSUMPTIONS = ["the first mpz parameter of a verifier is the message, the others are the signature components",
               "the hash function is collision resistant (not checked)"]
