"""C14 Reliable broadcast: agreement, integrity, order, delivery (structural part).

In CachinKursawePetzoldShoupRBC::Deliver / DeliverFrom:
R14a thresholds: ready after n-t matching echoes (and at most t readys), ready amplification at
     t+1, delivery at 2t+1, out-of-order retrieval with n-t deliver and n-t agreeing answers,
R14b first-time filters of the six message kinds,
R14c the payload of an r-send is taken only from the claimed sender, malformed tags are rejected
     before any table is touched,
R14d the delivered value is the stored payload and its digest was compared with the agreed one
     (ready path), the answer's digest was compared (answer path), or n-t answers agree,
R14g every round of DeliverFrom's wait loop returns a buffered value or runs a delivery step,
R14f an l-deliver answer vouches only for slots this party delivered itself (s < deliver_s[who]),
R14e every delivery is for the current channel ID, in FIFO mode for the expected sequence number,
     and advances that sequence number; DeliverFrom hands out a buffered value only for the
     current ID."""
from ..core import poly
from fractions import Fraction

CLS = 'CachinKursawePetzoldShoupRBC'
KINDS = {'r_send': 'send', 'r_echo': 'echo', 'r_ready': 'ready', 'r_request': 'request', 'r_answer': 'answer', 'l_deliver': 'deliver'}


def thr_poly(T, t):
    """polynomial over the members n and t (and integers) or None"""
    p = poly(T, t)
    for m in p:
        for x in m:
            if T.node(x) not in (('this', 'n'), ('this', 't')):
                return None
    return p


def named(T, p):
    n, t = T.mk('this', 'n'), T.mk('this', 't')
    table = {
        'n-t': {(n,): Fraction(1), (t,): Fraction(-1)},
        't+1': {(t,): Fraction(1), (): Fraction(1)},
        '2t+1': {(t,): Fraction(2), (): Fraction(1)},
        't': {(t,): Fraction(1)},
    }
    for k, v in table.items():
        if p == v:
            return k
    return None


def handler_of(a, facts):
    T = a.T
    for fa in facts:
        n = T.node(fa)
        if n[0] == 'rel' and n[1] == '==':
            for x, y in ((n[2], n[3]), (n[3], n[2])):
                xn = T.node(x)
                if xn[0] == 'this' and xn[1] in KINDS and T.contains(y, lambda z: z[0] == 'elem'):
                    return xn[1]
    return None


def counter_role(a, t):
    T = a.T
    if T.contains(t, lambda n: n == ('this', 'e_d')) or any(T.node(x)[0] == 'phi' and 'eit' in str(T.node(x)[2]) for x in T.subterms(t)):
        return 'echo'
    if T.contains(t, lambda n: n == ('this', 'r_d')) or any(T.node(x)[0] == 'phi' and 'rit' in str(T.node(x)[2]) for x in T.subterms(t)):
        return 'ready'
    return 'count'


def run(ctx):
    prog = ctx.prog
    f = prog.fn(CLS + '::Deliver', 0)
    a = ctx.analysis(f)
    T = a.T
    # ---------------------------------------------------------------- R14a thresholds
    found = {}
    for nid, ev in a.all_events('branch'):
        c = ev[1]
        n = T.node(c)
        if n[0] == 'not':
            n = T.node(n[1])
        if n[0] != 'rel':
            continue
        op, x, y = n[1], n[2], n[3]
        px, py = thr_poly(T, x), thr_poly(T, y)
        if (px is None) == (py is None):
            continue
        # orient: counter OP threshold
        if px is not None:
            thr, cnt = px, y
            op = {'<': '>', '<=': '>=', '>': '<', '>=': '<=', '==': '==', '!=': '!='}[op]
        else:
            thr, cnt = py, x
        nm = named(T, thr)
        if nm is None:
            continue
        st = a.instate[nid]
        h = handler_of(a, st.facts)
        found.setdefault((h, nm), set()).add((op, counter_role(a, cnt)))
    ctx.info['threshold_comparisons'] = {'%s:%s' % k: sorted(v) for k, v in found.items()}
    expect = [
        ('r_echo', 'n-t', ('==', '>='), 'send ready after n-t matching echoes'),
        ('r_echo', 't', ('<=', '<'), 'ready after echo only while at most t readys were seen'),
        ('r_ready', 't+1', ('==', '>='), 'ready amplification after t+1 readys'),
        ('r_ready', '2t+1', ('==', '>='), 'delivery after 2t+1 readys'),
        ('l_deliver', 'n-t', ('<', '>='), 'out-of-order retrieval needs n-t deliver messages / n-t agreeing answers'),
    ]
    na = 0
    for h, nm, ops, what in expect:
        na += 1
        got = found.get((h, nm), set())
        # a comparison and its negation mark the same decision boundary (the CFG records the
        # condition as written, `!(x > t)` and `x <= t` are the same guard)
        NEGOP = {'<': '>=', '<=': '>', '>': '<=', '>=': '<', '==': '!=', '!=': '=='}
        okv = any(o in ops or NEGOP[o] in ops for o, role in got)
        key = 'R14a:%s:%s' % (h, nm)
        if okv:
            ctx.ok('R14a', key, what, f)
        else:
            near = sorted('%s:%s %s' % (k[0], k[1], sorted(v)) for k, v in found.items() if k[0] == h)
            ctx.bad('R14a', key, 'threshold missing or changed: %s (comparisons found in this handler: %s)' % (what, near), f)
    ctx.floor('R14a', na, 5)
    # ---------------------------------------------------------------- R14b first-time filters
    nb = 0
    for const, member in KINDS.items():
        ins = [(nid, ev) for nid, ev in a.all_events('mcall') if ev[1].endswith('::insert') and ev[6] is not None and root_member(ev[6]) == member]
        nb += 1
        key = 'R14b:' + member
        if not ins:
            ctx.bad('R14b', key, 'messages of kind %s are no longer recorded as seen' % member, f)
            continue
        okv = True
        for nid, ev in ins:
            st = a.instate[nid]
            first = any(T.node(fa)[0] == 'falsy' and T.node(T.node(fa)[1])[0] == 'mc' and T.node(T.node(fa)[1])[1].endswith('::count') and
                        T.contains(T.node(fa)[1], lambda z: z == ('this', member)) for fa in st.facts)
            kind = handler_of(a, st.facts) == const
            if not (first and kind):
                okv = False
        (ctx.ok if okv else ctx.bad)('R14b', key, 'a %s message is handled only the first time it arrives from a party (and recorded at once)' % member if okv else
                                     'the first-time filter of %s messages is missing: a repeated message would be counted again' % member, f)
    ctx.floor('R14b', nb, 6)
    # ---------------------------------------------------------------- R14c claimed sender / tag sanity
    # payload stored from an r-send only if message[1] == l
    okc = True
    stores = 0
    for nid, ev in a.all_events('mcall'):
        if ev[1].endswith('::insert') and ev[6] is not None and root_member(ev[6]) == 'mbar':
            st = a.instate[nid]
            if handler_of(a, st.facts) != 'r_send':
                continue
            stores += 1
            claimed = any(is_eq_sender(a, fa) for fa in st.facts)
            if not claimed:
                okc = False
    (ctx.ok if okc and stores else ctx.bad)('R14c', 'R14c:claimed-sender', 'the payload of an r-send is accepted only from the sender named in the tag' if okc and stores else
                                            'an r-send payload is stored although the tag names another sender than the link it came from', f)
    # sanity of j, s, action before any table access
    first_table = None
    for n_ in a.cfg.rpo:
        for ev in a.events.get(n_.id, []):
            if ev[0] == 'mcall' and ev[1].endswith('::count') and ev[6] is not None and root_member(ev[6]) in KINDS.values():
                if first_table is None:
                    first_table = n_.id
    oks = False
    if first_table is not None:
        st = a.instate[first_table]
        jn = any(T.node(fa)[0] == 'rel' and T.node(fa)[1] == '<=' and T.contains(T.node(fa)[2], lambda z: z[0] == 'elem') and
                 thr_or_n(T, T.node(fa)[3]) for fa in st.facts)
        s1 = any(T.node(fa)[0] == 'rel' and T.node(fa)[1] == '<=' and T.is_int(T.node(fa)[2], 1) for fa in st.facts)
        act = any(T.node(fa)[0] == 'rel' and T.node(fa)[1] == '<=' and T.node(T.node(fa)[3]) == ('this', 'l_deliver') for fa in st.facts)
        oks = jn and s1 and act
    (ctx.ok if oks else ctx.bad)('R14c', 'R14c:tag-sanity', 'sender index, sequence number and action are range-checked before any table is touched' if oks else
                                 'a malformed tag (sender index, sequence number or action out of range) reaches the protocol tables', f)
    # ---------------------------------------------------------------- R14d / R14e at the delivering exits
    mparam = f['params'][0]
    ne = 0
    for n_, kind, val, st in a.exits():
        if kind != 'return' or val is None or T.node(val) != ('bool', True):
            continue
        ne += 1
        h = handler_of(a, st.facts) or 'buffer'
        key0 = 'R14e:%s' % h
        idok = any(T.node(fa)[0] == 'rel' and T.node(fa)[1] == '==' and T.mk('this', 'ID') in (T.node(fa)[2], T.node(fa)[3]) for fa in st.facts)
        (ctx.ok if idok else ctx.bad)('R14e', key0 + ':channel', 'delivery only for the current channel identifier' if idok else
                                      'a value is delivered without comparing the message\'s channel identifier with the current ID', f, line=n_.line)
        fifo_ok = False
        for fa in st.facts:
            fn_ = T.node(fa)
            if fn_[0] == 'if' and T.node(fn_[1]) == ('truthy', T.mk('this', 'fifo')):
                F = T.node(fn_[2])
                if F[0] == 'rel' and F[1] == '==' and any('deliver_s' in T.show(z, 3) for z in (F[2], F[3])):
                    fifo_ok = True
            if fn_[0] == 'rel' and fn_[1] == '==' and any('deliver_s' in T.show(z, 3) for z in (fn_[2], fn_[3])):
                fifo_ok = True
        (ctx.ok if fifo_ok else ctx.bad)('R14e', key0 + ':order', 'in FIFO mode the delivered sequence number equals the expected one' if fifo_ok else
                                         'FIFO order is not enforced at this delivery', f, line=n_.line)
        chain = chain_back(a, n_)
        inc = False
        from_mbar = False
        delivered = []
        for cn in chain:
            for ev in a.events.get(cn, []):
                if ev[0] == 'write' and ev[1] == ('e', ('m', 'deliver_s'), '*') and T.node(ev[2])[0] == 'add' and any(T.is_int(z, 1) for z in T.node(ev[2])[1:]):
                    inc = True
                if ev[0] == 'write' and ev[1] == ('v', mparam['id'], mparam['n']):
                    cur = a.read(('e', ('m', 'mbar'), '*'), a.instate[cn])
                    if ev[2] == cur or 'mbar' in T.show(ev[2], 4):
                        from_mbar = True
                    delivered.append(ev[2])
        (ctx.ok if inc else ctx.bad)('R14e', key0 + ':advance', 'the expected sequence number advances with the delivery' if inc else
                                     'delivery does not advance the sender\'s sequence number (the slot could be delivered twice)', f, line=n_.line)
        # integrity
        if h == 'r_ready':
            integ = any(T.node(fa)[0] == 'rel' and T.node(fa)[1] == '==' and 'dbar' in T.show(fa, 4) and
                        (T.contains(fa, lambda z: z[0] == 'hash') or 'foo' in T.show(fa, 3)) for fa in st.facts)
            thr = any(T.node(fa)[0] == 'rel' and named(T, thr_poly(T, T.node(fa)[2]) or {}) == '2t+1' or
                      T.node(fa)[0] == 'rel' and named(T, thr_poly(T, T.node(fa)[3]) or {}) == '2t+1' for fa in st.facts)
            integ = integ and thr
            what = 'digest of the stored payload equals the agreed digest and 2t+1 readys were counted'
        elif h == 'r_answer':
            # the value handed out must be the very value whose digest was compared (not a cached one)
            def hashed_values(fa):
                out = []
                for x in T.subterms(fa):
                    if T.node(x)[0] == 'hash':
                        out.extend(T.subterms(x))
                return out
            integ = bool(delivered) and all(any(T.node(fa)[0] == 'rel' and T.node(fa)[1] == '==' and 'dbar' in T.show(fa, 4) and
                                                a.strip_ix(v, a.ix_loops(v)) in hashed_values(fa) for fa in st.facts) for v in delivered)
            from_mbar = True       # on this path the stored payload and the answered one must coincide, which is what integ now checks
            what = 'the value handed out is the answered payload whose digest equals the agreed digest'
        elif h == 'l_deliver':
            integ = sum(1 for fa in st.facts if T.node(fa)[0] == 'rel' and T.node(fa)[1] == '<=' and named(T, thr_poly(T, T.node(fa)[2]) or {}) == 'n-t') >= 2
            what = 'n-t deliver messages and n-t agreeing retrieved answers'
        else:
            integ = True
            what = 'value buffered by an earlier, already verified delivery step'
        ok2 = integ and from_mbar
        (ctx.ok if ok2 else ctx.bad)('R14d', 'R14d:%s' % h, 'delivered value is the stored payload; ' + what if ok2 else
                                     'integrity of the delivered value is not established on this path (expected: %s; value from stored payload: %s)' % (what, from_mbar), f, line=n_.line)
    ctx.floor('R14e', ne, 4)
    # ---------------------------------------------------------------- R14h a slot is handed out once, in both modes
    # In FIFO mode the comparison with the expected sequence number (R14e:order) together with its advance filters repeats.
    # A non-FIFO channel has no such filter, so each delivering exit needs a once-only justification of its own:
    #  J1 the trigger is the *equality* of the ready counter with 2t+1 (the counter counts every party once, R14b),
    #  J2 the exit is reachable only for answers to an l-retrieve of our own, and l-retrieve is sent in FIFO mode only,
    #  J3 a per-slot "already handed out" table (a member map keyed by the tag, not one of the per-link first-time
    #     filters) is tested on the path and written before the exit,
    #  J0 the exit is reachable in FIFO mode only.
    fifo_t = T.mk('this', 'fifo')
    retr_fifo_only = True
    for nid, ev in a.all_events('mcall'):
        if ev[1].split('::')[-1] in ('insert', 'operator[]') and ev[6] is not None and root_member(ev[6]) == 'retrieve':
            if not any(T.node(fa) == ('truthy', fifo_t) for fa in a.instate[nid].facts):
                retr_fifo_only = False
    nh = 0
    for n_, kind, val, st in a.exits():
        if kind != 'return' or val is None or T.node(val) != ('bool', True):
            continue
        nh += 1
        h = handler_of(a, st.facts) or 'buffer'
        why = None
        doms = set(chain_back(a, n_, 400))
        for fa in st.facts:
            fn_ = T.node(fa)
            if fn_[0] == 'if' and T.node(fn_[1]) == ('falsy', fifo_t):
                fn_ = T.node(fn_[2])          # what holds on a non-FIFO channel
            if fn_ == ('truthy', fifo_t):
                why = 'reachable in FIFO mode only'
            if fn_[0] == 'rel' and fn_[1] == '==':
                for x, y in ((fn_[2], fn_[3]), (fn_[3], fn_[2])):
                    if named(T, thr_poly(T, x) or {}) == '2t+1' and counter_role(a, y) == 'ready':
                        why = why or 'triggered by the ready counter being equal to 2t+1'
            cnt = None
            if fn_[0] == 'falsy' and T.node(fn_[1])[0] == 'mc':
                cnt = T.node(fn_[1])
            if fn_[0] == 'rel' and (fn_[1] == '==' and any(T.is_int(z, 0) for z in fn_[2:]) or fn_[1] == '<=' and T.is_int(fn_[3], 0) or
                                    fn_[1] == '<' and T.is_int(fn_[3], 1)):
                for z in fn_[2:]:
                    if T.node(z)[0] == 'mc':
                        cnt = T.node(z)
            if fn_[0] == 'truthy' and T.node(fn_[1])[0] == 'mc' and T.node(fn_[1])[1].endswith('::count') and \
                    'retrieve[' in T.show(T.node(fn_[1])[2], 2) and 'retrieve_buf' not in T.show(T.node(fn_[1])[2], 2) and retr_fifo_only:
                why = why or 'reachable only for answers to an l-retrieve, which is sent in FIFO mode only'
            if cnt is not None and cnt[1].endswith('::count') and T.node(cnt[2])[0] == 'this':
                mem = T.node(cnt[2])[1]
                written = any(ev[0] == 'mcall' and ev[1].split('::')[-1] in ('insert', 'operator[]', 'emplace') and ev[6] is not None and root_member(ev[6]) == mem and ev[6] == ('m', mem)
                              for cn in doms for ev in a.events.get(cn, []))
                if written:
                    why = why or 'guarded by the per-slot table %s, which is written before the value is handed out' % mem
        key = 'R14h:%s' % h
        if why:
            ctx.ok('R14h', key, 'on a non-FIFO channel this delivery cannot repeat for one slot: ' + why, f, line=n_.line)
        else:
            ctx.bad('R14h', key, 'on a non-FIFO channel nothing keeps this exit from handing out the same slot again (no sequence filter in that mode, no once-only '
                    'trigger, no per-slot table): %s' % ('every further r-answer for the slot delivers it once more' if h == 'r_answer' else
                                                       'every buffered copy of the slot is delivered' if h == 'buffer' else 'the slot can be delivered repeatedly'), f, line=n_.line)
    ctx.floor('R14h', nh, 4)
    # DeliverFrom: buffered value handed out only for the current ID
    g = prog.fn(CLS + '::DeliverFrom', 0)
    b = ctx.analysis(g)
    Tb = b.T
    nd = 0
    for n_, kind, val, st in b.exits():
        if kind != 'return' or val is None or Tb.node(val) != ('bool', True):
            continue
        nd += 1
        idok = any(Tb.node(fa)[0] == 'rel' and Tb.node(fa)[1] == '==' and Tb.mk('this', 'ID') in (Tb.node(fa)[2], Tb.node(fa)[3]) for fa in st.facts) or \
            any(Tb.node(fa)[0] == 'truthy' and Tb.node(Tb.node(fa)[1])[0] == 'mc' and Tb.node(Tb.node(fa)[1])[1].endswith('::Deliver') for fa in st.facts)
        (ctx.ok if idok else ctx.bad)('R14e', 'R14e:DeliverFrom:%d' % nd, 'sender-specific delivery hands out a value only for the current channel ID (or straight from Deliver)' if idok else
                                      'DeliverFrom returns a buffered value without comparing its saved channel ID with the current one', g, line=n_.line)

    # ---------------------------------------------------------------- R14f vouching for a slot
    # an l-deliver answer carries the stored payload of a slot to a party that delivers it on n-t such
    # answers without a ready quorum of its own: in FIFO mode it may be sent only for slots this party
    # has itself delivered (s < deliver_s[who]); for the slot it is still waiting for the stored
    # payload is merely what the claimed sender put into its r-send
    nf = 0
    for nid, ev in sorted(a.all_events('mcall'), key=lambda x: (x[1][4], x[0])):
        if not ev[1].endswith('::Send') or not ev[3]:
            continue
        msg = ev[3][0]
        if not T.contains(msg, lambda z: z == ('this', 'l_deliver')):
            continue
        nf += 1
        st = a.instate[nid]
        payload_stored = 'mbar' in T.show(msg, 6)
        strict = False
        for fa in st.facts:
            fn_ = T.node(fa)
            if fn_[0] == 'if' and T.node(fn_[1]) == ('truthy', T.mk('this', 'fifo')):
                fn_ = T.node(fn_[2])
            if fn_[0] == 'rel' and fn_[1] == '<' and 'deliver_s' in T.show(fn_[3], 3) and 'deliver_s' not in T.show(fn_[2], 3):
                strict = True
        okf = strict and payload_stored
        (ctx.ok if okf else ctx.bad)('R14f', 'R14f:l_retrieve:answer#%d' % nf,
                                     'an l-deliver answer carries the stored payload and is sent in FIFO mode only for slots already delivered here (s < deliver_s[who])' if okf else
                                     ('an l-deliver answer is sent for a slot this party has not delivered itself (no guard s < deliver_s[who] in FIFO mode): n-t such answers '
                                      'make the requester deliver a slot that no ready quorum exists for' if payload_stored else
                                      'an l-deliver answer does not carry the stored payload'), f, line=ev[4])
    ctx.floor('R14f', nf, 1)

    # ---------------------------------------------------------------- R14g the wait loop makes progress
    # DeliverFrom polls until its timeout: every round that does not hand out a buffered value must
    # run one delivery step (Deliver), otherwise messages that have been handed over are never
    # processed however long the caller waits
    hs = [h for h in b.cfg.rpo if h.id in b.loop_nodes and not any(h.id in body and h2 != h.id for h2, body in b.loop_nodes.items())]
    ng = 0
    for h in hs:
        body = b.loop_nodes[h.id]
        progress = set(nid for nid, ev in b.all_events('mcall') if ev[1].endswith('::Deliver') and nid in body)
        if not progress:
            continue
        ng += 1
        byid = {x.id: x for x in b.cfg.rpo}
        seen = set()
        stack = [h]
        idle = None
        while stack:
            x = stack.pop()
            if x.id in seen or x.id in progress or x.id not in body:
                continue
            seen.add(x.id)
            for y in x.succ:
                if y is h:
                    idle = x
                    break
                stack.append(y)
            if idle is not None:
                break
        if idle is None:
            ctx.ok('R14g', 'R14g:DeliverFrom:progress', 'every round of the wait loop either returns a buffered value or runs a delivery step', g, line=h.line)
        else:
            ctx.bad('R14g', 'R14g:DeliverFrom:progress', 'a round of the wait loop can end (line %d) without returning and without calling Deliver: while the buffer of this '
                    'sender holds only values of another channel, messages that were handed over are never processed and the call spins until its timeout' % idle.line, g, line=h.line)
    ctx.floor('R14g', ng, 1)


def chain_back(a, node, limit=60):
    """node ids on the straight-line chain that ends in node (unique predecessors)"""
    return a.dominators_of(node.id, limit)


def root_member(loc):
    while isinstance(loc, tuple) and loc[0] in ('e', 'f'):
        loc = loc[1]
    if isinstance(loc, tuple) and loc[0] == 'm':
        return loc[1]
    return None


def thr_or_n(T, t):
    p = thr_poly(T, t)
    return p is not None and any(m for m in p if m)


def is_eq_sender(a, fa):
    """message[1] == l (the link the message arrived on)"""
    T = a.T
    n = T.node(fa)
    if n[0] != 'rel' or n[1] != '==':
        return False
    s = T.show(fa, 4)
    return '[1]' in s and ('<l>' in s or ' l' in s or 'l)' in s)


EXPLANATION = ("Static guard inventory of the reliable-broadcast state machine: the threshold comparisons of each handler (classified by the "
               "must-fact 'action == r_x' at the comparison) are normalised to polynomials over n and t and must be n-t / t / t+1 / 2t+1 / n-t "
               "in the places the protocol prescribes; each of the six message kinds is recorded under a first-time guard; r-send payloads "
               "come only from the claimed sender and malformed tags are rejected before any table access; at every delivering exit the "
               "must-facts contain channel-ID equality, the FIFO implication, the advance of the sequence number and the integrity "
               "condition of that path; DeliverFrom returns buffered values only for the current ID. Agreement and totality over all "
               "schedules and Byzantine behaviours are a model-checking question and not decided.")
ASSUMPTIONS = ["handlers are identified by the equality of the action field with the class's action constants",
               "std::map / std::list semantics", "fault-injection switches are ordinary parameters here (no path is excluded)"]
