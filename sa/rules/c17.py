"""C17 Distributed coin flips are common and bound by commitments (structural part).

R17i frozen inventory of Share_twoparty / Flip_twoparty / the trapdoor-commitment verifier,
R17a commit-before-reveal: a value that exposes the secret share (not hidden under an
     exponentiation) is sent only after every other participant's commitment was received
     and membership-checked, on every path,
R17d a member index set filled during a run (the qualified set) is cleared first in the same function,
R17b the opening of the peer is used only after the range checks and the commitment equation
     (inventory), and the result is the running sum modulo q of the shares."""
from . import invcheck
from ..core import facts_plain

RVSS = 'JareckiLysyanskayaRVSS'
EDCF = 'JareckiLysyanskayaEDCF'


def exposed(a, t, secret_flds=()):
    """rand ids / secret member reads that occur in t outside of an exponent position"""
    T = a.T
    out = set()
    seen = set()
    st = [t]
    while st:
        x = st.pop()
        if x in seen:
            continue
        seen.add(x)
        n = T.node(x)
        o = n[0]
        if o == 'rand':
            out.add(('rand', n[1]))
        elif o == 'fld' and n[2] in secret_flds:
            out.add(('member', n[2]))
        elif o == 'this' and n[1] in secret_flds:
            out.add(('member', n[1]))
        if o == 'powm':
            st.append(n[1])     # base only: the exponent is hidden by the discrete logarithm
            st.append(n[3])
        elif o == 'hash':
            continue
        elif o == 'phi':
            st.extend(T.phi_src.get((n[1], n[2]), ()))
        elif o not in ('int', 'str', 'bool', 'this', 'param', 'wire', 'sym', 'iv', 'local', 'glob', 'null', 'rand', 'new', 'float', 'thisobj'):
            from ..sym import RAWARGS
            raw = RAWARGS.get(o, ())
            st.extend(y for i, y in enumerate(n[1:]) if isinstance(y, int) and not isinstance(y, bool) and i not in raw)
    return out


def run(ctx):
    prog = ctx.prog
    nfun, n = invcheck.check_inventory(ctx, 'C17', 'R17i')
    ctx.floor('R17i', n, 8)
    share = prog.fn(RVSS + '::Share_twoparty', 0)
    flip = prog.fn(EDCF + '::Flip_twoparty', 0)
    a = ctx.analysis(share)
    T = a.T
    # members that receive the secret share (written with an exposed random value)
    secret = set()
    for nid, ev in a.all_events('write'):
        if ev[1][0] == 'm' and exposed(a, ev[2]):
            secret.add(ev[1][1])
    ctx.info['secret_members'] = sorted(secret)
    if not secret:
        ctx.bad('R17a', 'R17a:secret-members', 'no member holds the secret share any more (anchor changed)', share, nec=False)
    ns = 0
    # Share_twoparty: anything sent that exposes the share needs all commitments first
    for nid, ev in a.all_events('snd'):
        ex = exposed(a, ev[2], secret)
        ns += 1
        k = 'R17a:Share_twoparty:send@%s' % locn(a, ev)
        if not ex:
            ctx.ok('R17a', k, 'value sent before the peer commitment arrives hides the share under an exponentiation', share, line=ev[3])
        elif commitments_received(a, a.instate[nid].facts):
            ctx.ok('R17a', k, 'share-exposing value is sent after all commitments were received', share, line=ev[3])
        else:
            ctx.bad('R17a', k, 'a value exposing the secret share is sent before the commitment of the other participant was received', share, line=ev[3])
    # the accepting exits of Share_twoparty have received and checked every other commitment
    fs = a.accept_facts() or set()
    ns += 1
    okc = commitments_received(a, fs)
    (ctx.ok if okc else ctx.bad)('R17a', 'R17a:Share_twoparty:accept', 'accepts only after the commitment of every j != i was received and membership-checked' if okc else
                                 'Share_twoparty can succeed without having received a valid commitment from every other participant', share)
    # Flip_twoparty: openings are sent only after Share_twoparty succeeded
    b = ctx.analysis(flip)
    Tb = b.T
    for nid, ev in b.all_events('snd'):
        ex = exposed(b, ev[2], secret)
        if not ex:
            continue
        ns += 1
        st = b.instate[nid]
        okv = any(Tb.node(fa)[0] == 'truthy' and Tb.node(Tb.node(fa)[1])[0] == 'mc' and Tb.node(Tb.node(fa)[1])[1].endswith('::Share_twoparty')
                  for fa in st.facts)
        k = 'R17a:Flip_twoparty:reveal@%s' % locn(b, ev)
        if okv:
            ctx.ok('R17a', k, 'the share is revealed only after the commitment phase succeeded (every other commitment received)', flip, line=ev[3])
        else:
            ctx.bad('R17a', k, 'the secret share is revealed before the commitment of the other participant has been received', flip, line=ev[3])
    reveals = [ev for nid, ev in b.all_events('snd') if exposed(b, ev[2], secret)]
    if not reveals:
        ctx.bad('R17a', 'R17a:Flip_twoparty:reveal', 'no opening is sent any more (anchor changed)', flip, nec=False)
    ctx.floor('R17a', ns, 4)
    # R17b: result is the running sum of the shares modulo q
    outp = flip['params'][1]
    okr = False
    q = Tb.mk('this', 'q')
    for nid, ev in b.all_events('write'):
        if ev[1] == ('v', outp['id'], outp['n']):
            n_ = Tb.node(ev[2])

            def is_sum(x, d=0):
                # a sum, or the loop-carried accumulator of one (reduced in every round or once at the end)
                xn = Tb.node(x)
                if xn[0] == 'add':
                    return True
                if xn[0] == 'mod' and xn[2] == q:
                    return is_sum(xn[1], d + 1)
                if xn[0] == 'phi' and d < 4:
                    return any(is_sum(y, d + 1) for y in Tb.phi_src.get((xn[1], xn[2]), ()))
                return False
            if n_[0] == 'mod' and n_[2] == q and is_sum(n_[1]):
                okr = True
    # ... over all participants: the accumulated shares a_i[j] are indexed by a counting loop over
    # [0, n), or by the members of the qualified set, which then has to be a per-run set (R17d)
    okrange = False
    qual_based = False
    for nid, ev in b.all_events('write'):
        if ev[1] != ('v', outp['id'], outp['n']):
            continue
        for x in Tb.subterms(ev[2]):
            if Tb.op(x) != 'ix' or 'a_i' not in Tb.show(x, 3):
                continue
            for L in b.ix_loops(x):
                lb = b.loop_bound.get(L)
                if lb and lb[0] == Tb.mk('this', 'n') and lb[1] == '<' and Tb.is_int(lb[2], 0) and lb[3] == 1:
                    okrange = True
                elif lb and 'Qual' in Tb.show(lb[0], 4):
                    qual_based = True
        if Tb.op(ev[2]) in ('add', 'mod') and 'Qual' in Tb.show(ev[2], 6):
            qual_based = True
    if not okrange and not qual_based:
        # an iterator loop over the qualified set shows as an element of that set used as index
        for nid, ev in b.all_events('index'):
            if ev[2] is not None and 'Qual' in Tb.show(ev[2], 4) and 'a_i' in str(ev[1]):
                qual_based = True
    r17d_ok = r17d(ctx)
    if okrange:
        ctx.ok('R17b', 'R17b:Flip_twoparty:range', 'the shares of all participants j in [0, n) are summed', flip)
    elif qual_based and r17d_ok and r17d_fills(ctx, 'Share_twoparty'):
        ctx.ok('R17b', 'R17b:Flip_twoparty:range', 'the shares of the qualified set are summed; the set is rebuilt in every run of the sharing', flip)
    else:
        ctx.bad('R17b', 'R17b:Flip_twoparty:range', 'the result does not sum the shares of exactly the participants of this run (%s)' %
                ('it runs over the qualified set, which the two-party sharing does not rebuild per run' if qual_based else 'no counting loop over [0, n) indexes the shares'), flip)
    r17c(ctx)
    r17e(ctx)
    # the joint sharing underneath the multi-party flip: complaints are counted once per (complainer, accused) -- shared with C15
    from . import c15
    c15.r15f(ctx, files=('JareckiLysyanskayaASTC.cc',), rule='R17f', floor=1)
    (ctx.ok if okr else ctx.bad)('R17b', 'R17b:Flip_twoparty:sum', 'result accumulates the shares modulo q' if okr else 'result is not the sum of the shares modulo q', flip)


C17_CLASSES = ('JareckiLysyanskayaRVSS', 'JareckiLysyanskayaEDCF')


def _set_pushes(ctx):
    """(function, analysis, node, event, cleared?) for every push into a member index set of the
    coin-flip classes outside constructors"""
    prog = ctx.prog
    out = []
    for k, f in sorted(prog.funcs.items(), key=lambda kv: (kv[1]['q'], kv[0])):
        if f.get('cls') not in C17_CLASSES or not f.get('body') or prog.is_helper(f) or f['q'].split('::')[-1] == f.get('cls'):
            continue
        a = ctx.analysis(f)
        evs = list(a.all_events('mcall'))
        for nid, ev in evs:
            ol = ev[6]
            if ev[1].split('::')[-1] in ('push_back', 'emplace_back', 'insert') and ol and ol[0] == 'm':
                doms = set(a.dominators_of(nid, 100000))
                cleared = any(e2[1].split('::')[-1] == 'clear' and e2[6] == ol and n2 in doms and n2 != nid for n2, e2 in evs)
                out.append((f, a, nid, ev, cleared))
    return out


def r17d(ctx):
    """a member set filled during a protocol run (the qualified set) is a per-run result: every push
    into it is dominated by a clear() of the same member in the same function, otherwise a second
    run on the object sees the entries of the first (shares counted twice)"""
    okall = True
    n = 0
    for f, a, nid, ev, cleared in _set_pushes(ctx):
        n += 1
        key = 'R17d:%s:%s' % (f['q'], ev[6][1])
        if cleared:
            ctx.ok('R17d', key, 'the set is cleared before it is filled in this run', f, line=ev[4])
        else:
            okall = False
            ctx.bad('R17d', key, 'entries are appended to the member set %s without clearing it first: a second run on the same object keeps the entries of the first, '
                    'and sums over the set count shares twice' % ev[6][1], f, line=ev[4])
    ctx.floor('R17d', n, 1)
    return okall


def r17d_fills(ctx, fname):
    return any(f['q'].endswith('::' + fname) and cleared for f, a, nid, ev, cleared in _set_pushes(ctx))


def locn(a, ev):
    T = a.T
    return T.show(ev[2], 2)[:40]


def commitments_received(a, facts):
    """all(L, if(j != i, CheckElement(wire))) with L a full loop over the participants"""
    T = a.T
    for tags, fa in facts_plain(T, facts):
        if tags is None:
            continue
        n = T.node(fa)
        if n[0] != 'if':
            continue
        c = T.node(n[1])
        F = T.node(n[2])
        if c[0] == 'rel' and c[1] == '!=' and any(T.op(x) == 'iv' for x in (c[2], c[3])) and F[0] == 'truthy':
            inner = T.node(F[1])
            if inner[0] == 'mc' and inner[1].endswith('::CheckElement') and T.contains(inner[3], lambda nn: nn[0] == 'wire'):
                L = tags[0]
                b = a.loop_bound.get(L)
                if b and b[1] == '<' and T.is_int(b[2], 0) and b[3] == 1 and b[0] == T.mk('this', 'n'):
                    return True
    return False


EXPLANATION = ("Static ordering and guard analysis of the two-party coin flip: the members that hold the secret share are discovered from the "
               "commitment phase (written with a random value that is not hidden under an exponentiation); every send whose value exposes "
               "such a value must have, among the must-facts of its program point, the receipt and membership check of the commitment of "
               "every j != i (a quantified implication established by the loop over all participants) respectively the success of the "
               "commitment phase; the peer's opening enters the result only after its range checks and the commitment equation (frozen "
               "inventory) and the result is the running sum modulo q. The multi-party variant and 'all honest participants output the same "
               "value' are not decided.")
ASSUMPTIONS = ["a value is hidden iff it only occurs in exponent position of a modular exponentiation or inside a hash",
               "stream sends/receives are the only communication of the two-party protocol"]


def r17c(ctx):
    """multi-party variant, index-role agreement: a value received from party j (point-to-point
    Receive or broadcast DeliverFrom) that is stored in a two-dimensional share table is stored
    in row j -- the row every later use (share check, sum, reconstruction) reads for dealer j"""
    prog = ctx.prog
    n = 0
    for q in (RVSS + '::Share', RVSS + '::Reconstruct', EDCF + '::Flip'):
        for f in prog.by_q.get(q, []):
            a = ctx.analysis(f)
            T = a.T

            def peer_of(val):
                """peer index term if val is (derived only by copy from) a value filled by Receive/DeliverFrom"""
                peers = set()
                seen = set()
                st_ = [val]
                while st_:
                    x = st_.pop()
                    if x in seen:
                        continue
                    seen.add(x)
                    vn = T.node(x)
                    if vn[0] == 'out' and vn[1].split('::')[-1] in ('Receive', 'DeliverFrom'):
                        args = vn[3:]
                        if len(args) >= 2:
                            peers.add(a.strip_ix(args[1], a.ix_loops(args[1])))
                    elif vn[0] == 'phi':
                        st_.extend(T.phi_src.get((vn[1], vn[2]), ()))
                    elif vn[0] == 'ix':
                        st_.append(vn[1])
                if len(peers) == 1:
                    return peers.pop()
                return None
            for nid, evs in a.events.items():
                writes = [e for e in evs if e[0] == 'write' and e[1][0] == 'e' and e[1][1][0] == 'e' and e[1][1][1][0] == 'm']
                if not writes:
                    continue
                idx = {}
                for e in evs:
                    if e[0] == 'index' and e[1] is not None and e[1][0] == 'm':
                        idx.setdefault(e[1][1], []).append(e[2])
                for w in writes:
                    member = w[1][1][1][1]
                    peer = peer_of(w[2])
                    if peer is None:
                        continue
                    rows = idx.get(member, [])
                    if not rows:
                        continue
                    n += 1
                    row = a.strip_ix(rows[0], a.ix_loops(rows[0]))
                    peer_s = a.strip_ix(peer, a.ix_loops(peer))
                    key = 'R17c:%s:%s' % (f['q'], member)
                    if row == peer_s:
                        ctx.ok('R17c', key, 'share received from party j is stored in row j of %s' % member, f, line=w[3])
                    else:
                        ctx.bad('R17c', key, 'a share received from party %s is stored in row %s of %s: the row later read for that dealer keeps the old value' % (
                            T.show(peer_s, 2), T.show(row, 2), member), f, line=w[3])
    ctx.floor('R17c', n, 4)


def r17e(ctx):
    """local rules of the multi-party flip (JareckiLysyanskayaEDCF::Flip), the same kind of clauses as for the joint sharings
    of C15: (1) the own opening a_i, hata_i is broadcast only after the joint sharing returned true -- every party's
    commitment is fixed by then; (2) the comparison of g^{a_j} h^{hata_j} with the commitment C_{j0} leads on its unequal
    edge to a complaint against j before the loop goes on; (3) the verdict of the reconstruction of complained-against
    parties is not dropped; (4) the coin is 0 + the sum of the openings over the members of the qualified set of the
    sharing, modulo q."""
    from . import c15
    prog = ctx.prog
    f = prog.fn(EDCF + '::Flip', 0)
    a = ctx.analysis(f)
    T = a.T
    n = 0
    # (1) broadcasts after the sharing
    nb = 0
    okb = True
    for nid, ev in a.all_events('mcall'):
        if not ev[1].endswith('::Broadcast'):
            continue
        nb += 1
        shared = any(T.node(fa)[0] == 'truthy' and T.node(T.node(fa)[1])[0] == 'mc' and T.node(T.node(fa)[1])[1].endswith('RVSS::Share') for fa in a.instate[nid].facts)
        if not shared:
            okb = False
            ctx.bad('R17e', 'R17e:Flip:reveal@%d' % ev[4], 'an opening is broadcast on a path on which the joint sharing (commitment phase) has not succeeded', f, line=ev[4])
    if okb and nb:
        ctx.ok('R17e', 'R17e:Flip:reveal', 'all %d broadcasts of openings happen after the joint sharing returned true' % nb, f)
    n += 1 if nb else 0
    # (2) failed opening check => complaint
    g, h = T.mk('this', 'g'), T.mk('this', 'h')
    sites = 0
    for nd in a.cfg.rpo:
        if nd.kind != 'branch':
            continue
        for i, sx in enumerate(nd.succ):
            for fa in (a.gen.get((nd.id, i)) or ()):
                fn_ = T.node(fa)
                if fn_[0] == 'all':
                    fn_ = T.node(fn_[2])
                if fn_[0] == 'rel' and fn_[1] == '!=' and sum(1 for x in fn_[2:] if c15.commitment(T, x, g, h)) == 1:
                    sites += 1
                    other = [x for x in fn_[2:] if not c15.commitment(T, x, g, h)][0]
                    okc, where = c15.leads_to_complaint(a, nd, i)
                    against_c0 = 'C_ik' in T.show(other, 6)
                    if okc and against_c0:
                        ctx.ok('R17e', 'R17e:Flip:opening#%d' % sites, 'an opening that does not match the committed value C_j0 leads to a complaint', f, line=nd.line)
                    elif not okc:
                        ctx.bad('R17e', 'R17e:Flip:opening#%d' % sites, 'the opening check can fail without a complaint being registered (path reaches line %d first): '
                                'a party can open to a value it did not commit to and bias the coin' % (where.line if where is not None else 0), f, line=nd.line)
                    else:
                        ctx.bad('R17e', 'R17e:Flip:opening#%d' % sites, 'the opening is not compared with the commitment C_j0 of the sharing (%s)' % T.show(other, 4), f, line=nd.line)
    n += sites
    # (3) reconstruction verdict
    rec = [(nid, ev) for nid, ev in a.all_events('mcall') if ev[1].endswith('::Reconstruct')]
    acc = a.accept_exits()
    okr = bool(rec) and bool(acc) and all(any(T.node(fa)[0] == 'truthy' and T.node(T.node(fa)[1])[0] == 'mc' and T.node(T.node(fa)[1])[1].endswith('::Reconstruct') for fa in facts) for nd, facts in acc)
    n += 1
    (ctx.ok if okr else ctx.bad)('R17e', 'R17e:Flip:reconstruct', 'the flip succeeds only when the reconstruction of the complained-against parties succeeded' if okr else
                                 'the flip can succeed although the reconstruction of a complained-against party failed (or is not attempted): its opening is then missing from the sum', f)
    # (4) the coin
    ap = [p for p in f['params'] if p['n'] == 'a']
    okc = False
    seen = 'no accumulation found'
    if ap:
        loc = ('v', ap[0]['id'], 'a')
        q = T.mk('this', 'q')
        for nid, ev in a.all_events('write'):
            if ev[1] != loc:
                continue
            vn = T.node(ev[2])
            if vn[0] == 'mod' and vn[2] == q and T.node(vn[1])[0] == 'add':
                accs = [x for x in T.node(vn[1])[1:] if T.op(x) == 'phi' and T.node(x)[2] == loc]
                if len(accs) == 1:
                    lb = a.loop_bound.get(T.node(accs[0])[1])
                    seen = T.show(lb[0], 4) if lb else 'no counting loop'
                    zero = any(T.is_int(x, 0) for x in T.phi_src.get((T.node(accs[0])[1], T.node(accs[0])[2]), ()))
                    body = a.loop_nodes.get(T.node(accs[0])[1], set())
                    uncond = not any(x.kind == 'branch' and x.id in body and all(y.id in body for y in x.succ) for x in a.cfg.rpo)
                    if not uncond:
                        seen = seen + '; members are skipped under a condition'
                    if lb and zero and uncond and T.contains(lb[0], lambda z: z[0] in ('this', 'fld', 'mem', 'f') and 'QUAL' in str(z).upper()) and 'rvss' in T.show(lb[0], 5):
                        okc = True
    n += 1
    (ctx.ok if okc else ctx.bad)('R17e', 'R17e:Flip:coin', 'the coin is the sum modulo q of the openings over the qualified set of the sharing' if okc else
                                 'the coin is not accumulated as 0 + sum of the openings over the qualified set of the joint sharing modulo q (loop range: %s)' % seen, f)
    ctx.floor('R17e', n, 4)
