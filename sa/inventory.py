"""Check inventory of a bool function: the semantic fingerprints of everything its accepting
exits are guarded by (must facts), per loop the facts every iteration establishes, under each
assumption variant of its bool parameters.  Fingerprints name wire reads by ordinal, parameters
by position and members by name, and abstract equations to the set of inputs they relate, so
that a behaviour-preserving rewrite of a check keeps its fingerprint."""
from . import sym

VERDICT_PREFIXES = ('Verify', 'Check', 'TestMembership', 'verify', 'check', 'import', 'CP_Verify', 'OR_Verify',
                    'KeyGenerationProtocol_Verify', 'Flip', 'Share', 'Good', 'Deliver')


def pathname(a, t, pidx):
    """name of an access path rooted at a member, parameter or wire read, else None"""
    T = a.T
    n = T.node(t)
    o = n[0]
    if o == 'wire':
        return 'W%d' % n[1]
    if o == 'param':
        return 'P%d' % pidx[n[1]] if n[1] in pidx else 'P:' + n[1]
    if o == 'this':
        return 'this.' + n[1]
    if o == 'thisobj':
        return 'this'
    if o == 'glob':
        return 'G:' + str(n[1])
    if o == 'fld':
        b = pathname(a, n[1], pidx)
        return b + '.' + n[2] if b else None
    if o == 'elem':
        b = pathname(a, n[1], pidx)
        if not b:
            return None
        k = n[2]
        if isinstance(k, int) and not isinstance(k, bool) and T.is_int(k):
            return '%s[%d]' % (b, T.node(k)[1])
        return b + '[]'
    if o == 'ix':
        return pathname(a, n[1], pidx)
    if o == 'rand':
        return 'R'
    return None


def leafnames(a, t, func):
    """stable names of the inputs a term depends on (access paths; phi sources are followed)"""
    T = a.T
    pidx = {p['n']: i for i, p in enumerate(func.get('params', []))}
    out = set()
    seen = set()
    st = [t]
    while st:
        x = st.pop()
        if x in seen:
            continue
        seen.add(x)
        pn = pathname(a, x, pidx)
        if pn is not None:
            out.add(pn)
            continue
        n = T.node(x)
        if n[0] == 'phi':
            st.extend(T.phi_src.get((n[1], n[2]), ()))
        elif n[0] not in sym.LEAF:
            raw = sym.RAWARGS.get(n[0], ())
            st.extend(y for i, y in enumerate(n[1:]) if isinstance(y, int) and not isinstance(y, bool) and i not in raw)
    return out


def is_verdict_call(n):
    if n[0] not in ('mc', 'callr'):
        return False
    short = n[1].split('::')[-1]
    return any(short.startswith(p) or p in short for p in VERDICT_PREFIXES)


def local_ordinals(func):
    """declaration id -> ordinal among the local variables of the function (stable under renaming)"""
    if '_lord' not in func:
        from .facts import walk
        ids = []
        for e in walk(func.get('body')):
            if e.get('k') == 'decl':
                for v in e['v']:
                    if v['id'] not in ids:
                        ids.append(v['id'])
        func['_lord'] = {vid: i for i, vid in enumerate(ids)}
        func['_lname'] = {}
        for e in walk(func.get('body')):
            if e.get('k') == 'decl':
                for v in e['v']:
                    func['_lname'].setdefault(v['n'], v['id'])
    return func['_lord'], func['_lname']


class _ContentNames:
    def __init__(self, a, func):
        self.a, self.func = a, func

    def get(self, vid, default=None):
        if vid is None or vid == -1:
            return 'L?'
        return local_container_name(self.a, vid, self.func)


def local_container_name(a, vid, func):
    """a local container is named by what its cells hold (inputs of the values written into them),
    not by its name or declaration position: L{W2} is 'the local vector the third wire value is read
    into'.  Stable under renaming, reordering of declarations and added locals."""
    cache = a.__dict__.setdefault('_lcn', {})
    if vid in cache:
        return cache[vid]
    leaves = set()
    for nid, ev in a.all_events('write'):
        loc = ev[1]
        base = loc
        depth = 0
        while isinstance(base, tuple) and base[0] in ('e', 'f'):
            base = base[1]
            depth += 1
        if depth and isinstance(base, tuple) and base[0] == 'v' and base[1] == vid:
            leaves |= leafnames(a, ev[2], func)
    for nid, ev in a.all_events('rcv'):
        loc = ev[1]
        base = loc
        depth = 0
        while isinstance(base, tuple) and base[0] in ('e', 'f'):
            base = base[1]
            depth += 1
        if depth and isinstance(base, tuple) and base[0] == 'v' and base[1] == vid:
            leaves |= leafnames(a, ev[2], func)
    name = 'L{%s}' % ','.join(sorted(leaves))
    cache[vid] = name
    return name


def container_name(a, t, func):
    """stable name of the container a size() term speaks about"""
    T = a.T
    pidx = {p['n']: i for i, p in enumerate(func.get('params', []))}
    lord, lname = local_ordinals(func)
    lord = _ContentNames(a, func)
    for _ in range(20):
        pn = pathname(a, t, pidx)
        if pn is not None:
            return pn
        n = T.node(t)
        if n[0] in ('ix', 'upd', 'agg', 'cat'):
            t = n[1]
            continue
        if n[0] == 'phi':
            loc = n[2]
            while isinstance(loc, tuple) and loc[0] in ('e', 'f'):
                loc = loc[1]
            if isinstance(loc, tuple) and loc[0] == 'v':
                return lord.get(loc[1], -1)
            if isinstance(loc, tuple) and loc[0] == 'm':
                return 'this.' + loc[1]
            return 'L?'
        if n[0] == 'fresh':
            s = T.node(n[1])
            if s[0] == 'sym' and s[1] in lname:
                return lord.get(lname[s[1]], -1)
            return 'L?'
        if n[0] == 'local':
            return lord.get(n[2], -1)
        return 'X'
    return 'X'


def built_size(a, cterm, func):
    """number of elements of a *local* container as a term, when it is only ever grown by exactly one
    unconditional push_back per iteration of canonical loops over [0, B) with one and the same B"""
    T = a.T
    n = T.node(cterm)
    for _ in range(20):
        if n[0] in ('ix', 'upd', 'agg', 'cat'):
            cterm = n[1]
            n = T.node(cterm)
        else:
            break
    vid = None
    if n[0] == 'phi' and isinstance(n[2], tuple) and n[2][0] == 'v':
        vid = n[2][1]
    elif n[0] == 'local':
        vid = n[2]
    elif n[0] == 'fresh':
        sn = T.node(n[1])
        lord, lname = local_ordinals(func)
        if sn[0] == 'sym' and sn[1] in lname:
            vid = lname[sn[1]]
    if vid is None:
        return None
    cache = a.__dict__.setdefault('_built_size', {})
    if vid in cache:
        return cache[vid]
    cache[vid] = None
    bounds = set()
    for nid, ev in a.all_events('mcall'):
        short = ev[1].split('::')[-1]
        loc = ev[6] if len(ev) > 6 else None
        if not (isinstance(loc, tuple) and loc[0] == 'v' and loc[1] == vid):
            continue
        if short in ('size', 'length', 'empty', 'begin', 'end', 'clear', 'operator[]', 'at', 'front', 'back', 'data', 'reserve', 'cbegin', 'cend'):
            continue
        if short != 'push_back':
            return None          # resized / erased / inserted elsewhere: size not derived
        loops = [h for h, b in a.loop_nodes.items() if nid in b]
        if len(loops) != 1:
            return None
        lb = a.loop_bound.get(loops[0])
        if not lb or lb[1] != '<' or lb[3] != 1 or not T.is_int(lb[2], 0):
            return None
        # unconditional within the iteration: nothing but the loop condition guards it
        st = a.instate[nid]
        hd = [x for x in a.cfg.rpo if x.id == loops[0]][0]
        base = a.instate[hd.id].facts if hd.id in a.instate else frozenset()
        extra = [f for f in st.facts if f not in base and T.op(f) != 'all']
        if len(extra) > 1:
            return None
        bounds.add(lb[0])
    if len(bounds) == 1:
        b = bounds.pop()
        if not a.ix_loops(b):
            cache[vid] = b
    return cache[vid]


def coverage(a, tags, func):
    """which index range the quantified fact was established for: per loop (op, init, bound)"""
    T = a.T
    out = []
    for L in tags:
        b = a.loop_bound.get(L)
        if not b:
            out.append(('?',))
            continue
        bound, op, init, step = b
        bn = T.node(bound)
        if bn[0] == 'mc' and bn[1].split('::')[-1] in ('size', 'length'):
            built = built_size(a, bn[2], func)
            if built is not None:
                # a local vector filled by one push_back per iteration of a loop over [0, B) has B
                # elements: iterating over it is iterating over [0, B)
                bound = built
                bn = T.node(bound)
        if bn[0] == 'mc' and bn[1].split('::')[-1] in ('size', 'length'):
            bd = 'size(%s)' % container_name(a, bn[2], func)
        elif bn[0] == 'int':
            bd = 'int:%d' % bn[1]
        elif bn[0] == 'iv':
            bd = 'iv'
        else:
            # size(X) - c and the like: name the containers mentioned and keep the shape
            names = sorted(set(container_name(a, T.node(x)[2], func) for x in T.subterms(bound)
                               if T.node(x)[0] == 'mc' and T.node(x)[1].split('::')[-1] in ('size', 'length')))
            consts = sorted(set(T.node(x)[1] for x in T.subterms(bound) if T.node(x)[0] == 'int'))
            bd = 'expr(%s;%s;%s)' % (','.join(names), ','.join(sorted(leafnames(a, bound, func))), ','.join(str(c) for c in consts))
        ini = None
        if init is not None:
            inn = T.node(init)
            ini = 'int:%d' % inn[1] if inn[0] == 'int' else ('iv+1' if inn[0] == 'op' and inn[1] == '+' else 'expr')
        out.append((op, ini, bd, step))
    # triangular pair enumeration: with the inner loop running j in [0, i) the outer loop may start at
    # 0 or at 1 (index 0 has no partner below it) -- the same set of unordered pairs
    if any(len(x) == 4 and x[2] == 'iv' and x[1] == 'int:0' and x[0] == '<' for x in out):
        out = [(x[0], 'int:0', x[2], x[3]) if len(x) == 4 and x[1] == 'int:1' and x[2] != 'iv' and x[0] == '<' else x for x in out]
    return tuple(out)


def fingerprint(a, f, func, cond=False):
    """(kind, detail...) or None for facts that carry no check (stream state, loop counters)"""
    T = a.T
    n = T.node(f)
    if n[0] == 'all':
        inner = fingerprint(a, n[2], func, cond)
        if inner is None:
            return None
        return ('all:' + inner[0],) + tuple(inner[1:]) + (('cov', coverage(a, n[1], func)),)
    tags = None
    pre = ''
    if n[0] == 'if':
        c = fingerprint(a, n[1], func, cond=True)
        F = fingerprint(a, n[2], func)
        if c is None or F is None:
            return None
        return (pre + 'if', c, F)
    if n[0] in ('truthy', 'falsy'):
        inner = T.node(n[1])
        if inner[0] in ('mc', 'callr'):
            short = inner[1].split('::')[-1]
            if short in ('good', 'fail', 'eof', 'bad'):
                return None
            args = inner[2:] if inner[0] == 'callr' else inner[3:]
            ls = set()
            for x in args:
                if isinstance(x, int) and not isinstance(x, bool):
                    ls |= leafnames(a, x, func)
            return (pre + ('call' if n[0] == 'truthy' else 'notcall'), inner[1], tuple(sorted(ls)))
        if inner[0] == 'isprime':
            return (pre + 'isprime', tuple(sorted(leafnames(a, inner[1], func))))
        if inner[0] == 'invertible':
            return (pre + 'invertible', tuple(sorted(leafnames(a, inner[1], func))), tuple(sorted(leafnames(a, inner[2], func))))
        return (pre + n[0], inner[0], tuple(sorted(leafnames(a, n[1], func))))
    if n[0] == 'rel':
        op, x, y = n[1], n[2], n[3]
        # iterator loops of clean-up code carry no check
        if T.contains(f, lambda nn: nn[0] == 'mc' and nn[1].split('::')[-1] in ('begin', 'end', 'rbegin', 'rend')):
            return None
        lx, ly = leafnames(a, x, func), leafnames(a, y, func)
        # loop-counter relations carry no check
        if T.op(x) == 'iv' or T.op(y) == 'iv':
            if cond:
                other = y if T.op(x) == 'iv' else x
                return ('ivrel', op if T.op(x) == 'iv' else {'<': '>', '<=': '>=', '==': '==', '!=': '!='}.get(op, op),
                        tuple(sorted(leafnames(a, other, func))))
            return None
        if op in ('==', '!='):
            kx, ky = shape(a, x), shape(a, y)
            sides = tuple(sorted([(kx, tuple(sorted(lx))), (ky, tuple(sorted(ly)))]))
            return (pre + ('eq' if op == '==' else 'ne'), sides)
        return (pre + 'range', op, shape(a, x), tuple(sorted(lx)), shape(a, y), tuple(sorted(ly)))
    if n[0] == 'bool':
        return None
    return (pre + 'other', n[0], tuple(sorted(leafnames(a, f, func))))


def shape(a, t):
    """coarse shape of one side of a relation: constants keep their value, the group order /
    modulus members are named, sizes and bit lengths are marked, everything else is 'expr'"""
    T = a.T
    n = T.node(t)
    while n[0] == 'ix':          # "the element of the current iteration": same shape as the element
        t = n[1]
        n = T.node(t)
    o = n[0]
    if o == 'int':
        return 'int:%d' % n[1]
    if o == 'bits':
        return 'bits'
    if o == 'abs':
        return 'abs(' + shape(a, n[1]) + ')'
    if o in ('this', 'wire', 'param'):
        return 'leaf'
    if o == 'fld':
        return 'leaf'
    if o == 'elem':
        return 'leaf'
    if o == 'mc' and n[1].split('::')[-1] in ('size', 'length'):
        return 'size'
    if o == 'hash':
        return 'hash'
    if o == 'powm':
        return 'powm'
    if o == 'sub' and T.is_int(n[2]):
        return 'leaf-%d' % T.node(n[2])[1]
    return 'expr'


def bool_variants(func):
    out = [({}, '')]
    for p in func.get('params', []):
        if p['t'] in ('bool', 'const bool'):
            for v in (True, False):
                out.append(({('v', p['id'], p['n']): v}, 'b%d=%s' % (func['params'].index(p), 'T' if v else 'F')))
    return out


def inventory(ctx, func):
    """dict: fingerprint -> list of variant labels under which it guards acceptance; plus
    '@loop' entries for per-iteration facts of loops on the accept path"""
    inv = {}
    hashes = {}
    for assume, label in bool_variants(func):
        a = ctx.analysis(func, assume or None)
        fs = a.accept_facts()
        if fs is None:
            inv.setdefault(('noaccept',), []).append(label)
            continue
        for f in fs:
            fp = fingerprint(a, f, func)
            if fp is not None:
                inv.setdefault(fp, []).append(label)
        for h in a.loops_on_accept_path():
            for f in a.iteration_facts(h):
                fp = fingerprint(a, f, func)
                if fp is not None and not fp[0].startswith('all:'):
                    inv.setdefault(('@loop',) + fp, []).append(label)
        if not assume:
            for nid, ev in a.all_events('hash'):
                args = ev[2]
                fp = (ev[1], tuple(tuple(sorted(leafnames(a, x, func))) for x in args[1:]))
                hashes.setdefault(fp, 0)
                hashes[fp] += 1
    return inv, hashes


def fp_str(fp):
    return repr(fp)


def strip_abs(sh):
    while isinstance(sh, str) and sh.startswith('abs(') and sh.endswith(')'):
        sh = sh[4:-1]
    return sh


def covers(cur, ref):
    """does the current fingerprint cur establish at least what the reference fingerprint ref did?"""
    if cur == ref:
        return True
    if len(cur) < 1 or len(ref) < 1:
        return False
    if cur[0] == '@loop' or ref[0] == '@loop':
        if cur[0] != ref[0]:
            return False
        return covers(cur[1:], ref[1:])
    # quantified facts: the index range the loop covers must be the recorded one
    ccov = [x for x in cur if isinstance(x, tuple) and len(x) == 2 and x[0] == 'cov']
    rcov = [x for x in ref if isinstance(x, tuple) and len(x) == 2 and x[0] == 'cov']
    if ccov != rcov:
        return False
    if rcov:
        cur = tuple(x for x in cur if x not in ccov)
        ref = tuple(x for x in ref if x not in rcov)
    k = ref[0].split(':')[-1]
    if k == 'if' and cur[0].split(':')[-1] != 'if' and cur[0].startswith('all:') == ref[0].startswith('all:'):
        # an unconditional check covers the same check under a condition
        inner = (cur[0].split(':')[-1],) + tuple(cur[1:])
        return covers(inner, ref[2])
    if cur[0] != ref[0]:
        return False
    if k == 'if':
        return cur[1] == ref[1] and covers(cur[2], ref[2])
    if k in ('eq', 'ne'):
        cl = set()
        for sh, ls in cur[1]:
            cl |= set(ls)
        rl = set()
        for sh, ls in ref[1]:
            rl |= set(ls)
        # constants on one side must be preserved (x == 1 is not x == 0)
        cc = sorted(sh for sh, ls in cur[1] if sh.startswith('int:'))
        rc = sorted(sh for sh, ls in ref[1] if sh.startswith('int:'))
        return rl <= cl and cc == rc
    if k == 'range':
        # |x| < |q| is stronger than x < q, never the other way round
        def side_ok(c, r):
            return c == r or strip_abs(c) == r
        return (cur[1] == ref[1] and side_ok(cur[2], ref[2]) and cur[3] == ref[3] and
                side_ok(cur[4], ref[4]) and cur[5] == ref[5])
    if k in ('call', 'notcall'):
        return cur[1] == ref[1] and set(ref[2]) <= set(cur[2])
    if k == 'invertible':
        return set(ref[1]) <= set(cur[1]) and set(ref[2]) <= set(cur[2])
    return False
