"""I/O shapes (A5): a regular expression of stream events per function, taken from the structured
statement tree: S (one value written to the peer), R (one value read from the peer), loops,
alternatives, calls of sub-protocols that are handed the same streams.  Used for prover/verifier
duality, exporter/importer agreement and hash-argument agreement."""
import re
from .facts import walk


def is_ostream(t):
    return t and 'ostream' in t


def is_istream(t):
    return t and 'istream' in t


def comm_streams(f):
    ins, outs = set(), set()
    for p in f.get('params', []):
        if is_istream(p['t']):
            ins.add(p['id'])
        elif is_ostream(p['t']) and p['n'] not in ('err', 'error', 'log'):
            outs.add(p['id'])
    return ins, outs


def root_var(e):
    while isinstance(e, dict) and e.get('k') == 'opcall' and e.get('op') in ('<<', '>>'):
        e = e['a'][0]
    if isinstance(e, dict) and e.get('k') == 'var':
        return e['id']
    return None


def norm_name(q):
    s = q.split('::')[-1]
    s = s.replace('ProveFirst', '#').replace('ProveSecond', '#').replace('Prove', '#').replace('Verify', '#')
    s = s.replace('Send_', '@').replace('Choose_', '@')
    s = s.replace('_Update', '')
    return s


class Shaper:
    def __init__(self, prog, f, swap=False):
        self.prog = prog
        self.f = f
        self.ins, self.outs = comm_streams(f)
        self.swap = swap

    def tok(self, t):
        if self.swap:
            return {'S': 'R', 'R': 'S'}.get(t, t)
        return t

    def expr(self, e, out):
        """events of one expression, in evaluation order"""
        if not isinstance(e, dict):
            return
        k = e.get('k')
        if k == 'opcall' and e.get('op') in ('<<', '>>') and len(e['a']) == 2:
            rv = root_var(e)
            if (e['op'] == '<<' and rv in self.outs) or (e['op'] == '>>' and rv in self.ins):
                self.expr(e['a'][0], out)
                arg = e['a'][1]
                if isinstance(arg, dict) and arg.get('k') in ('fn',):
                    return
                if isinstance(arg, dict) and arg.get('k') == 'str':
                    # a numeric literal is a value the peer parses; anything else is framing
                    if arg.get('v', '').strip().isdigit():
                        out.append(self.tok('S'))
                    return
                if isinstance(arg, dict) and arg.get('k') == 'int' and arg.get('ch'):
                    return
                self.expr(arg, out)
                out.append(self.tok('S' if e['op'] == '<<' else 'R'))
                return
        if k == 'mcall' and isinstance(e.get('o'), dict) and e['o'].get('k') == 'var' and e['o']['id'] in self.ins and \
                e['f'].split('::')[-1] in ('getline', 'get', 'read'):
            out.append(self.tok('R'))
            return
        if k in ('call', 'mcall', 'ctor'):
            for a in e.get('a', []):
                self.expr(a, out)
            if k == 'mcall':
                self.expr(e.get('o'), out)
            # a unit-private helper (static function) that is handed the streams: its traffic is
            # part of this function's shape, exactly as if its body stood here
            g = self.prog.funcs.get(e.get('fid')) if e.get('fid') else None
            if g is not None and self.prog.is_helper(g) and getattr(self, 'depth', 0) < 3:
                sub = Shaper(self.prog, g, self.swap)
                sub.depth = getattr(self, 'depth', 0) + 1
                out.extend(x for x in sub.stmt(g['body']) if x != '!')
                return
            # sub-protocol: a library function that is handed one of the peer streams
            passes = any(isinstance(a, dict) and a.get('k') == 'var' and (a['id'] in self.ins or a['id'] in self.outs) for a in e.get('a', []))
            if passes and e.get('fid') and (e['fid'] in self.prog.funcs or e['fid'] in self.prog.decls):
                out.append('C:' + norm_name(e['f']))
            return
        if k == 'cond' and len(e.get('a', [])) == 3:
            # c ? x : y -- only one of the two is evaluated
            self.expr(e['a'][0], out)
            tx, ty = [], []
            self.expr(e['a'][1], tx)
            self.expr(e['a'][2], ty)
            if tx == ty:
                out.extend(tx)
            elif tx or ty:
                out.append(('alt', tuple(tx), tuple(ty)))
            return
        for key in ('a',):
            for a in e.get(key, []) if isinstance(e.get(key), list) else []:
                self.expr(a, out)
        for key in ('e', 'o', 'c'):
            if isinstance(e.get(key), dict):
                self.expr(e[key], out)

    def stmt(self, s):
        """shape of a statement: list of tokens / nested tuples"""
        if s is None:
            return []
        k = s.get('k')
        if k == 'block':
            out = []
            for x in s['s']:
                r = self.stmt(x)
                out.extend(r)
                if r and r[-1] == '!':
                    break
            return out
        if k == 'if':
            c = s['c']
            pre = []
            self.expr(c, pre)
            if isinstance(c, dict) and c.get('k') in ('int', 'bool'):
                v = c['v']
                return pre + (self.stmt(s['t']) if v else self.stmt(s.get('e')))
            t = self.stmt(s['t'])
            e = self.stmt(s.get('e'))
            # `if (ok) ok = next_step(...)`: a verdict flag gates the rest of the protocol; the
            # branch not taken is the error continuation and carries no traffic
            cc = c
            neg = False
            while isinstance(cc, dict) and (cc.get('k') == 'cast' or (cc.get('k') == 'un' and cc.get('op') == '!')):
                if cc.get('k') == 'un':
                    neg = not neg
                    cc = cc['a'][0]
                else:
                    cc = cc.get('e')
            if isinstance(cc, dict) and cc.get('k') == 'var' and cc.get('t') in ('bool', 'const bool') and not cc.get('p'):
                live, dead = (e, t) if neg else (t, e)
                if not [x for x in dead if x != '!']:
                    return pre + [x for x in live if x != '!'] + (['!'] if live and live[-1] == '!' else [])
            t_end = bool(t) and t[-1] == '!'
            e_end = bool(e) and e[-1] == '!'
            tt = [x for x in t if x != '!']
            ee = [x for x in e if x != '!']
            if t_end and not tt:
                return pre + ee          # error exit without traffic
            if e_end and not ee:
                return pre + tt
            if tt == ee:
                return pre + tt
            if not tt and not ee:
                return pre
            return pre + [('alt', tuple(tt), tuple(ee))]
        if k in ('for', 'while', 'do', 'forrange'):
            pre = []
            if k == 'for' and s.get('i'):
                pre = self.stmt(s['i'])
            body = [x for x in self.stmt(s['b']) if x != '!']
            cnd = []
            if s.get('c'):
                self.expr(s['c'], cnd)
            if not body and not cnd:
                return pre
            return pre + [('loop', 'n', tuple(cnd + body))]
        if k == 'switch':
            return self.stmt(s['b'])
        if k in ('case', 'default', 'label'):
            return self.stmt(s['s'])
        if k == 'try':
            out = self.stmt(s['b'])
            return [x for x in out if x != '!']
        if k in ('return',):
            out = []
            if s.get('e'):
                self.expr(s['e'], out)
            return out + ['!']
        if k == 'throw':
            # `throw sub_protocol(...)` inside the verdict-carrying try block: the call still happens before the exit
            out = []
            if s.get('e'):
                self.expr(s['e'], out)
            return out + ['!']
        if k == 'decl':
            out = []
            for v in s['v']:
                if v.get('init'):
                    self.expr(v['init'], out)
            return out
        if k in ('break', 'continue'):
            return []
        out = []
        if k == 'bin' and s.get('op') == ',':
            return self.stmt(s['a'][0]) + self.stmt(s['a'][1])
        self.expr(s, out)
        return out

    def bound_class(self, s):
        txt = []
        for e in walk(s.get('c')):
            if e.get('k') == 'mem':
                txt.append(e['n'])
        for m in txt:
            if 'SecurityLevel' in m:
                return 'rounds'
        return 'n'

    def shape(self):
        r = self.stmt(self.f.get('body'))
        return simplify([x for x in r if x != '!'])


def simplify(seq):
    out = []
    for x in seq:
        if isinstance(x, tuple):
            if x[0] == 'loop':
                body = simplify(list(x[2]))
                if not body:
                    continue
                x = ('loop', x[1], tuple(body))
            elif x[0] == 'alt':
                a, b = simplify(list(x[1])), simplify(list(x[2]))
                if a == b:
                    out.extend(a)
                    continue
                # factor a common prefix / suffix out of the alternatives
                pre = []
                while a and b and a[0] == b[0]:
                    pre.append(a[0]); a = a[1:]; b = b[1:]
                suf = []
                while a and b and a[-1] == b[-1]:
                    suf.insert(0, a[-1]); a = a[:-1]; b = b[:-1]
                out.extend(pre)
                if a or b:
                    a, b = sorted((tuple(a), tuple(b)), key=repr)
                    out.append(('alt', a, b))
                out.extend(suf)
                continue
        out.append(x)
    return out


def show(seq):
    parts = []
    for x in seq:
        if isinstance(x, tuple):
            if x[0] == 'loop':
                parts.append('(%s)*%s' % (show(x[2]), x[1]))
            else:
                parts.append('{%s|%s}' % (show(x[1]), show(x[2])))
        else:
            parts.append(x)
    return ' '.join(parts)


def flat_counts(seq):
    """number of S/R outside loops, and set of loop bodies (for a tolerant comparison)"""
    return show(seq)


def hash_calls(prog, f, depth=0):
    """[(callee, count literal, [role token per variadic/explicit argument])] in source order; the
    hash calls of a helper that is expanded into f count as f's own, with the helper's parameters
    replaced by the roles of the arguments it was called with"""
    pnames = set(p['n'] for p in f.get('params', []))
    out = []
    for e in walk(f.get('body')):
        if e.get('k') == 'call' and e.get('f', '').startswith('tmcg_mpz_shash') and e.get('f') != 'tmcg_mpz_shash_len':
            roles = []
            for a in e['a'][1:]:
                roles.append(role(a, pnames))
            out.append((e['f'], roles, e.get('l', 0)))
        elif e.get('k') in ('call', 'mcall') and e.get('fid') and depth < 3:
            g = prog.funcs.get(e['fid'])
            if g is not None and prog.is_helper(g):
                amap = {}
                for p, a in zip(g.get('params', []), e.get('a', [])):
                    amap['param:' + p['n']] = role(a, pnames)
                for (hf, roles, ln) in hash_calls(prog, g, depth + 1):
                    tr = []
                    for r in roles:
                        hit = [k for k in amap if r == k or r.startswith(k + '[') or r.startswith(k + '.')]
                        if hit:
                            k = max(hit, key=len)
                            base = amap[k]
                            tr.append('L' if base == 'L' else base + r[len(k):])
                        else:
                            tr.append(r)
                    out.append((hf, tr, ln))
    return out


def role(a, pnames):
    if not isinstance(a, dict):
        return 'L'
    k = a.get('k')
    if k == 'int':
        return '#%d' % a['v']
    if k == 'mem':
        o = a.get('o')
        if isinstance(o, dict) and o.get('k') == 'this':
            return 'this.' + a['n']
        inner = role(o, pnames)
        if inner.startswith('this.') or inner.startswith('param:'):
            return inner + '.' + a['n']
        return 'L'
    if k == 'var':
        if a.get('p'):
            return 'param:' + a['n']
        return 'L'
    if k in ('idx',) or (k == 'opcall' and a.get('op') == '[]'):
        b = role(a['a'][0], pnames)
        if b != 'L':
            return b + '[]'
        return 'L'
    if k == 'mcall':
        return 'L'
    if k == 'cast':
        return role(a.get('e'), pnames)
    if k == 'un':
        return role(a['a'][0], pnames)
    return 'L'
