"""Fact extraction driver and loader: runs tmcgfacts over every unit of libTMCG.la
(sources parsed from src/Makefile.am) using /repo's *current* tree, caches by content
hash, and offers the merged program (functions, classes, enums, globals, call graph)."""
import hashlib, json, os, re, subprocess, sys, time, glob
from concurrent.futures import ThreadPoolExecutor

VERIF = os.path.dirname(os.path.dirname(os.path.abspath(__file__)))
REPO = os.environ.get('VERIF_REPO', '/repo')
TOOL = os.path.join(VERIF, 'build', 'tmcgfacts')
CACHE = os.path.join(VERIF, 'build', 'facts')
ROOT_MARK = '@TMCG-ROOT@'


class AnalysisBroken(Exception):
    pass


def lib_units(repo=REPO):
    mk = open(os.path.join(repo, 'src', 'Makefile.am')).read()
    m = re.search(r'libTMCG_la_SOURCES\s*=((?:.*\\\n)*.*\n)', mk)
    if not m:
        raise AnalysisBroken('libTMCG_la_SOURCES not found in src/Makefile.am')
    names = re.findall(r'([\w.+-]+\.cc)', m.group(1))
    if len(names) < 25:
        raise AnalysisBroken('only %d library units listed' % len(names))
    return [os.path.join(repo, 'src', n) for n in names]


def installed_headers(repo=REPO):
    mk = open(os.path.join(repo, 'src', 'Makefile.am')).read()
    m = re.search(r'include_HEADERS\s*=((?:.*\\\n)*.*\n)', mk)
    return set(os.path.join(repo, 'src', n) for n in re.findall(r'([\w.+-]+\.hh)', m.group(1)))


def tree_hash(repo=REPO, extra=()):
    h = hashlib.sha256()
    files = sorted(glob.glob(os.path.join(repo, 'src', '*.cc')) + glob.glob(os.path.join(repo, 'src', '*.hh')) +
                   glob.glob(os.path.join(repo, 'src', '*.h')) + [os.path.join(repo, 'libTMCG_config.h')] + list(extra))
    for f in files:
        if os.path.exists(f):
            h.update(f.encode())
            h.update(open(f, 'rb').read())
    h.update(open(TOOL, 'rb').read() if os.path.exists(TOOL) else b'')
    return h.hexdigest()[:20]


def flags(repo=REPO, ndebug=False):
    return ['-std=gnu++17', '-DHAVE_CONFIG_H', '-I' + os.path.join(repo, 'src'), '-I' + repo,
            '-DNDEBUG' if ndebug else '-UNDEBUG', '-DLIBTMCG_VERIF', '-w']


def ensure_config(repo=REPO):
    cfgh = os.path.join(repo, 'libTMCG_config.h')
    if not os.path.exists(cfgh):
        raise AnalysisBroken('libTMCG_config.h missing: /repo is not configured (run ./configure in a scratch copy)')


def headers_hash(repo):
    h = hashlib.sha256()
    for f in sorted(glob.glob(os.path.join(repo, 'src', '*.hh')) + glob.glob(os.path.join(repo, 'src', '*.h')) +
                    [os.path.join(repo, 'libTMCG_config.h')]):
        if os.path.exists(f):
            h.update(os.path.basename(f).encode())
            h.update(open(f, 'rb').read())
    h.update(open(TOOL, 'rb').read())
    return h.hexdigest()


def run_unit(unit, repo, ndebug, root, hh):
    """per-unit cache keyed by the content of the unit, of every header and of the extractor; the
    facts are re-based textually when the same content is parsed under another root"""
    h = hashlib.sha256()
    h.update(hh.encode())
    h.update(os.path.basename(unit).encode())
    h.update(open(unit, 'rb').read())
    h.update(b'nd' if ndebug else b'd')
    h.update(b'cache-format-2')
    os.makedirs(os.path.join(CACHE, 'units'), exist_ok=True)
    out = os.path.join(CACHE, 'units', h.hexdigest()[:24] + '.json')
    if os.path.exists(out):
        try:
            os.utime(out)
        except OSError:
            pass
        return out, ''
    tmp = out + '.tmp%d.%d' % (os.getpid(), hash(unit) & 0xffff)
    p = subprocess.run([TOOL, '--root=' + root, unit, '--'] + flags(repo, ndebug), stdout=subprocess.PIPE, stderr=subprocess.PIPE)
    if p.returncode != 0:
        return None, p.stderr.decode(errors='replace')[-2000:]
    # stored root-independently (the same content parsed under another root is the same entry);
    # written to a private temporary and renamed, so concurrent checks never see a partial file
    txt = p.stdout.decode(errors='replace').replace('"' + repo + '/', '"' + ROOT_MARK + '/')
    with open(tmp, 'w') as fo:
        fo.write(txt)
    os.replace(tmp, out)
    return out, ''


def extract(repo=REPO, ndebug=False, units=None, root=None, tag='lib'):
    if not os.path.exists(TOOL):
        raise AnalysisBroken('extractor not built: run setup (./setup.sh)')
    ensure_config(repo)
    if units is None:
        units = lib_units(repo)
    root = root or os.path.join(repo, 'src')
    hh = headers_hash(repo)
    with ThreadPoolExecutor(max_workers=16) as ex:
        res = list(ex.map(lambda u: run_unit(u, repo, ndebug, root, hh), units))
    bad = [(u, e) for u, (o, e) in zip(units, res) if o is None]
    if bad:
        raise AnalysisBroken('units failed to parse: ' + '; '.join('%s: %s' % (u, e.strip().splitlines()[-1] if e.strip() else '?') for u, e in bad))
    # prune: keep the 1500 most recently used unit files, and never remove one used in the last two
    # hours (other checks may be running on other trees at the same time)
    try:
        fs = sorted(glob.glob(os.path.join(CACHE, 'units', '*.json')), key=os.path.getmtime)
        now = time.time()
        for f in fs[:-1500]:
            if now - os.path.getmtime(f) < 7200:
                continue
            try:
                os.unlink(f)
            except OSError:
                pass
    except OSError:
        pass
    return [o for o, _ in res]


class Program:
    def __init__(self, files, repo=REPO):
        self.repo = repo
        self._known_private = None
        self.funcs = {}      # key -> function record (definition)
        self.by_q = {}       # qualified name -> [records]
        self.decls = {}      # key -> declaration record
        self.classes = {}
        self.enums = {}
        self.globals = {}
        self.units = []
        for f in files:
            txt = open(f).read().replace('"' + ROOT_MARK + '/', '"' + repo + '/')
            d = json.loads(txt)
            self.units.append(d['unit'])
            for fn in d['functions']:
                k = fn['key']
                if k not in self.funcs:
                    self.funcs[k] = fn
                    self.by_q.setdefault(fn['q'], []).append(fn)
            for fn in d['decls']:
                self.decls.setdefault(fn['key'], fn)
            for c in d['classes']:
                self.classes.setdefault(c['q'], c)
            for e in d['enums']:
                self.enums.setdefault(e['q'], e)
            for g in d['globals']:
                self.globals.setdefault(g['q'], g)
        self.headers = installed_headers(repo)
        self._cg = None

    def rel(self, path):
        return os.path.relpath(path, self.repo) if path.startswith(self.repo) else path

    def is_helper(self, g):
        """a function whose body is read as part of its callers (expanded in place): a unit-private
        free function (internal linkage), or a private / protected non-virtual method that did not exist when
        the rule tables were frozen (sa/rules/known_private.json lists the non-public methods of the
        confirmed tree: those are protocol steps with their own inventory, not helpers)"""
        if g is None or not g.get('body') or g.get('va'):
            return False
        if g.get('internal'):
            return True
        if g.get('kind') == 'method' and g.get('access') in ('private', 'protected') and not g.get('virt'):
            if self._known_private is None:
                p = os.path.join(VERIF, 'sa', 'rules', 'known_private.json')
                self._known_private = set(json.load(open(p))) if os.path.exists(p) else set()
            return g['q'] not in self._known_private
        return False

    def fn(self, q, nth=None, where=None):
        """function(s) by qualified name; raises AnalysisBroken if missing (vanished anchor)"""
        l = self.by_q.get(q, [])
        if where:
            l = [f for f in l if where(f)]
        if not l:
            raise AnalysisBroken('anchor function vanished: %s' % q)
        if nth is None:
            return l
        return l[nth]

    def subclasses(self, cls):
        out = set([cls])
        ch = True
        while ch:
            ch = False
            for c in self.classes.values():
                if c['q'] not in out and any(b in out for b in c['bases']):
                    out.add(c['q'])
                    ch = True
        return out

    def callgraph(self):
        if self._cg is not None:
            return self._cg
        cg = {}
        # virtual dispatch: a call to a virtual method may reach any override in a subclass
        overrides = {}
        for f in self.funcs.values():
            if f.get('cls'):
                overrides.setdefault((f['q'].split('::')[-1], tuple(p['t'] for p in f['params'])), []).append(f)
        for k, f in self.funcs.items():
            outs = set()
            for e in walk(f):
                if isinstance(e, dict) and e.get('k') == 'fn':
                    # address taken (predicate / callback): counts as a possible call
                    for g in self.by_q.get(e.get('f'), []):
                        outs.add(g['key'])
                if isinstance(e, dict) and e.get('k') in ('call', 'mcall', 'ctor') and e.get('fid'):
                    outs.add(e['fid'])
                    if e.get('virt'):
                        name = e['f'].split('::')[-1]
                        base = e['f'].rsplit('::', 1)[0]
                        subs = self.subclasses(base)
                        for g in self.funcs.values():
                            if g.get('cls') in subs and g['q'].split('::')[-1] == name and len(g['params']) == len(e['a']):
                                outs.add(g['key'])
            cg[k] = outs
        self._cg = cg
        return cg

    def offered(self):
        """keys of functions reachable from a public (or free) function declared in an installed header"""
        cg = self.callgraph()
        roots = set()
        for k, f in self.funcs.items():
            if f.get('declfile') in self.headers and f.get('access') in (None, 'public', 'none'):
                roots.add(k)
        seen = set(roots)
        st = list(roots)
        while st:
            k = st.pop()
            for o in cg.get(k, ()):
                if o in self.funcs and o not in seen:
                    seen.add(o)
                    st.append(o)
        return seen

    def callers_of(self, key):
        """functions whose analysis contains the call sites of `key`: a helper that is expanded into
        its callers is replaced by those callers"""
        cg = self.callgraph()
        out = []
        seen = set()
        work = [k for k, outs in cg.items() if key in outs]
        while work:
            k = work.pop()
            if k in seen:
                continue
            seen.add(k)
            g = self.funcs.get(k)
            if g is not None and self.is_helper(g):
                work.extend(k2 for k2, outs in cg.items() if k in outs)
            else:
                out.append(k)
        return out


def walk(node):
    """pre-order over every dict node of a statement/expression tree"""
    st = [node]
    while st:
        n = st.pop()
        if isinstance(n, dict):
            yield n
            for v in n.values():
                if isinstance(v, (dict, list)):
                    st.append(v)
        elif isinstance(n, list):
            st.extend(reversed(n))


_prog_cache = {}


def load(repo=REPO, ndebug=False):
    key = (repo, ndebug)
    if key not in _prog_cache:
        files = extract(repo, ndebug)
        _prog_cache[key] = Program(files, repo)
    return _prog_cache[key]
