"""Symbolic forward dataflow (global value numbering with a term language for GMP / libTMCG
primitives) over the CFG of one function.  No path is enumerated and no solver is called: the
abstract value of every location is one hash-consed term over the function's inputs (members,
parameters, wire reads, fresh randomness); joins of different terms give an opaque phi symbol
whose sources are remembered for dependence queries.  Alongside the environment the analysis
carries the set of *must facts*: normalised branch conditions that hold on every path to a node.
"""
import re
from .cfg import CFG

LEAF = {'int', 'str', 'this', 'param', 'wire', 'sym', 'iv', 'phi', 'local', 'glob', 'bool', 'null', 'rand', 'new',
        'float', 'thisobj'}
COMM = {'add', 'mul', 'gcd', '+', '*', '&', '|', '^', '&&', '||', '==', '!='}


ITER_TYPES = ('std::_Rb_tree_const_iterator', 'std::_Rb_tree_iterator', '__gnu_cxx::__normal_iterator', 'std::_List_const_iterator', 'std::_List_iterator')

NONMUTATING = ('find', 'begin', 'end', 'rbegin', 'rend', 'cbegin', 'cend', 'lower_bound', 'upper_bound', 'equal_range', 'data', 'c_str', 'count', 'size', 'length', 'empty', 'capacity', 'max_size')

FILL_CTOR = re.compile(r'std::(vector|basic_string)<.*>::(vector|basic_string)\((unsigned long|size_type)[,)]')


def is_owner_get(e):
    o = e.get('o')
    return e.get('k') == 'mcall' and e['f'].split('::')[-1] == 'get' and not e.get('a') and isinstance(o, dict) and \
        ('unique_ptr<' in o.get('t', '') or 'shared_ptr<' in o.get('t', ''))

class Terms:
    def __init__(self):
        self.tbl = {}
        self.nodes = []
        self.phi_src = {}
        self._leaves = {}
        self._str = {}

    def mk(self, op, *args):
        key = (op,) + args
        i = self.tbl.get(key)
        if i is None:
            i = len(self.nodes)
            self.tbl[key] = i
            self.nodes.append(key)
        return i

    def op(self, t):
        return self.nodes[t][0]

    def args(self, t):
        return self.nodes[t][1:]

    def node(self, t):
        return self.nodes[t]

    def int(self, v):
        return self.mk('int', int(v))

    def is_int(self, t, v=None):
        n = self.nodes[t]
        return n[0] == 'int' and (v is None or n[1] == v)

    def subterms(self, t, seen=None):
        """all term ids reachable from t (through phi sources as well)"""
        if seen is None:
            seen = set()
        st = [t]
        while st:
            x = st.pop()
            if x in seen:
                continue
            seen.add(x)
            n = self.nodes[x]
            if n[0] == 'phi':
                st.extend(self.phi_src.get((n[1], n[2]), ()))
            elif n[0] not in LEAF:
                st.extend(a for a in n[1:] if isinstance(a, int))
        return seen

    def leaves(self, t):
        return set(x for x in self.subterms(t) if self.nodes[x][0] in LEAF and self.nodes[x][0] not in ('int', 'str', 'bool', 'phi'))

    def contains(self, t, pred):
        return any(pred(self.nodes[x]) for x in self.subterms(t))

    def show(self, t, depth=6):
        if not isinstance(t, int):
            return str(t)
        n = self.nodes[t]
        o = n[0]
        if o == 'int':
            return str(n[1])
        if o == 'bool':
            return 'true' if n[1] else 'false'
        if o == 'str':
            return repr(n[1])
        if o == 'this':
            return 'this.' + n[1]
        if o == 'param':
            return n[1]
        if o == 'wire':
            return 'W%d<%s>' % (n[1], n[2])
        if o == 'rand':
            return 'R%d' % n[1]
        if o == 'iv':
            return 'iv%d' % n[1]
        if o == 'phi':
            return 'phi%d<%s>' % (n[1], locname(n[2]))
        if o == 'local':
            return 'local.' + str(n[1])
        if o == 'glob':
            return str(n[1])
        if o in LEAF:
            return o + ':' + ','.join(str(a) for a in n[1:])
        if depth <= 0:
            return o + '(..)'
        if o == 'fld':
            return '%s.%s' % (self.show(n[1], depth), n[2])
        if o == 'elem':
            return '%s[%s]' % (self.show(n[1], depth), self.show(n[2], depth - 1) if isinstance(n[2], int) and not isinstance(n[2], bool) else n[2])
        if o == 'rel':
            return '(%s %s %s)' % (self.show(n[2], depth - 1), n[1], self.show(n[3], depth - 1))
        raw = RAWARGS.get(o, ())
        return '%s(%s)' % (o, ','.join(str(a) if (i in raw or not isinstance(a, int) or isinstance(a, bool)) else self.show(a, depth - 1)
                                       for i, a in enumerate(n[1:])))


RAWARGS = {'rel': (0,), 'fld': (1,), 'hash': (0,), 'op': (0,), 'op1': (0,), 'callr': (0,), 'mc': (0,), 'out': (0, 1), 'ctor': (0,), 'unk': (0,), 'all': (0,),
           'rd': (1, 2), 'opc': (0,)}


def locname(loc):
    if not isinstance(loc, tuple):
        return str(loc)
    k = loc[0]
    if k == 'v':
        return loc[2]
    if k == 'm':
        return 'this.' + loc[1]
    if k == 'f':
        return locname(loc[1]) + '.' + loc[2]
    if k == 'e':
        return '%s[%s]' % (locname(loc[1]), loc[2])
    if k == 'stream':
        return 'stream(%s)' % locname(loc[1])
    return str(loc)


NEG = {'==': '!=', '!=': '==', '<': '>=', '<=': '>', '>': '<=', '>=': '<'}
SWAP = {'<': '>', '<=': '>=', '>': '<', '>=': '<=', '==': '==', '!=': '!='}


NARROW = {'unsigned int': (0, 2**32 - 1), 'int': (-2**31, 2**31 - 1), 'unsigned short': (0, 65535), 'short': (-32768, 32767),
          'unsigned char': (0, 255)}


def loc_depth(l):
    d = 0
    while isinstance(l, tuple) and l and l[0] in ('e', 'f') and len(l) > 1:
        l = l[1]
        d += 1
    return d


class State:
    __slots__ = ('env', 'facts')

    def __init__(self, env=None, facts=frozenset()):
        self.env = env if env is not None else {}
        self.facts = facts

    def copy(self):
        return State(dict(self.env), self.facts)

    def __eq__(self, o):
        return o is not None and self.facts == o.facts and self.env == o.env


def split_params(fid):
    """parameter type list from an overload key 'name(T1,T2,...)const'"""
    i = fid.find('(')
    if i < 0:
        return []
    depth = 0
    cur = ''
    out = []
    for ch in fid[i + 1:]:
        if ch in '<(':
            depth += 1
        elif ch in '>)':
            if ch == ')' and depth == 0:
                break
            depth -= 1
        if ch == ',' and depth == 0:
            out.append(cur.strip())
            cur = ''
        else:
            cur += ch
    if cur.strip():
        out.append(cur.strip())
    return out


def is_out_type(t):
    t = t.replace('__restrict', '').strip()      # memcpy(void *__restrict, ...)
    if t.endswith('&&'):
        return False
    if not (t.endswith('*') or t.endswith('&')):
        return False
    if t.endswith('const &') or t.endswith('const&'):
        return False
    core = t[:-1].strip()
    if core.startswith('const ') and not core.endswith('*'):
        return False
    if core.endswith('*const'):
        core = core[:-6]
    # pointer to const pointee
    if core.startswith('const '):
        return False
    return True


def is_stream_type(t):
    return 'istream' in t or 'ostream' in t or 'iostream' in t or 'stringstream' in t


# destination-first GMP primitives: name -> (term op, indexes of value operands)
GMP_DST = {
    'mpz_set': ('id', (1,)), 'mpz_set_ui': ('id', (1,)), 'mpz_set_si': ('id', (1,)),
    'mpz_init_set': ('id', (1,)), 'mpz_init_set_ui': ('id', (1,)), 'mpz_init_set_si': ('id', (1,)),
    'mpz_add': ('add', (1, 2)), 'mpz_add_ui': ('add', (1, 2)),
    'mpz_sub': ('sub', (1, 2)), 'mpz_sub_ui': ('sub', (1, 2)), 'mpz_ui_sub': ('sub', (1, 2)),
    'mpz_mul': ('mul', (1, 2)), 'mpz_mul_ui': ('mul', (1, 2)), 'mpz_mul_si': ('mul', (1, 2)),
    'mpz_mod': ('mod', (1, 2)), 'mpz_mod_ui': ('mod', (1, 2)),
    'mpz_powm': ('powm', (1, 2, 3)), 'mpz_powm_ui': ('powm', (1, 2, 3)), 'mpz_powm_sec': ('powm', (1, 2, 3)),
    'tmcg_mpz_spowm': ('powm', (1, 2, 3)), 'tmcg_mpz_spowm_baseblind': ('powm', (1, 2, 3)),
    'tmcg_mpz_spowm_calc': ('powm', (1, 2, 3)),
    'mpz_neg': ('neg', (1,)), 'mpz_abs': ('abs', (1,)),
    'mpz_gcd': ('gcd', (1, 2)), 'mpz_lcm': ('lcm', (1, 2)),
    'mpz_tdiv_r_2exp': ('mod2exp', (1, 2)), 'mpz_fdiv_r_2exp': ('mod2exp', (1, 2)),
    'mpz_tdiv_q_2exp': ('shr', (1, 2)), 'mpz_fdiv_q_2exp': ('shr', (1, 2)), 'mpz_mul_2exp': ('shl', (1, 2)),
    'mpz_tdiv_q': ('div', (1, 2)), 'mpz_fdiv_q': ('div', (1, 2)), 'mpz_divexact': ('div', (1, 2)),
    'mpz_tdiv_q_ui': ('div', (1, 2)), 'mpz_fdiv_q_ui': ('div', (1, 2)), 'mpz_divexact_ui': ('div', (1, 2)),
    'mpz_tdiv_r': ('rem', (1, 2)), 'mpz_fdiv_r': ('mod', (1, 2)),
    'mpz_sqrt': ('isqrt', (1,)), 'mpz_pow_ui': ('pow', (1, 2)), 'mpz_ui_pow_ui': ('pow', (1, 2)),
    'mpz_nextprime': ('nextprime', (1,)),
}
# table-first fixed-base powers: (table, dst, base, exp, mod)
FPOWM = {'tmcg_mpz_fpowm', 'tmcg_mpz_fspowm', 'tmcg_mpz_fpowm_ui'}
GMP_PURE = {
    'mpz_cmp': 'cmp', 'mpz_cmp_ui': 'cmp', 'mpz_cmp_si': 'cmp', 'mpz_cmpabs': 'cmpabs', 'mpz_cmpabs_ui': 'cmpabs',
    'mpz_sgn': 'sgn', 'mpz_sizeinbase': 'sizeinbase', 'mpz_probab_prime_p': 'isprime', 'mpz_jacobi': 'jacobi',
    'mpz_legendre': 'jacobi', 'mpz_kronecker': 'jacobi', 'mpz_odd_p': 'odd', 'mpz_even_p': 'even',
    'mpz_get_ui': 'get_ui', 'mpz_get_si': 'get_ui', 'mpz_tstbit': 'tstbit', 'mpz_congruent_p': 'congruent',
    'mpz_divisible_p': 'divisible', 'mpz_fits_ulong_p': 'fits_ulong', 'mpz_fits_slong_p': 'fits_slong',
    'mpz_fits_uint_p': 'fits_uint', 'mpz_perfect_square_p': 'is_square', 'mpz_size': 'limbs',
    'mpz_fdiv_ui': 'mod',
}
RANDOM_DST = {'tmcg_mpz_srandomb', 'tmcg_mpz_srandomm', 'tmcg_mpz_ssrandomb', 'tmcg_mpz_ssrandomm', 'tmcg_mpz_wrandomb',
              'tmcg_mpz_wrandomm', 'tmcg_mpz_ssrandomm_cache', 'tmcg_mpz_srandomm_cache'}
NOEFFECT = {'mpz_clear', 'mpz_init2'}


class Analysis:
    """run the dataflow on one function record"""

    def __init__(self, func, prog=None, terms=None, max_passes=400, assume=None):
        self.assume = assume or {}
        self.func = func
        self.prog = prog
        self.T = terms or Terms()
        self.cfg = CFG(func, prog)
        self.var_names = {}
        self.param_ids = {}
        for p in func.get('params', []):
            self.param_ids[p['id']] = p
        self.site_no = {}       # (node id, sub index) -> wire ordinal
        self.events = {}        # node id -> list of events from the last pass
        self.instate = {}       # node id -> State
        self.edge_out = {}      # (node id, succ idx) -> State
        self.loop_bound = {}
        self.wire_sites = []    # ordinal -> (line, locname)
        self.rand_sites = {}
        self.converged = False
        self.head_entry = {}
        self.loop_nodes = {}
        self.alloc_size = {}
        self.fill_size = {}
        self.octets = set()
        self._guards = []
        self._rec = None
        self.run(max_passes)

    # ------------------------------------------------------------------ locations
    def loc(self, e, st):
        """abstract location of an lvalue expression (or None)"""
        if not isinstance(e, dict):
            return None
        k = e.get('k')
        if k == 'var':
            if st is not None:
                al = st.env.get(('alias', e['id']))
                if isinstance(al, tuple):
                    return al          # a local reference / pointer that names another object
            return ('v', e['id'], e['n'])
        if k == 'mem':
            o = e.get('o')
            if isinstance(o, dict) and o.get('k') == 'this':
                return ('m', e['n'])
            if e.get('n') == 'second' and st is not None and isinstance(o, dict) and o.get('k') == 'opcall' and o.get('op') in ('->', '*') and len(o.get('a', [])) == 1 \
                    and isinstance(o['a'][0], dict) and o['a'][0].get('k') == 'var':
                fo = st.env.get(('findof', o['a'][0]['id']))
                if isinstance(fo, tuple):
                    return fo
            b = self.loc(o, st)
            if b is None:
                return None
            return ('f', b, e['n'])
        if k == 'idx':
            b = self.loc(e['a'][0], st)
            if b is None:
                return None
            return ('e', b, self.idxkey(e['a'][1], st))
        if k == 'opcall' and e['op'] == '[]':
            b = self.loc(e['a'][0], st)
            if b is None:
                return None
            return ('e', b, self.idxkey(e['a'][1], st))
        if k == 'mcall' and e['f'].split('::')[-1] in ('at',) and len(e['a']) == 1:
            b = self.loc(e['o'], st)
            if b is None:
                return None
            return ('e', b, self.idxkey(e['a'][0], st))
        if k == 'mcall' and e['f'].split('::')[-1] in ('front', 'back') and not e['a']:
            b = self.loc(e['o'], st)
            return ('e', b, '*') if b is not None else None
        if k == 'un' and e['op'] in ('*', '&'):
            return self.loc(e['a'][0], st)
        if k == 'cast':
            return self.loc(e['e'], st)
        if k == 'this':
            return ('thisobj',)
        if k == 'mcall' and is_owner_get(e):
            # p.get() of an owning smart pointer names the buffer the pointer variable stands for
            return self.loc(e['o'], st)
        return None

    def find_target(self, init, st):
        x = init
        while isinstance(x, dict) and (x.get('k') == 'cast' or (x.get('k') == 'ctor' and len(x.get('a', [])) == 1 and x['f'].split('<')[0] in ITER_TYPES)):
            x = x['e'] if x.get('k') == 'cast' else x['a'][0]
        if isinstance(x, dict) and x.get('k') == 'mcall' and x['f'].split('::')[-1] == 'find' and x['f'].startswith(('std::map<', 'std::set<')) and len(x.get('a', [])) == 1:
            from .cfg import pure_lvalue
            if pure_lvalue(x.get('o')):
                b = self.loc(x['o'], st)
                if b is not None:
                    return ('e', b, self.idxkey(x['a'][0], st))
        return None

    def alias_target(self, v, init, st):
        """location a local reference / object pointer is bound to, when its initialiser is a plain
        access path (member, cell, other variable); None for fresh objects and computed values"""
        t = v.get('t', '')
        isref = '&' in t
        isptr = t.rstrip().endswith('*') and 'char' not in t
        if not (isref or isptr):
            return None
        x = init
        while isinstance(x, dict) and x.get('k') == 'cast':
            x = x.get('e')
        from .cfg import pure_lvalue
        if not pure_lvalue(x):
            return None
        if isptr and isinstance(x, dict) and x.get('k') == 'un' and x.get('op') == '&':
            x = x['a'][0]
        l = self.loc(x, st)
        if l is None or l == ('v', v['id'], v['n']):
            return None
        return l

    def idxkey(self, ie, st):
        if isinstance(ie, dict) and ie.get('k') == 'int':
            return ie['v']
        return '*'

    def default(self, loc):
        T = self.T
        k = loc[0]
        if k == 'v':
            if loc[1] in self.param_ids:
                return T.mk('param', loc[2])
            return T.mk('local', loc[2], loc[1])
        if k == 'm':
            return T.mk('this', loc[1])
        if k == 'f':
            return T.mk('fld', self.default_or_env(loc[1]), loc[2])
        if k == 'e':
            key = loc[2]
            return T.mk('elem', self.default_or_env(loc[1]), T.int(key) if isinstance(key, int) else key)
        if k == 'stream':
            return T.mk('sym', 'stream0', locname(loc[1]))
        if k == 'thisobj':
            return T.mk('thisobj')
        return T.mk('sym', str(loc))

    def default_or_env(self, loc):
        v = self._cur.env.get(loc)
        if v is None:
            v = self.default(loc)
        return v

    def read(self, loc, st):
        v = st.env.get(loc)
        if v is not None:
            return v
        self._cur = st
        if loc[0] == 'e' and loc[2] == '*':
            pass
        return self.default(loc)

    def write(self, loc, val, st):
        if loc is None:
            return
        # kill children of loc; a write to a summary cell kills constant cells of the same base
        dead = [l for l in st.env if l is not loc and self.is_child(l, loc)]
        for l in dead:
            del st.env[l]
        if loc[0] == 'e':
            sib = [l for l in st.env if l[0] == 'e' and l[1] == loc[1] and l != loc and (loc[2] == '*' or l[2] == '*')]
            for l in sib:
                del st.env[l]
        st.env[loc] = val
        if self._rec is not None:
            self._rec.add(loc)

    def setenv(self, st, loc, val):
        st.env[loc] = val
        if self._rec is not None:
            self._rec.add(loc)

    @staticmethod
    def is_child(l, base):
        while isinstance(l, tuple) and l[0] in ('f', 'e', 'stream'):
            l = l[1]
            if l == base:
                return True
        return False

    # ------------------------------------------------------------------ expressions
    def rel(self, op, a, b):
        T = self.T
        if a == b:
            # a value compared with itself constrains nothing
            return T.mk('bool', op in ('==', '<=', '>='))
        # three-way comparison results (cmp / cmpabs / sgn) against an integer constant: only the
        # sign is specified, so translate "sign OP c" into the set of admitted signs
        for (x, y, o2) in ((a, b, op), (b, a, SWAP[op])):
            if T.op(x) in ('cmp', 'cmpabs', 'sgn') and T.is_int(y) and not T.is_int(y, 0):
                c = T.node(y)[1]
                S = frozenset(s for s in (-1, 0, 1) if {'<': s < c, '<=': s <= c, '>': s > c, '>=': s >= c, '==': s == c, '!=': s != c}[o2])
                m = {frozenset([-1]): '<', frozenset([0]): '==', frozenset([1]): '>', frozenset([-1, 0]): '<=',
                     frozenset([0, 1]): '>=', frozenset([-1, 1]): '!='}.get(S)
                if m is None:
                    return T.mk('bool', len(S) == 3)
                return self.rel(m, x, T.int(0))
        # cmp(x,y) OP 0  ->  x OP y
        if T.is_int(b, 0) and T.op(a) in ('cmp', 'cmpabs', 'sgn'):
            n = T.node(a)
            if n[0] == 'cmp':
                return self.rel(op, n[1], n[2])
            if n[0] == 'cmpabs':
                return self.rel(op, T.mk('abs', n[1]), T.mk('abs', n[2]))
            if n[0] == 'sgn':
                return self.rel(op, n[1], T.int(0))
        if T.is_int(a, 0) and T.op(b) in ('cmp', 'cmpabs', 'sgn'):
            return self.rel(SWAP[op], b, a)
        if op in ('==', '!='):
            # m.find(k) == m.end()  is  !m.count(k)
            for x, y in ((a, b), (b, a)):
                xn, yn = T.node(x), T.node(y)
                if xn[0] == 'mc' and yn[0] == 'mc' and isinstance(xn[1], str) and isinstance(yn[1], str) and xn[1].endswith('::find') and \
                        yn[1].endswith('::end') and xn[1].startswith(('std::map<', 'std::set<')) and len(xn) == 4 and len(yn) == 3 and xn[2] == yn[2]:
                    return T.mk('falsy' if op == '==' else 'truthy', T.mk('mc', xn[1][:-len('find')] + 'count', xn[2], xn[3]))
        if op in ('>', '>='):
            op, a, b = SWAP[op], b, a
        if op in ('==', '!='):
            # (v & mask) != 0 is the bit test `v & mask` itself
            for x, y in ((a, b), (b, a)):
                if T.is_int(y, 0) and T.op(x) == 'op' and T.node(x)[1] == '&':
                    return T.mk('truthy' if op == '!=' else 'falsy', x)
        if op in ('==', '!=') and a > b:
            a, b = b, a
        return T.mk('rel', op, a, b)

    def truth(self, t, pol):
        """normalised fact term for 'value t is truthy' (pol=True) or falsy"""
        T = self.T
        n = T.node(t)
        if n[0] == 'rel':
            return t if pol else self.rel(NEG[n[1]], n[2], n[3])
        if n[0] == 'not':
            return self.truth(n[1], not pol)
        if n[0] in ('cmp', 'cmpabs'):
            x, y = (n[1], n[2]) if n[0] == 'cmp' else (T.mk('abs', n[1]), T.mk('abs', n[2]))
            return self.rel('!=' if pol else '==', x, y)
        if n[0] == 'sgn':
            return self.rel('!=' if pol else '==', n[1], T.int(0))
        if n[0] == 'bool':
            return T.mk('bool', bool(n[1]) == pol)
        if n[0] == 'mc' and isinstance(n[1], str) and n[1].startswith('std::') and n[1].endswith('::empty') and len(n) == 3:
            # c.empty() is c.size() < 1
            sz = T.mk('mc', n[1][:-len('empty')] + 'size', n[2])
            return self.rel('<' if pol else '>=', sz, T.int(1))
        if n[0] in ('truthy', 'falsy'):
            # a stored verdict (bool b = (x & 1) != 0) tested later
            keep = (n[0] == 'truthy') == pol
            return T.mk('truthy' if keep else 'falsy', n[1])
        return T.mk('truthy' if pol else 'falsy', t)

    def ev(self, e, st, nid=0):
        T = self.T
        if e is None:
            return T.mk('sym', 'none')
        k = e.get('k')
        if k == 'int':
            return T.int(e['v'])
        if k == 'bool':
            return T.mk('bool', bool(e['v']))
        if k == 'str':
            return T.mk('str', e['v'])
        if k == 'null':
            return T.mk('null')
        if k == 'float':
            return T.mk('float', e['v'])
        if k == 'this':
            return T.mk('thisobj')
        if k in ('var', 'mem', 'idx'):
            if k == 'idx':
                self.note_index(e, e['a'][0], e['a'][1], st, nid)
            if k == 'var' and e.get('g'):
                l = ('v', e['id'], e['n'])
                v = st.env.get(l)
                return v if v is not None else T.mk('glob', e['g'])
            l = self.loc(e, st)
            if l is None:
                if k == 'mem':
                    return T.mk('fld', self.ev(e['o'], st, nid), e['n'])
                return T.mk('elem', self.ev(e['a'][0], st, nid), '*')
            return self.wrap_ix(self.read(l, st), e, st)
        if k == 'cast':
            return self.ev(e['e'], st, nid)
        if k == 'fn':
            return T.mk('sym', 'fn', e['f'])
        if k == 'bin':
            return self.ev_bin(e, st, nid)
        if k == 'un':
            return self.ev_un(e, st, nid)
        if k == 'cond':
            c = self.ev(e['a'][0], st, nid)
            # arithmetic inside an arm is evaluated under the arm's condition
            self._guards.append(self.truth(c, True))
            a = self.ev(e['a'][1], st, nid)
            self._guards[-1] = self.truth(c, False)
            b = self.ev(e['a'][2], st, nid)
            self._guards.pop()
            return T.mk('ite', c, a, b)
        if k == 'call':
            return self.ev_call(e, st, nid)
        if k == 'mcall':
            return self.ev_mcall(e, st, nid)
        if k == 'opcall':
            return self.ev_opcall(e, st, nid)
        if k == 'ctor':
            args = tuple(self.ev_arg(a, st, nid) for a in e['a'])
            self.event(nid, ('ctor', e['f'], args, e.get('l', 0), e.get('fid', '')))
            self.call_effects(e, e['a'], args, st, nid, e.get('fid', ''))
            if len(args) == 1 and e['f'].split('<')[0] in ITER_TYPES:
                # iterator -> const_iterator conversion
                return args[0]
            if len(args) == 1 and e['f'].split('<')[0] in ('std::unique_ptr', 'std::shared_ptr') and e['a'][0].get('k') in ('new', 'cast'):
                # an owning pointer constructed from a new-expression stands for that block
                return args[0]
            t = T.mk('ctor', e['f'], *args)
            if args and FILL_CTOR.match(e.get('fid', '')):
                # vector(n, value): a container of exactly n elements
                self.fill_size[t] = args[0]
            return t
        if k == 'init':
            return T.mk('init', *[self.ev(a, st, nid) for a in e['a']])
        if k == 'new':
            t = T.mk('new', nid, e.get('l', 0))
            if e.get('init') is not None:
                self.ev(e['init'], st, nid)
            if e.get('n'):
                n = self.ev(e['n'], st, nid)
                self.event(nid, ('alloc', n, e.get('at'), e.get('l', 0)))
                self.alloc_size[t] = n
            return t
        if k == 'delete':
            for a in e['a']:
                self.ev(a, st, nid)
            return T.mk('sym', 'void')
        if k == 'sizeof':
            return T.mk('sym', 'sizeof', str(e.get('at', '')))
        if k == 'assert':
            # one event per conjunct of the asserted condition
            def conj(x):
                if isinstance(x, dict) and x.get('k') == 'bin' and x.get('op') == '&&':
                    conj(x['a'][0])
                    conj(x['a'][1])
                else:
                    c = self.ev(x, st, nid)
                    self.event(nid, ('assert', self.truth(c, True), e.get('l', 0)))
            conj(e['c'])
            return T.mk('sym', 'void')
        if k == 'throw':
            v = self.ev(e.get('e'), st, nid) if e.get('e') else T.mk('sym', 'rethrow')
            return T.mk('throwexpr', v)
        if k == 'stmtexpr':
            return T.mk('sym', 'stmtexpr', nid)
        if k == 'unk':
            return T.mk('unk', e.get('c', '?'), *[self.ev(a, st, nid) for a in e.get('a', []) if isinstance(a, dict)])
        return T.mk('sym', 'expr', k or '?')

    def note_index(self, e, base, idx, st, nid):
        # nested subscripts a[i][j]: the outer levels are index events as well
        b = base
        while isinstance(b, dict) and b.get('k') in ('cast',):
            b = b.get('e')
        if isinstance(b, dict) and (b.get('k') == 'idx' or (b.get('k') == 'opcall' and b.get('op') == '[]' and len(b['a']) == 2)):
            self.note_index(b, b['a'][0], b['a'][1], st, nid)
        it = self.ev(idx, st, nid) if isinstance(idx, dict) else None
        bt = None
        bl = self.loc(base, st)
        self.event(nid, ('index', bl, it, e.get('l', 0), base.get('t') if isinstance(base, dict) else None))

    def ev_arg(self, e, st, nid):
        """value of a call argument; a container passed as a whole carries the values of its cells"""
        v = self.ev(e, st, nid)
        if isinstance(e, dict) and e.get('k') in ('var', 'mem'):
            l = self.loc(e, st)
            if l is not None:
                kids = sorted(set(val for k2, val in st.env.items() if k2[0] in ('e', 'f') and k2[1] == l))
                if kids:
                    return self.T.mk('agg', v, *kids)
        return v

    def ev_bin(self, e, st, nid):
        T = self.T
        op = e['op']
        a, b = e['a']
        if op == '=':
            v = self.ev(b, st, nid)
            l = self.loc(a, st)
            if isinstance(a, dict) and a.get('k') in ('idx',):
                self.note_index(a, a['a'][0], a['a'][1], st, nid)
            elif isinstance(a, dict) and a.get('k') == 'opcall':
                self.ev(a, st, nid)
            if l is not None:
                self.write(l, v, st)
                self.event(nid, ('write', l, v, e.get('l', 0)))
            else:
                self.ev(a, st, nid)
            return v
        if op in ('+=', '-=', '*=', '/=', '%=', '<<=', '>>=', '|=', '&=', '^='):
            old = self.ev(a, st, nid)
            v = self.ev(b, st, nid)
            nv = self.arith(op[:-1], old, v)
            l = self.loc(a, st)
            if l is not None:
                self.write(l, nv, st)
                self.event(nid, ('write', l, nv, e.get('l', 0)))
            return nv
        if op == ',':
            self.ev(a, st, nid)
            return self.ev(b, st, nid)
        x = self.ev(a, st, nid)
        y = self.ev(b, st, nid)
        if op == '&&':
            # a verdict stored in a variable: bool ok = A && B;  (tested or returned later)
            return T.mk('conj', x, y)
        if op == '||':
            return T.mk('disj', x, y)
        if op in NEG:
            return self.rel(op, x, y)
        if op == '-' and e.get('t') in ('unsigned long', 'unsigned int'):
            # unsigned difference (C12 S7: wraps to a huge value when x < y)
            self.event(nid, ('usub', x, y, e.get('t'), e.get('l', 0), tuple(self._guards)))
        if op in ('+', '-', '*', '<<') and e.get('t') in NARROW:
            # arithmetic carried out in a type narrower than size_t (C12 S7: wrap-around)
            self.event(nid, ('narrow', op, x, y, e.get('t'), e.get('l', 0)))
        return self.arith(op, x, y)

    def arith(self, op, x, y):
        T = self.T
        if T.is_int(x) and T.is_int(y):
            a, b = T.node(x)[1], T.node(y)[1]
            try:
                if op == '+': return T.int(a + b)
                if op == '-': return T.int(a - b)
                if op == '*': return T.int(a * b)
                if op == '/' and b: return T.int(int(a / b))
                if op == '%' and b: return T.int(a - b * int(a / b))
                if op == '<<' and 0 <= b < 128: return T.int(a << b)
                if op == '>>' and 0 <= b < 128: return T.int(a >> b)
                if op == '&': return T.int(a & b)
                if op == '|': return T.int(a | b)
                if op == '^': return T.int(a ^ b)
            except Exception:
                pass
        if op in COMM and x > y:
            x, y = y, x
        return T.mk('op', op, x, y)

    def ev_un(self, e, st, nid):
        T = self.T
        op = e['op']
        a = e['a'][0]
        if op in ('++', '--', 'post++', 'post--'):
            old = self.ev(a, st, nid)
            nv = self.arith('+' if '+' in op else '-', old, T.int(1))
            l = self.loc(a, st)
            if l is not None:
                self.write(l, nv, st)
                self.event(nid, ('write', l, nv, e.get('l', 0)))
            return old if op.startswith('post') else nv
        v = self.ev(a, st, nid)
        if op == '!':
            n = T.node(v)
            if n[0] == 'bool':
                return T.mk('bool', not n[1])
            return T.mk('not', v)
        if op in ('*', '&', '+'):
            return v
        if op == '-':
            if T.is_int(v):
                return T.int(-T.node(v)[1])
            return T.mk('neg', v)
        if op == '~':
            return T.mk('op1', '~', v)
        return T.mk('op1', op, v)

    def event(self, nid, ev):
        self.events.setdefault(nid, []).append(ev)

    def wire(self, nid, sub, loc, line):
        key = (nid, sub)
        n = self.site_no.get(key)
        if n is None:
            n = len(self.wire_sites)
            self.site_no[key] = n
            self.wire_sites.append((line, locname(loc) if loc else '?'))
        return self.T.mk('wire', n, locname(loc) if loc else '?')

    def bump_stream(self, sloc, st, nid, what):
        if sloc is None:
            return
        l = ('stream', sloc)
        old = self.read(l, st)
        self.setenv(st, l, self.T.mk('rd', old, nid, what))

    def havoc(self, l, st, nid, why, ins=()):
        old = self.read(l, st)
        self.write(l, self.T.mk('upd', old, self.T.mk('sym', why, nid), *ins), st)

    def call_effects(self, e, argexprs, args, st, nid, fid, fname=None, known_dst=()):
        """generic effects of a call: out-parameters are overwritten by an opaque term built from the
        callee and all argument values; stream parameters advance; returns nothing"""
        T = self.T
        ptypes = split_params(fid) if fid else []
        fname = fname or e.get('f', '?')
        outs = []
        for i, (ae, av) in enumerate(zip(argexprs, args)):
            pt = ptypes[i] if i < len(ptypes) else None
            if i in known_dst:
                continue
            if pt is None:
                # variadic tail: mpz arguments are inputs for the hashes
                continue
            if is_stream_type(pt):
                self.bump_stream(self.loc(ae, st), st, nid, fname)
                continue
            if is_out_type(pt):
                l = self.loc(ae, st)
                if l is not None:
                    at = ae.get('t', '') if isinstance(ae, dict) else ''
                    if at.endswith('*') and '__mpz_struct' not in at and not (isinstance(ae, dict) and ae.get('k') == 'un' and ae.get('op') == '&'):
                        # a raw pointer handed to a callee: the callee may write the pointee, not the pointer
                        l = ('e', l, '*')
                    outs.append((i, l))
        for i, l in outs:
            used = args
            if fname in ('memcpy', 'memmove', 'memset') and i == 0 and len(argexprs) == 3:
                # the whole destination array is overwritten: its new contents do not depend on the old ones
                at = argexprs[0].get('t', '') if isinstance(argexprs[0], dict) else ''
                m_ = re.search(r'\[(\d+)\]$', at)
                if m_ and T.is_int(args[2], int(m_.group(1))):
                    used = args[1:]
            val = T.mk('out', fname, i, *used)
            self.write(l, val, st)
            self.event(nid, ('write', l, val, e.get('l', 0)))

    def ev_call(self, e, st, nid):
        T = self.T
        f = e['f']
        fid = e.get('fid', '')
        aex = e['a']
        line = e.get('l', 0)
        if f in GMP_DST and aex:
            op, idx = GMP_DST[f]
            args = [self.ev(a, st, nid) for a in aex]
            vals = [args[i] for i in idx if i < len(args)]
            if op == 'id':
                val = vals[0]
            elif op in COMM:
                val = T.mk(op, *sorted(vals))
            elif op == 'shl' and T.is_int(vals[0], 1):
                val = T.mk('pow', T.int(2), vals[1])        # 1 << n is 2^n
            elif op == 'powm' and len(vals) == 3 and T.is_int(vals[1], 2):
                val = T.mk('mod', T.mk('mul', vals[0], vals[0]), vals[2])     # x^2 mod m is (x*x) mod m
            else:
                val = T.mk(op, *vals)
            if op in ('mod', 'powm', 'div', 'rem'):
                self.event(nid, ('modulus', vals[-1], f, line))
            if op == 'powm':
                self.event(nid, ('pow', vals[0], vals[1], vals[2], f, line, None))
            l = self.loc(aex[0], st)
            self.write(l, val, st)
            self.event(nid, ('write', l, val, line))
            self.event(nid, ('call', f, tuple(args), line, fid))
            return T.mk('sym', 'void')
        if f in ('mpz_addmul', 'mpz_addmul_ui', 'mpz_submul', 'mpz_submul_ui') and len(aex) == 3:
            # dst := dst +/- a * b
            args = [self.ev(a, st, nid) for a in aex]
            prod = T.mk('mul', *sorted(args[1:3]))
            val = T.mk('add', *sorted((args[0], prod))) if 'add' in f else T.mk('sub', args[0], prod)
            l = self.loc(aex[0], st)
            self.write(l, val, st)
            self.event(nid, ('write', l, val, line))
            self.event(nid, ('call', f, tuple(args), line, fid))
            return T.mk('sym', 'void')
        if f in ('mpz_fdiv_qr', 'mpz_tdiv_qr') and len(aex) == 4:
            # quotient and remainder of one division
            args = [self.ev(a, st, nid) for a in aex]
            self.event(nid, ('modulus', args[3], f, line))
            for i, op in ((0, 'div'), (1, 'mod' if f == 'mpz_fdiv_qr' else 'rem')):
                l = self.loc(aex[i], st)
                val = T.mk(op, args[2], args[3])
                self.write(l, val, st)
                self.event(nid, ('write', l, val, line))
            self.event(nid, ('call', f, tuple(args), line, fid))
            return T.mk('sym', 'void')
        if f == 'mpz_swap' and len(aex) == 2:
            args = [self.ev(a, st, nid) for a in aex]
            l0, l1 = self.loc(aex[0], st), self.loc(aex[1], st)
            self.write(l0, args[1], st)
            self.write(l1, args[0], st)
            self.event(nid, ('write', l0, args[1], line))
            self.event(nid, ('write', l1, args[0], line))
            self.event(nid, ('call', f, tuple(args), line, fid))
            return T.mk('sym', 'void')
        if f in FPOWM and len(aex) >= 5:
            args = [self.ev(a, st, nid) for a in aex]
            val = T.mk('powm', args[2], args[3], args[4])
            self.event(nid, ('pow', args[2], args[3], args[4], f, line, self.loc(aex[0], st)))
            self.event(nid, ('modulus', args[4], f, line))
            l = self.loc(aex[1], st)
            self.write(l, val, st)
            self.event(nid, ('write', l, val, line))
            self.event(nid, ('call', f, tuple(args), line, fid))
            return T.mk('sym', 'void')
        if f == 'mpz_init' and aex:
            self.ev(aex[0], st, nid)
            l = self.loc(aex[0], st)
            self.write(l, T.int(0), st)
            return T.mk('sym', 'void')
        if f in NOEFFECT:
            for a in aex:
                self.ev(a, st, nid)
            return T.mk('sym', 'void')
        if f == 'mpz_invert' and len(aex) == 3:
            args = [self.ev(a, st, nid) for a in aex]
            val = T.mk('inv', args[1], args[2])
            self.event(nid, ('modulus', args[2], f, line))
            l = self.loc(aex[0], st)
            self.write(l, val, st)
            self.event(nid, ('write', l, val, line))
            self.event(nid, ('call', f, tuple(args), line, fid))
            return T.mk('invertible', args[1], args[2])
        if f == 'mpz_swap' and len(aex) == 2:
            a, b = [self.ev(x, st, nid) for x in aex]
            la, lb = self.loc(aex[0], st), self.loc(aex[1], st)
            self.write(la, b, st)
            self.write(lb, a, st)
            return T.mk('sym', 'void')
        if f in ('gcry_malloc_secure', 'gcry_malloc', 'malloc', 'gcry_xmalloc', 'gcry_xmalloc_secure', 'gcry_calloc') and aex:
            args = [self.ev(a, st, nid) for a in aex]
            t = T.mk('new', nid, line)
            self.alloc_size[t] = args[0] if f != 'gcry_calloc' or len(args) < 2 else self.arith('*', args[0], args[1])
            self.event(nid, ('alloc', self.alloc_size[t], f, line))
            self.event(nid, ('call', f, tuple(args), line, fid))
            return t
        if f in GMP_PURE:
            args = [self.ev(a, st, nid) for a in aex]
            self.event(nid, ('call', f, tuple(args), line, fid))
            op = GMP_PURE[f]
            if op == 'sizeinbase' and len(args) == 2 and T.is_int(args[1], 2):
                return T.mk('bits', args[0])
            if op == 'congruent' or op == 'divisible':
                self.event(nid, ('modulus', args[-1], f, line))
            return T.mk(op, *args)
        if f in RANDOM_DST and aex:
            args = [self.ev(a, st, nid) for a in aex]
            r = self.rand_sites.setdefault((nid, line), len(self.rand_sites))
            val = T.mk('rnd', T.mk('rand', r), *args[1:])
            l = self.loc(aex[0], st)
            self.write(l, val, st)
            self.event(nid, ('write', l, val, line))
            self.event(nid, ('call', f, tuple(args), line, fid))
            return T.mk('sym', 'void')
        if (f.startswith('tmcg_mpz_shash') or f in ('tmcg_h', 'tmcg_g')) and aex:
            args = tuple(self.ev_arg(a, st, nid) for a in aex)
            va = e.get('va')
            if va is not None and va >= 1 and len(args) >= va and T.is_int(args[va - 1]):
                # variadic hash: only the first <count> variadic arguments are read
                cnt = T.node(args[va - 1])[1]
                nvar = len(args) - va
                self.event(nid, ('hashcount', f, cnt, nvar, line))
                if 0 <= cnt < nvar:
                    args = args[:va + cnt]
            self.event(nid, ('call', f, args, line, fid))
            self.event(nid, ('hash', f, args, line, e.get('va')))
            l = self.loc(aex[0], st)
            val = T.mk('hash', f, *args[1:])
            if l is not None:
                self.write(l, val, st)
                self.event(nid, ('write', l, val, line))
            return T.mk('sym', 'void')
        args = tuple(self.ev_arg(a, st, nid) for a in aex)
        self.event(nid, ('call', f, args, line, fid))
        if e.get('f') == '?':
            return T.mk('callr', '?', *args)
        self.call_effects(e, aex, args, st, nid, fid)
        if f.startswith('tmcg_mpz_shash') or f in ('tmcg_h', 'tmcg_g'):
            pass
        return T.mk('callr', f, *args)

    def ev_mcall(self, e, st, nid):
        T = self.T
        f = e['f']
        short = f.split('::')[-1]
        o = e.get('o')
        ov = self.ev(o, st, nid) if isinstance(o, dict) else T.mk('sym', 'noobj')
        args = tuple(self.ev_arg(a, st, nid) for a in e['a'])
        fid = e.get('fid', '')
        line = e.get('l', 0)
        ol = self.loc(o, st) if isinstance(o, dict) else None
        self.event(nid, ('mcall', f, ov, args, line, fid, ol))
        ot = o.get('t', '') if isinstance(o, dict) else ''
        if is_owner_get(e):
            return ov
        if is_stream_type(ot) or is_stream_type(f):
            if short in ('good', 'fail', 'eof', 'bad', 'str', 'rdbuf', 'peek', 'tellg', 'gcount', 'operator bool'):
                return T.mk('mc', short, self.read(('stream', ol), st) if ol else ov)
            # reading members: read, get, getline, ignore ...
            for a in e['a']:
                l = self.loc(a, st)
                if l is not None and short in ('read', 'get', 'getline', 'readsome'):
                    w = self.wire(nid, len(self.events.get(nid, [])), l, line)
                    self.write(l, w, st)
                    self.event(nid, ('rcv', l, w, line))
            self.bump_stream(ol, st, nid, short)
            return T.mk('mc', short, self.read(('stream', ol), st) if ol else ov, *args)
        # the non-const overloads of the observers do not change the container either
        is_const = fid.endswith('const') or (f.startswith('std::') and short in NONMUTATING)
        if short in ('at',) and len(e['a']) == 1:
            self.note_index(e, o, e['a'][0], st, nid)
        if short in ('at', 'front', 'back'):
            l = self.loc(e, st)
            if l is not None:
                return self.wrap_ix(self.read(l, st), e, st)
        self.call_effects(e, e['a'], args, st, nid, fid, fname=f)
        res = T.mk('mc', f, ov, *args)
        if not is_const and ol is not None and ol != ('thisobj',):
            self.havoc(ol, st, nid, short, args)
            if short in ('resize', 'clear') and f.startswith('std::'):
                # container postcondition: size() equals the requested size afterwards
                nv = self.read(ol, st)
                want = args[0] if (short == 'resize' and args) else T.int(0)
                st.facts = st.facts | {self.rel('==', T.mk('mc', f.rsplit('::', 1)[0] + '::size', nv), want)}
            if short in ('push_back', 'insert', 'emplace_back', 'resize', 'assign'):
                # the summary cell now may hold the pushed value
                if short == 'push_back' and len(args) == 1:
                    cell = ('e', ol, '*')
                    self.setenv(st, cell, args[0])
            res = T.mk('mc', f, ov, *args)
        elif not is_const and ol == ('thisobj',):
            # a non-const method on *this may write any member: forget member bindings
            for l in [l for l in st.env if l[0] == 'm' or (l[0] in ('f', 'e') and self.root(l)[0] == 'm')]:
                del st.env[l]
            if self._rec is not None:
                self._rec.add(('allmembers',))
            self.event(nid, ('selfcall', f, args, line))
        return res

    @staticmethod
    def root(l):
        while l[0] in ('f', 'e', 'stream'):
            l = l[1]
        return l

    def ev_opcall(self, e, st, nid):
        T = self.T
        op = e['op']
        aex = e['a']
        f = e.get('f', '?')
        line = e.get('l', 0)
        t0 = aex[0].get('t', '') if aex and isinstance(aex[0], dict) else ''
        if op == '>>' and len(aex) == 2 and is_stream_type(t0):
            sv = self.ev(aex[0], st, nid)
            sl = self.loc(self.stream_root(aex[0]), st)
            tgt = aex[1]
            if isinstance(tgt, dict) and tgt.get('k') in ('idx',):
                self.note_index(tgt, tgt['a'][0], tgt['a'][1], st, nid)
            elif isinstance(tgt, dict) and tgt.get('k') == 'opcall':
                self.ev(tgt, st, nid)
            l = self.loc(tgt, st)
            if l is None and isinstance(tgt, dict) and tgt.get('k') == 'fn':
                return sv   # manipulator
            w = self.wire(nid, len(self.events.get(nid, [])), l, line)
            if l is not None:
                self.write(l, w, st)
            self.event(nid, ('rcv', l, w, line, f))
            self.bump_stream(sl, st, nid, 'rcv')
            return sv
        if op == '<<' and len(aex) == 2 and is_stream_type(t0):
            sv = self.ev(aex[0], st, nid)
            v = self.ev(aex[1], st, nid)
            sl = self.loc(self.stream_root(aex[0]), st)
            if not (isinstance(aex[1], dict) and aex[1].get('k') == 'fn'):
                self.event(nid, ('snd', sl, v, line, f, self.loc(aex[1], st)))
            # writing into a local stringstream makes its content depend on v
            if sl is not None:
                l = ('stream', sl)
                self.setenv(st, l, T.mk('cat', self.read(l, st), v))
            return sv
        if op == '[]' and len(aex) == 2:
            self.note_index(e, aex[0], aex[1], st, nid)
            l = self.loc(e, st)
            if l is not None:
                return self.wrap_ix(self.read(l, st), e, st)
            return T.mk('elem', self.ev(aex[0], st, nid), '*')
        if op == '=' and len(aex) == 2:
            v = self.ev(aex[1], st, nid)
            l = self.loc(aex[0], st)
            if l is not None:
                self.write(l, v, st)
                self.event(nid, ('write', l, v, line))
            return v
        if op in ('+=',) and len(aex) == 2:
            old = self.ev(aex[0], st, nid)
            v = self.ev(aex[1], st, nid)
            nv = T.mk('cat', old, v)
            l = self.loc(aex[0], st)
            if l is not None:
                self.write(l, nv, st)
            return nv
        args = tuple(self.ev(a, st, nid) for a in aex)
        if op in NEG and len(args) == 2:
            return self.rel(op, args[0], args[1])
        if op == '!' and len(args) == 1:
            return T.mk('not', args[0])
        if op in ('++', '--') and aex:
            l = self.loc(aex[0], st)
            if l is not None:
                self.havoc(l, st, nid, op)
            return args[0]
        if op == '*' and len(args) == 1:
            return T.mk('deref', args[0])
        if op == '->' and len(args) == 1:
            return args[0]
        self.event(nid, ('call', f, args, line, ''))
        return T.mk('opc', op, *args)

    def stream_root(self, e):
        while isinstance(e, dict) and e.get('k') == 'opcall' and e['op'] in ('>>', '<<'):
            e = e['a'][0]
        return e

    # ------------------------------------------------------------------ transfer
    def transfer(self, n, st):
        """returns list of out states, one per successor"""
        T = self.T
        nid = n.id
        self.events[nid] = []
        k = n.kind
        if k == 'stmt':
            e = n.e
            ek = e.get('k')
            if ek == 'vardecl':
                v = e['v']
                l = ('v', v['id'], v['n'])
                if v.get('vla') is not None:
                    sz = self.ev(v['vla'], st, nid)
                    self.event(nid, ('vla', sz, v['n'], n.line))
                st.env.pop(('alias', v['id']), None)
                st.env.pop(('aliasiv', v['id']), None)
                st.env.pop(('findof', v['id']), None)
                fo = self.find_target(v.get('init'), st)
                if fo is not None:
                    # it = m.find(k): it->second names the cell m[k]
                    st.env[('findof', v['id'])] = fo
                if v.get('init') is not None and self.alias_target(v, v['init'], st) is not None:
                    # T &r = obj;  /  mpz_ptr p = cell;  -- r / p is another name of that object
                    self.ev(v['init'], st, nid)
                    st.env[('alias', v['id'])] = self.alias_target(v, v['init'], st)
                    st.env[('aliasiv', v['id'])] = tuple(self.index_ivs(v['init'], st))
                elif v.get('init') is not None and not (v['init'].get('k') == 'ctor' and not v['init']['a']):
                    val = self.ev(v['init'], st, nid)
                    self.write(l, val, st)
                    self.event(nid, ('write', l, val, n.line))
                else:
                    if l in st.env:
                        self.write(l, self.default(l), st)
                    # fresh object each time the declaration is executed
                    for c in [c for c in st.env if self.is_child(c, l)]:
                        del st.env[c]
                    if v['t'].startswith('std::') or v['t'].startswith('TMCG_') or v['t'].startswith('VTMF_'):
                        self.setenv(st, l, T.mk('fresh', T.mk('sym', v['n'], nid)))
            elif ek == 'ctorinit':
                val = self.ev(e['e'], st, nid)
                if not e['base']:
                    self.write(('m', e['m']), val, st)
                    self.event(nid, ('write', ('m', e['m']), val, n.line))
            elif ek == 'rangebind':
                v = e['v']
                r = self.ev(e['r'], st, nid)
                self.write(('v', v['id'], v['n']), T.mk('elem', r, '*'), st)
            else:
                self.ev(e, st, nid)
            return [st]
        if k == 'bind':
            v = n.e['v']
            val = self.ev(n.e['e'], st, nid) if n.e.get('e') else T.mk('sym', 'exc')
            self.write(('v', v['id'], v['n']), val, st)
            return [st]
        if k == 'branch':
            if n.e.get('k') == 'rangemore':
                return [st, st.copy()]
            c = self.ev(n.e, st, nid)
            self.event(nid, ('branch', c, n.line))
            ft, ff = self.truth(c, True), self.truth(c, False)
            fts = self.conj_facts(ft)
            loops = set(L for L in self.ix_loops(c) if n.id in self.loop_nodes.get(L, ()))
            if loops:
                tag = tuple(sorted(loops))
                fts = set(T.mk('all', tag, self.strip_ix(x, loops)) for x in fts)
                ff = T.mk('all', tag, self.strip_ix(ff, loops))
            ffs = self.conj_facts(ff) if not loops else {ff}
            s2 = st.copy()
            st.facts = st.facts | fts
            s2.facts = s2.facts | ffs
            cn = T.node(c)
            if cn[0] == 'bool':
                return [st if cn[1] else None, s2 if not cn[1] else None]
            return [st, s2]
        if k == 'switch':
            c = self.ev(n.e, st, nid)
            self.event(nid, ('branch', c, n.line))
            outs = []
            allv = []
            for (v, v2) in n.meta['cases']:
                s2 = st.copy()
                vt = self.ev(v, s2, nid)
                allv.append(vt)
                if v2 is None:
                    s2.facts = s2.facts | {self.rel('==', c, vt)}
                outs.append(s2)
            # a case label also excludes the other (distinct constant) labels
            for k2, (v, v2) in enumerate(n.meta['cases']):
                if v2 is None and T.is_int(allv[k2]):
                    others = set(self.rel('!=', c, o) for j2, o in enumerate(allv) if j2 != k2 and T.is_int(o) and T.node(o)[1] != T.node(allv[k2])[1])
                    outs[k2].facts = outs[k2].facts | others
            s3 = st.copy()
            s3.facts = s3.facts | {self.rel('!=', c, vt) for vt in allv}
            outs.append(s3)
            return outs
        if k == 'loophead':
            return [st]
        if k == 'exit':
            if n.e is not None:
                v = self.ev(n.e, st, nid)
                self.event(nid, ('exitval', v))
            return []
        return [st] * len(n.succ)

    def wrap_ix(self, v, e, st):
        """mark a value read from an array cell whose index (anywhere on the access path) is the
        induction variable of a canonical loop: ix(value, iv)"""
        T = self.T
        if isinstance(e, dict) and e.get('t') in ('unsigned char', 'const unsigned char'):
            self.octets.add(v)
        for t in self.index_ivs(e, st):
            v = T.mk('ix', v, t)
        return v

    def index_ivs(self, e, st):
        """induction variables of canonical loops that index the access path e (a local alias
        carries the ones of the path it was bound to)"""
        T = self.T
        x = e
        ivs = []
        while isinstance(x, dict):
            k = x.get('k')
            idx = None
            if k == 'idx':
                idx, x = x['a'][1], x['a'][0]
            elif k == 'opcall' and x.get('op') == '[]' and len(x['a']) == 2:
                idx, x = x['a'][1], x['a'][0]
            elif k == 'mcall' and x['f'].split('::')[-1] == 'at' and len(x['a']) == 1:
                idx, x = x['a'][0], x['o']
            elif k == 'mem':
                x = x.get('o')
            elif k == 'cast':
                x = x['e']
            elif k == 'un' and x['op'] in ('*', '&'):
                x = x['a'][0]
            else:
                break
            if idx is not None:
                t = self.ev_quiet(idx, st)
                if T.op(t) == 'iv':
                    ivs.append(t)
        if isinstance(x, dict) and x.get('k') == 'var' and st is not None:
            more = st.env.get(('aliasiv', x['id']))
            if isinstance(more, tuple):
                ivs.extend(more)
        return ivs

    def ix_loops(self, t):
        """loop ids of ix wrappers inside t (phi sources are not followed)"""
        T = self.T
        out = set()
        seen = set()
        stk = [t]
        while stk:
            x = stk.pop()
            if x in seen:
                continue
            seen.add(x)
            n = T.nodes[x]
            if n[0] == 'ix':
                out.add(T.nodes[n[2]][1])
            if n[0] not in LEAF:
                stk.extend(a for i, a in enumerate(n[1:]) if isinstance(a, int) and not isinstance(a, bool) and i not in RAWARGS.get(n[0], ()))
        return out

    def strip_ix(self, t, loops, memo=None):
        T = self.T
        if memo is None:
            memo = {}
        if t in memo:
            return memo[t]
        n = T.nodes[t]
        if n[0] in LEAF:
            r = t
        elif n[0] == 'ix':
            inner = self.strip_ix(n[1], loops, memo)
            r = inner if T.nodes[n[2]][1] in loops else T.mk('ix', inner, n[2])
        else:
            raw = RAWARGS.get(n[0], ())
            args = tuple(self.strip_ix(a, loops, memo) if (isinstance(a, int) and not isinstance(a, bool) and i not in raw) else a
                         for i, a in enumerate(n[1:]))
            r = T.mk(n[0], *args)
        memo[t] = r
        return r

    def iv_tag(self, e, st):
        """loop id if the condition reads an array cell indexed by the induction variable of an
        enclosing canonical loop"""
        from .facts import walk
        for x in walk(e):
            idx = None
            if x.get('k') == 'idx':
                idx = x['a'][1]
            elif x.get('k') == 'opcall' and x['op'] == '[]' and len(x['a']) == 2:
                idx = x['a'][1]
            elif x.get('k') == 'mcall' and x['f'].endswith('::at') and len(x['a']) == 1:
                idx = x['a'][0]
            if idx is None:
                continue
            t = self.ev_quiet(idx, st)
            if self.T.op(t) == 'iv':
                return self.T.node(t)[1]
        return None

    def ev_quiet(self, e, st):
        if isinstance(e, dict) and e.get('k') == 'var':
            return self.read(('v', e['id'], e['n']), st)
        if isinstance(e, dict) and e.get('k') == 'cast':
            return self.ev_quiet(e['e'], st)
        return self.T.mk('sym', 'noniv')

    # ------------------------------------------------------------------ fixpoint
    def join(self, n, states):
        T = self.T
        if len(states) == 1:
            return State(dict(states[0][1].env), frozenset())
        env = {}
        keys = set()
        for _, s in states:
            keys.update(s.env.keys())
        for l in keys:
            vals = []
            for _, s in states:
                v = s.env.get(l)
                if v is None:
                    self._cur = s
                    v = self.default(l)
                vals.append(v)
            if all(v == vals[0] for v in vals):
                env[l] = vals[0]
            elif len(vals) == 2 and self.flag_merge(states, vals) is not None:
                # `if (ok) ok = next_check();`: on the edge that skips the assignment the flag is
                # known to be false, so after the join  ok  is  old_ok && next_check
                env[l] = self.flag_merge(states, vals)
            else:
                pk = (n.id, l)
                src = T.phi_src.setdefault(pk, set())
                me = T.mk('phi', n.id, l)
                for v in vals:
                    if v != me:
                        src.add(v)
                env[l] = me
        return State(env, frozenset())

    def flag_merge(self, states, vals):
        T = self.T
        (e1, s1), (e2, s2) = states
        v1, v2 = vals
        if not all(isinstance(v, int) and not isinstance(v, bool) for v in vals):
            return None       # alias bookkeeping entries are not values
        for (va, sa, vb) in ((v2, s2, v1), (v1, s1, v2)):
            # va: value on the skipping edge, known false there; vb: value assigned on the other path
            if T.op(va) in ('int', 'str', 'null', 'new', 'fresh'):
                continue
            if self.truth(va, False) in sa.facts and T.op(self.truth(va, False)) != 'bool':
                return T.mk('conj', va, vb)
        return None

    def conj_facts(self, f, full=False):
        """everything that follows from f by unfolding stored verdicts: truthy(a && b) gives both,
        falsy(a || b) gives both negations, falsy(a && b) with a known gives not b, truthy(a || b)
        with not a known gives b, (c ? a : b) gives the two implications"""
        T = self.T
        S = {f}
        work = [f]
        pending = []
        while work or pending:
            if not work:
                # retry the conditional unfoldings with what is known now
                again = False
                for g in list(pending):
                    r = self.unfold_cond(g, S)
                    if r:
                        pending.remove(g)
                        for x in r:
                            if x not in S:
                                S.add(x)
                                work.append(x)
                                again = True
                if not again:
                    break
                continue
            g = work.pop()
            n = T.node(g)
            new = ()
            if n[0] == 'truthy' and T.op(n[1]) == 'conj':
                c = T.node(n[1])
                new = (self.truth(c[1], True), self.truth(c[2], True))
            elif n[0] == 'falsy' and T.op(n[1]) == 'disj':
                c = T.node(n[1])
                new = (self.truth(c[1], False), self.truth(c[2], False))
            elif n[0] == 'truthy' and T.op(n[1]) == 'ite':
                c = T.node(n[1])
                ct, cf = self.truth(c[1], True), self.truth(c[1], False)
                if T.op(ct) != 'bool':
                    new = (T.mk('if', ct, self.truth(c[2], True)), T.mk('if', cf, self.truth(c[3], True)))
            elif (n[0] == 'falsy' and T.op(n[1]) == 'conj') or (n[0] == 'truthy' and T.op(n[1]) == 'disj'):
                pending.append(g)
            for x in new:
                if x not in S:
                    S.add(x)
                    work.append(x)
        if full:
            return S
        # the compound facts themselves carry no further information once unfolded
        out = set()
        for g in S:
            n = T.node(g)
            if n[0] in ('truthy', 'falsy') and T.op(n[1]) in ('conj', 'disj') and g != f:
                continue
            if n[0] == 'bool':
                continue
            out.add(g)
        if len(out) > 1:
            out.discard(f) if (T.node(f)[0] in ('truthy', 'falsy') and T.op(T.node(f)[1]) in ('conj', 'disj', 'ite')) else None
        return out

    def unfold_cond(self, g, S):
        T = self.T
        n = T.node(g)
        c = T.node(n[1])
        if n[0] == 'falsy':      # not (a && b)
            for x, y in ((c[1], c[2]), (c[2], c[1])):
                tx = self.truth(x, True)
                if tx in S or T.node(tx) == ('bool', True):
                    return [self.truth(y, False)]
        else:                    # a || b
            for x, y in ((c[1], c[2]), (c[2], c[1])):
                fx = self.truth(x, False)
                if fx in S or T.node(fx) == ('bool', True):
                    return [self.truth(y, True)]
        return None

    def run(self, max_passes):
        """phase 1: environments.  Loop heads get a phi for every location written inside the
        natural loop (computed from a dry run that records the written locations per node), so one
        reverse-post-order sweep reaches the fixpoint on these reducible graphs."""
        T = self.T
        cfg = self.cfg
        # dry run: written locations per node
        writes = {}
        for n in cfg.rpo:
            self._rec = set()
            try:
                self.transfer(n, State())
            except Exception:
                raise
            writes[n.id] = self._rec
        self._rec = None
        self.events = {}
        pos = self._rpo_pos()
        # natural loops
        self.loop_nodes = {}
        self.loop_mod = {}
        for h in cfg.rpo:
            if h.kind != 'loophead':
                continue
            body = set([h.id])
            stack = [p for (p, i) in h.preds if pos[p.id] >= pos[h.id]]
            while stack:
                x = stack.pop()
                if x.id in body:
                    continue
                body.add(x.id)
                stack.extend(p for (p, i) in x.preds)
            self.loop_nodes[h.id] = body
            mod = set()
            for nid in body:
                mod |= writes.get(nid, set())
            self.loop_mod[h.id] = mod
        init = State()
        for l, v in self.assume.items():
            init.env[l] = T.mk('bool', v) if isinstance(v, bool) else T.int(v)
        for n in cfg.rpo:
            ins = []
            if n is cfg.entry:
                ins.append((None, init))
            for (p, i) in n.preds:
                s = self.edge_out.get((p.id, i))
                if s is not None:
                    ins.append(((p, i), s))
            if not ins:
                continue
            st = self.join(n, ins)
            if n.kind == 'loophead':
                mod = self.loop_mod[n.id]
                if ('allmembers',) in mod:
                    for l in [l for l in st.env if self.root(l)[0] == 'm']:
                        del st.env[l]
                # parents before their cells: installing the phi of a container drops the entries of
                # its cells, so the order must not depend on set iteration
                for m in sorted(mod, key=lambda l: (loc_depth(l), repr(l))):
                    if m == ('allmembers',):
                        continue
                    self._cur = st
                    ent = st.env.get(m)
                    if ent is None:
                        ent = self.default(m)
                    T.phi_src.setdefault((n.id, m), set()).add(ent)
                    for c in [c for c in st.env if self.is_child(c, m)]:
                        del st.env[c]
                    st.env[m] = T.mk('phi', n.id, m)
                iv = cfg.loops[n.id].get('iv')
                if iv:
                    name = None
                    for l in list(st.env.keys()):
                        if l[0] == 'v' and l[1] == iv['id']:
                            name = l
                    if name is None:
                        name = ('v', iv['id'], 'iv')
                    st.env[name] = T.mk('iv', n.id)
            self.instate[n.id] = st
            outs = self.transfer(n, st.copy())
            for i, o in enumerate(outs):
                if i < len(n.succ) and o is not None:
                    self.edge_out[(n.id, i)] = o
        # phi sources contributed by back edges
        for h in cfg.rpo:
            if h.kind != 'loophead':
                continue
            for (p, i) in h.preds:
                if pos[p.id] >= pos[h.id]:
                    s = self.edge_out.get((p.id, i))
                    if s is None:
                        continue
                    for m in self.loop_mod[h.id]:
                        if m == ('allmembers',):
                            continue
                        self._cur = s
                        v = s.env.get(m)
                        if v is None:
                            v = self.default(m)
                        if v != T.tbl.get(('phi', h.id, m)):
                            T.phi_src.setdefault((h.id, m), set()).add(v)
        self.converged = True
        self.passes = 1
        self.solve_facts()
        # loop bounds as terms (evaluated in the head state)
        for hid, meta in cfg.loops.items():
            iv = meta.get('iv')
            st = self.instate.get(hid)
            if iv and st is not None:
                s2 = st.copy()
                save = self.events.get(hid)
                self.loop_bound[hid] = (self.ev(iv['bound'], s2, hid), iv['op'],
                                        self.ev(iv['init'], s2, hid) if iv.get('init') else None, iv['step'])
                self.events[hid] = save or []

    def solve_facts(self):
        """phase 2: with the environments fixed, the must facts are the greatest fixpoint of
        in(n) = intersection of out(p->n) over live predecessor edges, out(e) = in(n) + gen(e);
        back edges start at TOP (not yet available), which is the optimistic initialisation a
        must-analysis needs.  Facts tagged all(L, .) that hold on every back edge of the canonical
        counting loop L are an inductive invariant of L and are kept at its head."""
        T = self.T
        cfg = self.cfg
        gen = {k: self.split_ite_facts(s.facts) for k, s in self.edge_out.items()}
        fin = {}
        fout = {}
        univ = {}
        for g in gen.values():
            for f in g:
                if T.op(f) == 'all':
                    for h in T.node(f)[1]:
                        univ[h] = univ.get(h, frozenset()) | {f}
        # all(L,.) facts established by *every* single iteration of canonical loop L (local must
        # analysis over the loop body starting from the empty set at the head): together with their
        # vacuous truth before the first iteration this makes them an inductive invariant of L.
        # Inner loops are solved first; their result is added at their heads.
        estab = {}
        self.gen = gen
        self.estab = estab
        for h in reversed(cfg.rpo):
            if h.kind != 'loophead' or not cfg.loops[h.id].get('iv'):
                continue
            res = self.local_must(h, lambda f: True)
            res = frozenset(f for f in (res or ()) if T.op(f) == 'all' and h.id in T.node(f)[1])
            if res:
                estab[h.id] = res
        changed = True
        rounds = 0
        while changed and rounds < 200:
            changed = False
            rounds += 1
            for n in cfg.rpo:
                if n.id not in self.instate:
                    continue
                cur = None
                if n is cfg.entry:
                    cur = frozenset()
                back = []
                for (p, i) in n.preds:
                    if (p.id, i) not in gen:
                        continue
                    o = fout.get((p.id, i))
                    if o is None:
                        continue
                    cur = o if cur is None else self.join_facts(cur, o)
                    if n.kind == 'loophead' and self.is_back(p, n):
                        back.append(o)
                if cur is None:
                    continue
                if n.kind == 'loophead' and cfg.loops[n.id].get('iv'):
                    # optimistic start: every all(L,.) fact the body can generate is assumed at the
                    # head until a back edge refutes it (decreasing iteration => greatest fixpoint)
                    cur = cur | estab.get(n.id, frozenset())
                if fin.get(n.id) == cur:
                    continue
                fin[n.id] = cur
                changed = True
                for i in range(len(n.succ)):
                    g = gen.get((n.id, i))
                    if g is not None:
                        # an edge whose condition contradicts a fact that already holds is infeasible
                        # (correlated repetitions of one test, e.g. the challenge bit tested twice)
                        if n.kind == 'branch' and any(self.neg_fact(f) in cur for f in g):
                            fout.pop((n.id, i), None)
                            continue
                        fout[(n.id, i)] = self.activate(cur | g)
        for nid, st in self.instate.items():
            st.facts = fin.get(nid, frozenset())
        for k, st in self.edge_out.items():
            st.facts = fout.get(k, frozenset())
        self.fact_rounds = rounds

    def split_ite_facts(self, fs):
        """x OP (c ? a : b)  is the pair of implications  c -> x OP a,  not c -> x OP b  (so that
        selecting the comparand first and comparing once equals comparing under each branch)"""
        T = self.T
        out = None
        for f in fs:
            r = self.split_ite(f)
            if r is not None:
                if out is None:
                    out = set(fs)
                out.discard(f)
                out.update(r)
        return frozenset(out) if out is not None else fs

    def split_ite(self, f):
        T = self.T
        n = T.node(f)
        if n[0] == 'all':
            r = self.split_ite(n[2])
            if r is None:
                return None
            return [T.mk('all', n[1], x) for x in r]
        if n[0] != 'rel':
            return None
        for side in (2, 3):
            x = n[side]
            wraps = []
            xn = T.node(x)
            while xn[0] == 'ix':
                wraps.append(xn[2])
                x = xn[1]
                xn = T.node(x)
            if xn[0] == 'ite':
                c, a, b = xn[1], xn[2], xn[3]
                for w in reversed(wraps):
                    a, b = T.mk('ix', a, w), T.mk('ix', b, w)
                other = n[5 - side]
                fa = self.rel(n[1], a, other) if side == 2 else self.rel(n[1], other, a)
                fb = self.rel(n[1], b, other) if side == 2 else self.rel(n[1], other, b)
                ct, cf = self.truth(c, True), self.truth(c, False)
                return [T.mk('if', ct, fa), T.mk('if', cf, fb)]
        return None

    def join_facts(self, A, B):
        """intersection, plus implications c -> F for a condition c that holds on one side while its
        negation holds on the other (keeps the correlation of a test that is repeated later, e.g.
        the challenge bit of a cut-and-choose round)"""
        T = self.T
        common = A & B
        ra, rb = A - common, B - common
        # an implication c -> F of one side also holds on the other side when that side refutes c
        # (vacuously) or establishes F
        keep = set()
        for mine, other in ((ra, B), (rb, A)):
            for f in mine:
                n = T.node(f)
                if n[0] == 'if' and (self.neg_fact(n[1]) in other or n[2] in other):
                    keep.add(f)
        if keep:
            common = common | keep
            ra, rb = ra - keep, rb - keep
        if not ra or not rb or len(ra) > 10 or len(rb) > 10:
            return common
        extra = set()
        for c in ra:
            nc = self.neg_fact(c)
            if nc == -1 and T.op(c) == 'all':
                # both polarities of one test inside one iteration carry the same loop tag
                inner = self.neg_fact(T.node(c)[2])
                nc = T.mk('all', T.node(c)[1], inner) if inner != -1 else -1
            if nc in rb:
                for F in ra:
                    if F != c and T.op(F) != 'if':
                        extra.add(self.mk_if(c, F))
                for F in rb:
                    if F != nc and T.op(F) != 'if':
                        extra.add(self.mk_if(nc, F))
        return common | extra if extra else common

    def mk_if(self, c, F):
        T = self.T
        n = T.node(F)
        cn = T.node(c)
        if cn[0] == 'all':
            # condition about the current index: the implication is quantified like the condition
            if n[0] == 'all':
                if T.node(n[2])[0] == 'if':
                    return F
                return T.mk('all', tuple(sorted(set(cn[1]) | set(n[1]))), T.mk('if', cn[2], n[2]))
            return T.mk('all', cn[1], T.mk('if', cn[2], F))
        if n[0] == 'all':
            inner = T.node(n[2])
            if inner[0] == 'if':
                return F
            return T.mk('all', n[1], T.mk('if', c, n[2]))
        return T.mk('if', c, F)

    def activate(self, fs):
        T = self.T
        add = None
        for f in fs:
            n = T.node(f)
            if n[0] == 'if':
                if n[1] in fs and n[2] not in fs:
                    if add is None:
                        add = set()
                    add.add(n[2])
            elif n[0] == 'all':
                inner = T.node(n[2])
                if inner[0] == 'if' and inner[1] in fs:
                    g = T.mk('all', n[1], inner[2])
                    if g not in fs:
                        if add is None:
                            add = set()
                        add.add(g)
        return fs | add if add else fs

    def neg_fact(self, f):
        T = self.T
        n = T.node(f)
        if n[0] == 'rel':
            return self.rel(NEG[n[1]], n[2], n[3])
        if n[0] == 'truthy':
            return T.mk('falsy', n[1])
        if n[0] == 'falsy':
            return T.mk('truthy', n[1])
        return -1

    def local_must(self, h, keep):
        """facts (filtered by keep) generated on every path from loop head h to its back edges
        within one iteration, starting from the empty set at the head"""
        T = self.T
        cfg = self.cfg
        gen = self.gen
        estab = self.estab
        body = self.loop_nodes.get(h.id, set())
        lin = {}
        lout = {}
        ch = True
        rr = 0
        while ch and rr < 100:
            ch = False
            rr += 1
            for n in cfg.rpo:
                if n.id not in body or n.id not in self.instate:
                    continue
                if n is h:
                    if rr > 1:
                        continue
                    cur = frozenset()
                else:
                    cur = None
                    for (p, i) in n.preds:
                        o = lout.get((p.id, i))
                        if o is not None:
                            cur = o if cur is None else self.join_facts(cur, o)
                    if cur is None:
                        continue
                    if n.kind == 'loophead':
                        cur = cur | frozenset(f for f in estab.get(n.id, ()) if keep(f))
                    if lin.get(n.id) == cur:
                        continue
                lin[n.id] = cur
                ch = True
                for i, sx in enumerate(n.succ):
                    g = gen.get((n.id, i))
                    if g is not None:
                        if n.kind == 'branch' and any(self.neg_fact(f) in cur for f in g):
                            lout.pop((n.id, i), None)
                            continue
                        lout[(n.id, i)] = self.activate(cur | frozenset(f for f in g if keep(f)))
        res = None
        for (p, i) in h.preds:
            if self.is_back(p, h) and (p.id, i) in gen:
                o = lout.get((p.id, i))
                if o is not None:
                    res = o if res is None else res & o
        return res

    def idom(self):
        """immediate dominators (Cooper-Harvey-Kennedy) of the reachable CFG"""
        if hasattr(self, '_idom'):
            return self._idom
        rpo = self.cfg.rpo
        pos = {n.id: i for i, n in enumerate(rpo)}
        idom = {rpo[0].id: rpo[0].id}
        changed = True
        while changed:
            changed = False
            for n in rpo[1:]:
                ps = [p.id for p, i in n.preds if p.id in idom]
                if not ps:
                    continue
                new = ps[0]
                for p in ps[1:]:
                    x, y = p, new
                    while x != y:
                        while pos[x] > pos[y]:
                            x = idom[x]
                        while pos[y] > pos[x]:
                            y = idom[y]
                    new = x
                if idom.get(n.id) != new:
                    idom[n.id] = new
                    changed = True
        self._idom = idom
        return idom

    def dominators_of(self, nid, limit=400):
        idom = self.idom()
        out = [nid]
        while idom.get(out[-1], out[-1]) != out[-1] and len(out) < limit:
            out.append(idom[out[-1]])
        return out

    def iteration_facts(self, hid):
        """facts every completed iteration of loop hid has established when it reaches the back edge"""
        h = [n for n in self.cfg.rpo if n.id == hid]
        if not h:
            return frozenset()
        return self.local_must(h[0], lambda f: True) or frozenset()

    def loops_on_accept_path(self):
        """loop heads that lie on some path to an accepting exit (all loops of the function that are
        not inside a rejecting handler clone)"""
        acc = set(n.id for n, _ in self.accept_exits())
        out = []
        for hid in self.cfg.loops:
            if hid not in self.instate:
                continue
            # can the head reach an accept exit?
            seen = set()
            st = [x for x in self.cfg.rpo if x.id == hid]
            ok = False
            while st:
                x = st.pop()
                if x.id in seen:
                    continue
                seen.add(x.id)
                if x.id in acc:
                    ok = True
                    break
                st.extend(x.succ)
            if ok:
                out.append(hid)
        return out

    def is_back(self, p, head):
        """edge p->head is a back edge iff p is reachable from head without leaving through head's exit;
        approximated by RPO position: a predecessor that comes later in RPO is a back edge"""
        pos = self._rpo_pos()
        return pos.get(p.id, 0) >= pos.get(head.id, 0)

    def _rpo_pos(self):
        if not hasattr(self, '_pos'):
            self._pos = {n.id: i for i, n in enumerate(self.cfg.rpo)}
        return self._pos

    # ------------------------------------------------------------------ queries
    def exits(self):
        """list of (node, kind, value term or None, state)"""
        out = []
        for n in self.cfg.exits:
            st = self.instate.get(n.id)
            if st is None:
                continue
            val = None
            for ev in self.events.get(n.id, []):
                if ev[0] == 'exitval':
                    val = ev[1]
            out.append((n, n.meta.get('kind'), val, st))
        return out

    def accept_exits(self):
        """exits of a bool function that can return true, each with its full fact set (the state's
        must facts plus 'value is truthy' when the value is not the literal true)"""
        T = self.T
        out = []
        for n, kind, val, st in self.exits():
            if kind != 'return' or val is None:
                continue
            vn = T.node(val)
            if vn[0] == 'bool':
                if vn[1]:
                    out.append((n, st.facts))
                continue
            if vn[0] == 'int':
                if vn[1]:
                    out.append((n, st.facts))
                continue
            tv = self.truth(val, True)
            if any(self.neg_fact(g) in st.facts for g in self.conj_facts(tv, full=True)):
                continue          # the value returned is known to be false on this path
            out.append((n, st.facts | self.conj_facts(tv)))
        return out

    def accept_facts(self):
        ex = self.accept_exits()
        if not ex:
            return None
        # joined like paths meeting at one return: what all accepting exits share, plus the
        # implications c -> F when one exit was reached under c and another under not-c
        fs = None
        for n, f in sorted(ex, key=lambda x: x[0].id):
            fs = frozenset(f) if fs is None else frozenset(self.join_facts(fs, frozenset(f)))
        return set(fs)

    def reject_exits(self):
        T = self.T
        out = []
        for n, kind, val, st in self.exits():
            if kind == 'throw':
                out.append((n, st))
            elif kind == 'return' and val is not None:
                vn = T.node(val)
                if (vn[0] == 'bool' and not vn[1]) or (vn[0] == 'int' and vn[1] == 0):
                    out.append((n, st))
                elif vn[0] not in ('bool', 'int'):
                    # a computed verdict (`return check(...)`): this exit refuses whenever the value is false, unless the
                    # path already knows it to be true
                    tv = self.conj_facts(self.truth(val, True), full=True)
                    if not (tv and all(g in st.facts for g in tv)):
                        out.append((n, st))
        return out

    def all_events(self, kind=None):
        for nid, evs in self.events.items():
            for ev in evs:
                if kind is None or ev[0] == kind:
                    yield nid, ev

    def show_fact(self, f):
        return self.T.show(f, 8)
