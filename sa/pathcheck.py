"""Must-pass-through checks with boolean flags in the path condition: which target nodes are
reachable from the entry when given edges are cut, following only the feasible side of branches
on tracked local flags (variables that are only ever assigned boolean literals) and on assumed
member flags."""


def flag_vars(a):
    """local variable ids assigned only boolean literals (declaration initialiser or '=')"""
    from .facts import walk
    cand = {}
    bad = set()
    for e in walk(a.func.get('body')):
        if e.get('k') == 'decl':
            for v in e['v']:
                if v['t'] == 'bool':
                    ini = v.get('init')
                    if ini is None or ini.get('k') == 'bool':
                        cand[v['id']] = v['n']
                    else:
                        bad.add(v['id'])
        if e.get('k') == 'bin' and e.get('op') == '=' and e['a'][0].get('k') == 'var':
            if e['a'][1].get('k') != 'bool':
                bad.add(e['a'][0]['id'])
        if e.get('k') == 'un' and e.get('op') == '&' and isinstance(e['a'][0], dict) and e['a'][0].get('k') == 'var':
            bad.add(e['a'][0]['id'])
    return {k: v for k, v in cand.items() if k not in bad}


def reach(a, targets, cut=(), member_flags=None):
    """set of target node ids reachable from entry without using the cut edges"""
    flags = flag_vars(a)
    member_flags = member_flags or {}
    cut = set(cut)
    cfg = a.cfg
    start = (cfg.entry.id, frozenset())
    byid = {n.id: n for n in cfg.rpo}
    seen = set([start])
    st = [start]
    hit = set()
    while st:
        nid, env = st.pop()
        n = byid[nid]
        if nid in targets:
            hit.add(nid)
        envd = dict(env)
        succs = list(enumerate(n.succ))
        if n.kind == 'stmt':
            e = n.e
            if e.get('k') == 'vardecl' and e['v']['id'] in flags:
                ini = e['v'].get('init')
                envd[e['v']['id']] = bool(ini['v']) if (ini is not None and 'v' in ini) else None
            elif e.get('k') == 'bin' and e.get('op') == '=' and e['a'][0].get('k') == 'var' and e['a'][0]['id'] in flags:
                rhs = e['a'][1]
                vid = e['a'][0]['id']
                if isinstance(rhs, dict) and rhs.get('k') in ('bool', 'int') and 'v' in rhs:
                    envd[vid] = bool(rhs['v'])
                elif isinstance(rhs, dict) and rhs.get('k') == 'bin' and rhs.get('op') == '&&':
                    # flag = !(C) && flag  (the CFG's reading of `if (C) flag = false;`)
                    envd[vid] = False if envd.get(vid) is False else None
                elif isinstance(rhs, dict) and rhs.get('k') == 'bin' and rhs.get('op') == '||':
                    envd[vid] = True if envd.get(vid) is True else None
                else:
                    envd[vid] = None
        elif n.kind == 'branch':
            c = n.e
            val = None
            if c.get('k') == 'var' and c['id'] in flags:
                val = envd.get(c['id'])
            elif c.get('k') == 'mem' and isinstance(c.get('o'), dict) and c['o'].get('k') == 'this' and c['n'] in member_flags:
                val = member_flags[c['n']]
            if val is True:
                succs = [(0, n.succ[0])]
            elif val is False:
                succs = [(1, n.succ[1])]
        env2 = frozenset((k, v) for k, v in envd.items() if v is not None)
        for i, s in succs:
            if (nid, i) in cut:
                continue
            key = (s.id, env2)
            if key not in seen:
                seen.add(key)
                st.append(key)
    return hit
