"""Piecewise finite-domain evaluation (A8) of extracted *loop-free* definitions: a function body
consisting of if/else chains, local declarations, assignments, push_back on an output vector and
return is read as a piecewise definition and evaluated for given argument values with evalx.  It
refuses loops, calls (other than size / operator[] / push_back) and anything with side effects
outside its parameters: it is table evaluation of a definition, not execution of program paths
through the library."""
from . import evalx


class Ret(Exception):
    def __init__(self, v):
        self.v = v


class Brk(Exception):
    pass


class PieceEval:
    def __init__(self, func, args, members=None, stubs=None, prog=None, depth=0):
        self.stubs = stubs or {}
        self.prog = prog
        self.depth = depth
        self._members = members or {}
        """args: parameter name -> int | list (vector of ints, also used for output vectors)"""
        self.f = func
        self.env = {}
        self.vec = {}
        for p in func['params']:
            v = args.get(p['n'])
            if isinstance(v, list):
                self.vec[p['id']] = v
            elif v is not None:
                self.env[p['id']] = evalx.wrap(int(v), p['t'].replace('&', '').strip())
        self.types = {p['id']: p['t'].replace('&', '').strip() for p in func['params']}
        for k, v in self._members.items():
            self.env[('m', k)] = v

    def call(self, e, env):
        k = e.get('k')
        if k == 'opcall' and e.get('op') == '[]':
            b, i = e['a']
            if b.get('k') == 'var' and b['id'] in self.vec:
                idx = evalx.ev(i, self.env, self.call)
                v = self.vec[b['id']]
                if not (0 <= idx < len(v)):
                    raise evalx.NotEvaluable('index %d out of range' % idx)
                return v[idx]
        if k == 'mcall' and e['f'].split('::')[-1] in ('size', 'length') and e['o'].get('k') == 'var' and e['o']['id'] in self.vec:
            return len(self.vec[e['o']['id']])
        if k == 'mcall' and e['f'].split('::')[-1] == 'empty' and e['o'].get('k') == 'var' and e['o']['id'] in self.vec:
            return int(len(self.vec[e['o']['id']]) == 0)
        if k == 'call' and e.get('f') in self.stubs:
            return self.stubs[e['f']]
        raise evalx.NotEvaluable('call ' + e.get('f', '?'))

    def ev(self, e):
        return evalx.ev(e, self.env, self.call)

    def stmt(self, s):
        if s is None:
            return
        k = s.get('k')
        if k == 'block':
            for x in s['s']:
                self.stmt(x)
        elif k == 'if':
            if self.ev(s['c']):
                self.stmt(s['t'])
            else:
                self.stmt(s.get('e'))
        elif k == 'decl':
            for v in s['v']:
                if v.get('init') is not None:
                    self.env[v['id']] = evalx.wrap(self.ev(v['init']), v['t'])
                    self.types[v['id']] = v['t']
        elif k == 'return':
            raise Ret(self.ev(s['e']) if s.get('e') is not None else None)
        elif k == 'bin' and s.get('op') == '=' and s['a'][0].get('k') == 'var':
            vid = s['a'][0]['id']
            self.env[vid] = evalx.wrap(self.ev(s['a'][1]), self.types.get(vid, s['a'][0].get('t')))
        elif k == 'bin' and s.get('op') == '=' and s['a'][0].get('k') == 'mem':
            self.env[('m', s['a'][0]['n'])] = self.ev(s['a'][1])
        elif k == 'bin' and s.get('op') == ',':
            self.stmt(s['a'][0])
            self.stmt(s['a'][1])
        elif k == 'mcall' and s['f'].split('::')[-1] == 'push_back' and s['o'].get('k') == 'var' and s['o']['id'] in self.vec:
            self.vec[s['o']['id']].append(evalx.wrap(self.ev(s['a'][0]), 'unsigned char'))
        elif k == 'opcall' and s.get('op') == '<<':
            pass        # diagnostics
        elif k == 'mcall' and s['f'].split('::')[-1] == 'insert' and s['o'].get('k') == 'var' and s['o']['id'] in self.vec and len(s['a']) == 3:
            # v.insert(v.end(), w.begin(), w.end()): append a whole vector
            def unconv(x):
                while isinstance(x, dict) and x.get('k') == 'ctor' and len(x.get('a', [])) == 1:
                    x = x['a'][0]       # iterator conversion
                return x

            def whole(x, which):
                x = unconv(x)
                return isinstance(x, dict) and x.get('k') == 'mcall' and x['f'].split('::')[-1] == which and x['o'].get('k') == 'var'
            a0, a1, a2 = [unconv(x) for x in s['a']]
            if whole(a0, 'end') and a0['o']['id'] == s['o']['id'] and whole(a1, 'begin') and whole(a2, 'end') and a1['o']['id'] == a2['o']['id'] and a1['o']['id'] in self.vec:
                self.vec[s['o']['id']].extend(self.vec[a1['o']['id']])
            else:
                raise evalx.NotEvaluable('insert form')
        elif k == 'call' and self.prog is not None and s.get('fid') in self.prog.funcs and self.depth < 3:
            # a call of another loop-free definition of the library: evaluate it piecewise as well
            g = self.prog.funcs[s['fid']]
            args = {}
            sub = PieceEval(g, {}, prog=self.prog, depth=self.depth + 1, stubs=self.stubs)
            for prm, ae in zip(g['params'], s['a']):
                if isinstance(ae, dict) and ae.get('k') == 'var' and ae['id'] in self.vec:
                    sub.vec[prm['id']] = self.vec[ae['id']]
                else:
                    sub.env[prm['id']] = evalx.wrap(self.ev(ae), prm['t'].replace('&', '').strip())
            sub.run()
        elif k == 'switch':
            # a switch over a value is a piecewise definition as well: run from the matching label
            # (or default) with fall-through until break
            val = self.ev(s['c'])
            body = s['b']['s'] if isinstance(s.get('b'), dict) and s['b'].get('k') == 'block' else [s.get('b')]
            start = None
            dflt = None

            def labels(x):
                out = []
                while isinstance(x, dict) and x.get('k') in ('case', 'default'):
                    out.append(x)
                    x = x.get('s')
                return out, x
            for i, x in enumerate(body):
                labs, _ = labels(x)
                for lab in labs:
                    if lab['k'] == 'default':
                        dflt = i if dflt is None else dflt
                    else:
                        lo = self.ev(lab['v'])
                        hi = self.ev(lab['v2']) if lab.get('v2') is not None else lo
                        if lo <= val <= hi and start is None:
                            start = i
            if start is None:
                start = dflt
            if start is not None:
                try:
                    for x in body[start:]:
                        _, inner = labels(x)
                        self.stmt(inner)
                except Brk:
                    pass
        elif k == 'break':
            raise Brk()
        elif k in ('for', 'while', 'do', 'forrange', 'try'):
            raise evalx.NotEvaluable('not a loop-free definition: ' + k)
        else:
            raise evalx.NotEvaluable('statement ' + str(k))

    def run(self):
        try:
            self.stmt(self.f['body'])
        except Ret as r:
            return r.v
        return None

    def out(self, pname):
        for p in self.f['params']:
            if p['n'] == pname:
                return self.vec.get(p['id'], self.env.get(p['id']))
        return None
