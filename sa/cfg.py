"""Control-flow graph built from the structured statement tree emitted by tmcgfacts.

Short-circuit conditions are decomposed into branch nodes; `throw e` inside a try block with a
matching handler is wired to a fresh clone of the handler body (so `throw false` followed by
`catch (bool r) { cleanup; return r; }` is exactly `cleanup; return false`); loops get a
dedicated head node carrying the induction variable of canonical counting loops.

Calls of *unit-private helpers* (free functions with internal linkage -- static or in an anonymous
namespace -- that have a body) are expanded in place: the helper's body is built into the caller's
graph with reference / pointer parameters replaced by the argument expressions and value
parameters bound as locals; a `return e` of a helper called in a branch condition continues at the
caller's true / false target (so a block of checks moved into `static bool helper(...)` yields the
same facts as the block itself), otherwise at the statement after the call.  Depth <= 3, no
recursion."""
import copy


class Node:
    __slots__ = ('id', 'kind', 'e', 'succ', 'line', 'meta', 'preds')

    def __init__(self, nid, kind, e=None, line=0, meta=None):
        self.id = nid
        self.kind = kind      # stmt | branch | switch | exit | loophead | nop | bind
        self.e = e
        self.succ = []
        self.line = line
        self.meta = meta or {}
        self.preds = []

    def __repr__(self):
        return 'N%d:%s@%d' % (self.id, self.kind, self.line)


class Ctx:
    __slots__ = ('brk', 'cont', 'handlers', 'ret')

    def __init__(self, brk=None, cont=None, handlers=(), ret=None):
        self.brk = brk
        self.cont = cont
        self.handlers = handlers   # tuple of (handler_list, after_node, outer_ctx), innermost last
        self.ret = ret             # inside an expanded helper: ('branch', t, f) | ('goto', nxt) | ('assign', lhs, nxt)


def strip_casts(e):
    while isinstance(e, dict) and e.get('k') == 'cast':
        e = e.get('e')
    return e


def pure_lvalue(e):
    """an access path without side effects: may be substituted for a reference / pointer parameter"""
    e = strip_casts(e)
    if not isinstance(e, dict):
        return False
    k = e.get('k')
    if k in ('var', 'this'):
        return True
    if k == 'mem':
        return pure_lvalue(e.get('o'))
    if k == 'idx' or (k == 'opcall' and e.get('op') == '[]' and len(e.get('a', [])) == 2):
        i = strip_casts(e['a'][1])
        return pure_lvalue(e['a'][0]) and isinstance(i, dict) and i.get('k') in ('var', 'int')
    if k == 'un' and e.get('op') in ('*', '&'):
        return pure_lvalue(e['a'][0])
    return False


def subst_tree(x, mapping):
    if isinstance(x, dict):
        if x.get('k') == 'var' and x.get('id') in mapping:
            return copy.deepcopy(mapping[x['id']])
        return {k: subst_tree(v, mapping) for k, v in x.items()}
    if isinstance(x, list):
        return [subst_tree(v, mapping) for v in x]
    return x


def line_of(s):
    if isinstance(s, dict):
        if 'l' in s:
            return s['l']
        for v in s.values():
            if isinstance(v, (dict, list)):
                r = line_of(v)
                if r:
                    return r
    elif isinstance(s, list):
        for v in s:
            r = line_of(v)
            if r:
                return r
    return 0


class CFG:
    def __init__(self, func, prog=None):
        self.func = func
        self.prog = prog
        self.inl_stack = [func.get('key')]
        self.inlined = []     # qualified names of the helpers expanded into this graph
        self.nodes = []
        self.loops = {}   # loophead id -> meta
        self.ret_bool = func.get('ret') == 'bool'
        self.end = self.new('exit', None, func.get('end', 0), {'kind': 'end'})
        body = func.get('body')
        entry = self.build(body, self.end, Ctx()) if body else self.end
        # constructor initialisers run first
        for ini in reversed(func.get('inits', [])):
            n = self.new('stmt', {'k': 'ctorinit', 'm': ini['m'], 'base': ini['base'], 'e': ini['e']}, func.get('line', 0))
            n.succ = [entry]
            entry = n
        self.entry = entry
        if self.ret_bool:
            self.tail_duplicate()
        self.finish()

    def new(self, kind, e=None, line=0, meta=None):
        n = Node(len(self.nodes), kind, e, line, meta)
        self.nodes.append(n)
        return n

    def tail_duplicate(self):
        """`bool ok = ...; if (ok) ok = check(...); cleanup; return ok;` -- the straight-line tail
        that leads from a join to `return <variable>` is duplicated per incoming edge, so that each
        way of reaching the return keeps its own value of the flag (the linear-flag style is then
        analysed exactly like the early-return and the throw/catch styles).  Bounded: straight-line
        tails of at most 40 nodes, at most 24 copies per function, three rounds."""
        copies = 0
        for _round in range(3):
            preds = {}
            seen = set()
            st = [self.entry]
            while st:
                n = st.pop()
                if n.id in seen:
                    continue
                seen.add(n.id)
                for i, x in enumerate(n.succ):
                    preds.setdefault(x.id, []).append((n, i))
                    st.append(x)
            changed = False
            for e in [n for n in self.nodes if n.id in seen and n.kind == 'exit' and n.meta.get('kind') == 'return']:
                v = e.e
                if not isinstance(v, dict) or v.get('k') in ('bool', 'int'):
                    continue
                # walk back through the straight-line tail
                chain = [e]
                cur = e
                while len(preds.get(cur.id, [])) == 1:
                    p, i = preds[cur.id][0]
                    if p.kind not in ('stmt', 'nop', 'bind') or len(p.succ) != 1:
                        break
                    chain.append(p)
                    cur = p
                    if len(chain) > 40:
                        break
                ps = preds.get(cur.id, [])
                if len(ps) < 2 or len(chain) > 40 or copies + len(ps) > 24:
                    continue
                if any(p.kind == 'loophead' for p, i in ps):
                    continue
                chain.reverse()           # head ... exit
                for (p, i) in ps[1:]:
                    nxt = None
                    clones = []
                    for n in chain:
                        c = self.new(n.kind, n.e, n.line, dict(n.meta))
                        clones.append(c)
                    for a, b in zip(clones, clones[1:]):
                        a.succ = [b]
                    p.succ[i] = clones[0]
                    copies += 1
                    changed = True
            if not changed:
                break

    def finish(self):
        # reachable subgraph, preds, reverse post-order
        seen = set()
        order = []
        st = [(self.entry, 0)]
        seen.add(self.entry.id)
        while st:
            n, i = st.pop()
            if i < len(n.succ):
                st.append((n, i + 1))
                s = n.succ[i]
                if s.id not in seen:
                    seen.add(s.id)
                    st.append((s, 0))
            else:
                order.append(n)
        order.reverse()
        self.rpo = order
        for n in order:
            n.preds = []
        for n in order:
            for i, s in enumerate(n.succ):
                s.preds.append((n, i))
        self.exits = [n for n in order if n.kind == 'exit']

    # ------------------------------------------------------------------ conditions
    def helper(self, e):
        """the unit-private helper a call expression invokes, if it can be expanded here"""
        e = strip_casts(e)
        if self.prog is None or not isinstance(e, dict) or not e.get('fid'):
            return None
        if e.get('k') == 'mcall':
            # a private helper method called on this very object
            o = strip_casts(e.get('o'))
            if not (isinstance(o, dict) and o.get('k') == 'this'):
                return None
        elif e.get('k') != 'call':
            return None
        g = self.prog.funcs.get(e['fid'])
        if not self.prog.is_helper(g):
            return None
        if g['key'] in self.inl_stack or len(self.inl_stack) > 3:
            return None
        if len(e.get('a', [])) != len(g.get('params', [])):
            return None
        return g

    def expand(self, call, g, ctx, ret, ln):
        """build the body of helper g for this call; returns the entry node"""
        call = strip_casts(call)
        mapping = {}
        binds = []
        for p, a in zip(g['params'], call['a']):
            t = p['t']
            byref = '&' in t or t.rstrip().endswith('*') or t.rstrip().endswith('[]')
            if byref and pure_lvalue(a):
                mapping[p['id']] = strip_casts(a) if '&' in t else a
            else:
                binds.append({'k': 'vardecl', 'v': {'n': p['n'], 'id': p['id'], 't': t, 'init': a}})
        body = subst_tree(g['body'], mapping) if mapping else g['body']
        self.inl_stack.append(g['key'])
        self.inlined.append(g['q'])
        try:
            # falling off the end of the helper continues like `return;`
            if ret[0] == 'branch':
                end = ret[2]
            else:
                end = ret[-1]
            entry = self.build(body, end, Ctx(None, None, ctx.handlers, ret))
        finally:
            self.inl_stack.pop()
        for b in reversed(binds):
            n = self.new('stmt', b, ln, {'inl': g['q']})
            n.succ = [entry]
            entry = n
        return entry

    def algo(self, e):
        """(mode, container expr, lambda) for std::all_of / any_of / none_of / for_each over a whole
        container with a lambda that has no loops of its own"""
        e = strip_casts(e)
        if not isinstance(e, dict) or e.get('k') != 'call' or len(e.get('a', [])) != 3:
            return None
        name = e.get('f', '').split('::')[-1]
        if name not in ('all_of', 'any_of', 'none_of', 'for_each') or not e.get('f', '').startswith('std::'):
            return None

        def unwrap(x):
            x = strip_casts(x)
            while isinstance(x, dict) and x.get('k') == 'ctor' and len(x.get('a', [])) == 1:
                x = strip_casts(x['a'][0])
            return x
        b, en, lam = unwrap(e['a'][0]), unwrap(e['a'][1]), unwrap(e['a'][2])
        if not (isinstance(b, dict) and b.get('k') == 'mcall' and b['f'].split('::')[-1] in ('begin', 'cbegin') and pure_lvalue(b.get('o'))):
            return None
        if not (isinstance(en, dict) and en.get('k') == 'mcall' and en['f'].split('::')[-1] in ('end', 'cend') and _same_expr(en.get('o'), b['o'])):
            return None
        if not (isinstance(lam, dict) and lam.get('k') == 'lambda' and len(lam.get('params', [])) == 1):
            return None
        from .facts import walk
        if any(x.get('k') in ('for', 'while', 'do', 'forrange') for x in walk(lam.get('b'))):
            return None
        return name, b, lam

    def expand_algo(self, spec, t, f, ctx, ln):
        """std::all_of(X.begin(), X.end(), [](T x){ body })  ==  for (i < X.size()) { T x = X[i]; body }
        where `return e` of the body leaves the loop towards f (all_of), t (any_of), f (none_of)"""
        name, b, lam = spec
        cont = b['o']
        cls = b['f'].rsplit('::', 1)[0]
        p = lam['params'][0]
        ivar = {'k': 'var', 'n': '__algo_index', 'id': -abs(p['id']) - 1000000, 't': 'unsigned long'}
        elem = {'k': 'opcall', 'op': '[]', 'f': cls + '::operator[]', 'a': [copy.deepcopy(cont), dict(ivar)], 't': p.get('t', '').replace('&', '').replace('const ', '').strip(), 'l': ln}
        decl = {'k': 'decl', 'l': ln, 'v': [{'n': p['n'], 'id': p['id'], 't': p['t'], 'init': elem}]}
        size = {'k': 'mcall', 'f': cls + '::size', 'o': copy.deepcopy(cont), 'a': [], 'fid': cls + '::size()const', 't': 'unsigned long', 'l': ln}
        s = {'k': 'for', 'l': ln,
             'i': {'k': 'decl', 'l': ln, 'v': [{'n': ivar['n'], 'id': ivar['id'], 't': 'unsigned long', 'init': {'k': 'int', 'v': 0, 't': 'int'}}]},
             'c': {'k': 'bin', 'op': '<', 'a': [dict(ivar), size], 't': 'bool', 'l': ln},
             'n': {'k': 'un', 'op': 'post++', 'a': [dict(ivar)], 't': 'unsigned long', 'l': ln},
             'b': {'k': 'block', 's': [decl, lam['b']]}}
        if name == 'all_of':
            done, leave = t, f
        elif name == 'any_of':
            done, leave = f, t
        elif name == 'none_of':
            done, leave = t, f
        else:
            done, leave = t, t
        head = self.new('loophead', None, ln, {'loop': 'for'})
        meta = {'kind': 'for', 'line': ln, 'iv': None}
        self.loops[head.id] = meta
        return self.loop_for(s, head, meta, done, Ctx(None, None, ctx.handlers, ('lambda', name, leave)), ln)

    def branch(self, c, t, f, line=0, ctx=None):
        if isinstance(c, dict):
            k = c.get('k')
            spec = self.algo(c) if ctx is not None else None
            if spec is not None and spec[0] != 'for_each':
                return self.expand_algo(spec, t, f, ctx, line)
            if k == 'bin' and c['op'] == '||':
                return self.branch(c['a'][0], t, self.branch(c['a'][1], t, f, line, ctx), line, ctx)
            if k == 'bin' and c['op'] == '&&':
                return self.branch(c['a'][0], self.branch(c['a'][1], t, f, line, ctx), f, line, ctx)
            if k == 'un' and c['op'] == '!':
                return self.branch(c['a'][0], f, t, line, ctx)
            if k == 'cast' and c.get('t') in ('bool', 'const bool'):
                inner = strip_casts(c)
                if self.helper(inner) is not None:
                    return self.branch(inner, t, f, line, ctx)
            g = self.helper(c)
            if g is not None and ctx is not None and g.get('ret') in ('bool', 'const bool'):
                return self.expand(c, g, ctx, ('branch', t, f), line)
            if k == 'bool':
                return t if c['v'] else f
            if k == 'int' and not c.get('n'):
                return t if c['v'] else f
        if c is None:
            return t
        n = self.new('branch', c, line_of(c) or line)
        n.succ = [t, f]
        return n

    # ------------------------------------------------------------------ statements
    def seq(self, stmts, nxt, ctx):
        for s in reversed(stmts):
            nxt = self.build(s, nxt, ctx)
        return nxt

    def build(self, s, nxt, ctx):
        if s is None:
            return nxt
        k = s.get('k')
        ln = s.get('l', 0) or line_of(s)
        if k == 'block':
            return self.seq(s['s'], nxt, ctx)
        if k == 'if' and not s.get('e') and not s.get('init') and not s.get('cv'):
            # `if (C) flag = false;`  is  `flag = !(C) && flag;`  (and `= true` is `flag = (C) || flag;`):
            # the same value on every path, with C evaluated exactly as before -- written as one
            # assignment so that the flag carries the conjunction of the checks it has passed
            th = s['t']
            while isinstance(th, dict) and th.get('k') == 'block' and len(th.get('s', [])) == 1:
                th = th['s'][0]
            if isinstance(th, dict) and th.get('k') == 'bin' and th.get('op') == '=':
                lhs, rhs = th['a'][0], strip_casts(th['a'][1])
                if isinstance(lhs, dict) and lhs.get('k') == 'var' and lhs.get('t') == 'bool' and not lhs.get('p') and \
                        isinstance(rhs, dict) and rhs.get('k') in ('bool', 'int') and not rhs.get('n'):
                    val = bool(rhs.get('v'))
                    cond = s['c']
                    if not val:
                        new = {'k': 'bin', 'op': '&&', 't': 'bool', 'a': [{'k': 'un', 'op': '!', 't': 'bool', 'a': [cond]}, dict(lhs)]}
                    else:
                        new = {'k': 'bin', 'op': '||', 't': 'bool', 'a': [cond, dict(lhs)]}
                    n = self.new('stmt', {'k': 'bin', 'op': '=', 't': 'bool', 'a': [dict(lhs), new], 'l': ln}, ln)
                    n.succ = [nxt]
                    return n
        if k == 'if':
            t = self.build(s['t'], nxt, ctx)
            f = self.build(s['e'], nxt, ctx) if s.get('e') else nxt
            b = self.branch(s['c'], t, f, ln, ctx)
            if s.get('cv'):
                b = self.build(s['cv'], b, ctx)
            if s.get('init'):
                b = self.build(s['init'], b, ctx)
            return b
        if k in ('while', 'for', 'do', 'forrange'):
            return self.loop(s, nxt, ctx, ln)
        if k == 'switch':
            sw = self.new('switch', s['c'], ln, {'cases': []})
            cases = []
            c2 = Ctx(nxt, ctx.cont, ctx.handlers, ctx.ret)
            self._sw_stack = getattr(self, '_sw_stack', [])
            self._sw_stack.append(cases)
            self.build(s['b'], nxt, c2)
            self._sw_stack.pop()
            default = nxt
            vals = []
            for v, entry in cases:
                if v is None:
                    default = entry
                else:
                    vals.append(v)
                    sw.succ.append(entry)
            sw.meta['cases'] = vals
            sw.succ.append(default)
            return sw
        if k == 'case':
            entry = self.build(s['s'], nxt, ctx)
            self._sw_stack[-1].append(((s['v'], s.get('v2')), entry))
            return entry
        if k == 'default':
            entry = self.build(s['s'], nxt, ctx)
            self._sw_stack[-1].append((None, entry))
            return entry
        if k == 'break':
            return ctx.brk if ctx.brk is not None else nxt
        if k == 'continue':
            return ctx.cont if ctx.cont is not None else nxt
        if k == 'return' and ctx.ret is not None and ctx.ret[0] == 'lambda':
            # inside the predicate of std::all_of / any_of / none_of / for_each read as a loop
            e = s.get('e')
            mode, target = ctx.ret[1], ctx.ret[2]
            again = ctx.cont
            if mode == 'for_each' or e is None:
                return again
            if mode == 'all_of':
                return self.branch(e, again, target, ln, ctx)
            return self.branch(e, target, again, ln, ctx)      # any_of: found -> target(true); none_of: found -> target(false)
        if k == 'return' and ctx.ret is not None:
            e = s.get('e')
            r = ctx.ret
            if r[0] == 'branch':
                if e is None:
                    return r[2]
                return self.branch(e, r[1], r[2], ln, ctx)
            if r[0] == 'assign' and e is not None:
                n = self.new('stmt', {'k': 'bin', 'op': '=', 'a': [r[1], e], 'l': ln}, ln)
                n.succ = [r[2]]
                return n
            if e is not None:
                n = self.new('stmt', e, ln)
                n.succ = [r[-1]]
                return n
            return r[-1]
        if k == 'return':
            e = s.get('e')
            if e is not None and self.ret_bool and self.helper(e) is not None and self.helper(e).get('ret') in ('bool', 'const bool'):
                t = self.new('exit', {'k': 'bool', 'v': True}, ln, {'kind': 'return'})
                f = self.new('exit', {'k': 'bool', 'v': False}, ln, {'kind': 'return'})
                return self.branch(e, t, f, ln, ctx)
            if e is not None and self.ret_bool and isinstance(e, dict) and (
                    (e.get('k') == 'bin' and e['op'] in ('&&', '||')) or (e.get('k') == 'un' and e['op'] == '!')):
                t = self.new('exit', {'k': 'bool', 'v': True}, ln, {'kind': 'return'})
                f = self.new('exit', {'k': 'bool', 'v': False}, ln, {'kind': 'return'})
                return self.branch(e, t, f, ln, ctx)
            return self.new('exit', e, ln, {'kind': 'return'})
        if k == 'throw':
            return self.throw(s, ctx, ln)
        if k == 'try':
            c2 = Ctx(ctx.brk, ctx.cont, ctx.handlers + ((s['h'], nxt, ctx),), ctx.ret)
            return self.build(s['b'], nxt, c2)
        if k == 'decl':
            for v in reversed(s['v']):
                g = self.helper(v.get('init')) if v.get('init') is not None else None
                if g is not None:
                    # T x = helper(...): declare x, then expand the helper with `return e` -> x = e
                    lhs = {'k': 'var', 'n': v['n'], 'id': v['id'], 't': v['t']}
                    nxt = self.expand(v['init'], g, ctx, ('assign', lhs, nxt), ln)
                    v2 = {kk: vv for kk, vv in v.items() if kk != 'init'}
                    n = self.new('stmt', {'k': 'vardecl', 'v': v2}, ln)
                    n.succ = [nxt]
                    nxt = n
                    continue
                n = self.new('stmt', {'k': 'vardecl', 'v': v}, ln)
                n.succ = [nxt]
                nxt = n
            return nxt
        if k == 'label':
            return self.build(s['s'], nxt, ctx)
        if k == 'bin' and s['op'] == ',':
            return self.build(s['a'][0], self.build(s['a'][1], nxt, ctx), ctx)
        if k == 'cond' and isinstance(s['a'][1], dict) and s['a'][1].get('k') == 'throw' or \
                k == 'cond' and isinstance(s['a'][2], dict) and s['a'][2].get('k') == 'throw':
            t = self.build(s['a'][1], nxt, ctx)
            f = self.build(s['a'][2], nxt, ctx)
            return self.branch(s['a'][0], t, f, ln, ctx)
        spec = self.algo(s)
        if spec is not None and spec[0] == 'for_each':
            return self.expand_algo(spec, nxt, nxt, ctx, ln)
        # a helper called for its effects, or whose verdict is stored in a variable
        g = self.helper(s)
        if g is not None:
            return self.expand(s, g, ctx, ('goto', nxt), ln)
        if k == 'bin' and s.get('op') == '=' and pure_lvalue(s['a'][0]):
            g = self.helper(s['a'][1])
            if g is not None:
                return self.expand(s['a'][1], g, ctx, ('assign', s['a'][0], nxt), ln)
        # plain expression statement (or unknown statement)
        n = self.new('stmt', s, ln)
        n.succ = [nxt]
        return n

    def throw(self, s, ctx, ln):
        tt = s.get('tt')
        hs = ctx.handlers
        for depth in range(len(hs) - 1, -1, -1):
            handlers, after, octx = hs[depth]
            for h in handlers:
                if h['t'] == '...' or (tt is not None and h['t'].replace('const ', '').replace(' &', '') == tt):
                    body = self.build(h['b'], after, octx)
                    if h.get('v'):
                        b = self.new('bind', {'v': h['v'], 'e': s.get('e')}, ln)
                        b.succ = [body]
                        return b
                    return body
        return self.new('exit', s.get('e'), ln, {'kind': 'throw', 'tt': tt})

    def loop(self, s, nxt, ctx, ln):
        k = s['k']
        head = self.new('loophead', None, ln, {'loop': k})
        meta = {'kind': k, 'line': ln, 'iv': None}
        self.loops[head.id] = meta
        if k == 'while':
            body = self.build(s['b'], head, Ctx(nxt, head, ctx.handlers, ctx.ret))
            head.succ = [self.branch(s['c'], body, nxt, ln, ctx)]
            meta['cond'] = s['c']
            return head
        if k == 'do':
            condentry_holder = self.new('nop', None, ln)
            body = self.build(s['b'], condentry_holder, Ctx(nxt, condentry_holder, ctx.handlers, ctx.ret))
            condentry_holder.succ = [self.branch(s['c'], head, nxt, ln, ctx)]
            head.succ = [body]
            meta['cond'] = s['c']
            return head
        if k == 'for':
            ds = desugar_iterator_loop(s)
            if ds is not None:
                s = ds
            return self.loop_for(s, head, meta, nxt, ctx, ln)
        if k == 'forrange' and pure_lvalue(s.get('r')) and isinstance(s.get('v'), dict) and 'id' in s['v']:
            # for (T x : X) body   is read as   for (size_t i = 0; i < X.size(); i++) { T x = X[i]; body }
            v = s['v']
            rt = strip_casts(s['r']).get('t', '') or ''
            cls = rt.replace('const ', '').replace(' &', '').strip()
            ivar = {'k': 'var', 'n': '__range_index', 'id': -abs(v['id']) - 1, 't': 'unsigned long'}
            elem = {'k': 'opcall', 'op': '[]', 'f': cls + '::operator[]', 'a': [copy.deepcopy(s['r']), dict(ivar)], 't': v.get('t', '').replace('&', '').strip(), 'l': ln}
            decl = {'k': 'decl', 'l': ln, 'v': [dict(v, init=elem)]}
            body = {'k': 'block', 's': [decl, s['b']]}
            size = {'k': 'mcall', 'f': cls + '::size', 'o': copy.deepcopy(s['r']), 'a': [], 'fid': cls + '::size()const', 't': 'unsigned long', 'l': ln}
            s = {'k': 'for', 'l': ln,
                 'i': {'k': 'decl', 'l': ln, 'v': [{'n': ivar['n'], 'id': ivar['id'], 't': 'unsigned long', 'init': {'k': 'int', 'v': 0, 't': 'int'}}]},
                 'c': {'k': 'bin', 'op': '<', 'a': [dict(ivar), size], 't': 'bool', 'l': ln},
                 'n': {'k': 'un', 'op': 'post++', 'a': [dict(ivar)], 't': 'unsigned long', 'l': ln},
                 'b': body}
            meta['kind'] = 'for'
            head.meta['loop'] = 'for'
            return self.loop_for(s, head, meta, nxt, ctx, ln)
        if k == 'forrange':
            bindn = self.new('stmt', {'k': 'rangebind', 'v': s['v'], 'r': s['r']}, ln)
            body = self.build(s['b'], head, Ctx(nxt, head, ctx.handlers, ctx.ret))
            bindn.succ = [body]
            br = self.new('branch', {'k': 'rangemore', 'r': s['r'], 'l': ln}, ln)
            br.succ = [bindn, nxt]
            head.succ = [br]
            return head

    def loop_for(self, s, head, meta, nxt, ctx, ln):
        incn = head
        if s.get('n') is not None:
            incn = self.build(s['n'], head, ctx)
            for nn in self._chain(incn, head):
                nn.meta['loopinc'] = head.id
        body = self.build(s['b'], incn, Ctx(nxt, incn, ctx.handlers, ctx.ret))
        head.succ = [self.branch(s.get('c'), body, nxt, ln, ctx)]
        meta['cond'] = s.get('c')
        meta['iv'] = canonical_iv(s)
        meta['body'] = s['b']
        entry = self.build(s['i'], head, ctx) if s.get('i') else head
        return entry

    def _chain(self, a, stop):
        out = []
        while a is not stop and a is not None and len(a.succ) == 1:
            out.append(a)
            a = a.succ[0]
        return out


def _same_expr(a, b):
    """structural equality of two expression trees, ignoring source positions"""
    if isinstance(a, dict) and isinstance(b, dict):
        ka = {k: v for k, v in a.items() if k != 'l'}
        kb = {k: v for k, v in b.items() if k != 'l'}
        return ka.keys() == kb.keys() and all(_same_expr(ka[k], kb[k]) for k in ka)
    if isinstance(a, list) and isinstance(b, list):
        return len(a) == len(b) and all(_same_expr(x, y) for x, y in zip(a, b))
    return a == b


def desugar_iterator_loop(s, outer=None):
    """for (It it = X.begin(); it != X.end(); ++it) { ... *it ... }  is read as
    for (size_t it = 0; it < X.size(); it++) { ... X[it] ... }  when the iterator is only ever
    dereferenced in the body -- the same loop over the same elements, in the form every rule
    already understands (canonical counter, element access).  A nested loop
    for (It jt = X.begin(); jt != it; ++jt)  over the same container becomes  for (jt = 0; jt < it; jt++)."""
    outer = outer or {}
    init, cond, inc, body = s.get('i'), s.get('c'), s.get('n'), s.get('b')
    if not (isinstance(init, dict) and init.get('k') == 'decl' and len(init.get('v', [])) == 1 and cond and inc and body is not None):
        return None
    v = init['v'][0]
    b = strip_casts(v.get('init'))
    while isinstance(b, dict) and b.get('k') == 'ctor' and len(b.get('a', [])) == 1:
        b = strip_casts(b['a'][0])       # iterator -> const_iterator conversion
    if not (isinstance(b, dict) and b.get('k') == 'mcall' and b.get('f', '').split('::')[-1] in ('begin', 'cbegin') and not b.get('a') and pure_lvalue(b.get('o'))):
        return None
    cont = b['o']
    c = strip_casts(cond)
    if not (isinstance(c, dict) and c.get('k') in ('opcall', 'bin') and c.get('op') in ('!=', '<') and len(c.get('a', [])) == 2):
        return None
    lhs, rhs = strip_casts(c['a'][0]), strip_casts(c['a'][1])
    while isinstance(rhs, dict) and rhs.get('k') == 'ctor' and len(rhs.get('a', [])) == 1:
        rhs = strip_casts(rhs['a'][0])
    if not (isinstance(lhs, dict) and lhs.get('k') == 'var' and lhs.get('id') == v['id']):
        return None
    cls = b['f'].rsplit('::', 1)[0]
    if isinstance(rhs, dict) and rhs.get('k') == 'mcall' and rhs.get('f', '').split('::')[-1] in ('end', 'cend') and _same_expr(rhs.get('o'), cont):
        bound = {'k': 'mcall', 'f': cls + '::size', 'o': copy.deepcopy(cont), 'a': [], 'fid': cls + '::size()const', 't': 'unsigned long', 'l': s.get('l', 0)}
    elif isinstance(rhs, dict) and rhs.get('k') == 'var' and rhs.get('id') in outer and _same_expr(outer[rhs['id']], cont):
        bound = {'k': 'var', 'n': rhs['n'], 'id': rhs['id'], 't': 'unsigned long'}      # the enclosing loop's position
    else:
        return None
    i2 = strip_casts(inc)
    if not (isinstance(i2, dict) and i2.get('k') in ('opcall', 'un') and i2.get('op') in ('++', 'post++') and
            strip_casts(i2['a'][0]).get('k') == 'var' and strip_casts(i2['a'][0]).get('id') == v['id']):
        return None
    ok = [True]
    inner_outer = dict(outer)
    inner_outer[v['id']] = cont

    def rew(x):
        if isinstance(x, dict):
            if x.get('k') == 'for':
                ds = desugar_iterator_loop(x, inner_outer)
                if ds is not None:
                    return ds
            if x.get('k') in ('opcall', 'un') and x.get('op') == '*' and len(x.get('a', [])) == 1:
                a0 = strip_casts(x['a'][0])
                if isinstance(a0, dict) and a0.get('k') == 'var' and a0.get('id') in inner_outer:
                    cexp = inner_outer[a0['id']]
                    return {'k': 'opcall', 'op': '[]', 'f': cls + '::operator[]',
                            'a': [copy.deepcopy(cexp), {'k': 'var', 'n': a0['n'], 'id': a0['id'], 't': 'unsigned long'}],
                            't': x.get('t'), 'l': x.get('l', 0)}
            if x.get('k') == 'var' and x.get('id') == v['id']:
                ok[0] = False        # the iterator escapes (compared, copied, advanced): keep the loop as it is
                return x
            return {k: rew(val) for k, val in x.items()}
        if isinstance(x, list):
            return [rew(val) for val in x]
        return x
    body2 = rew(body)
    if not ok[0]:
        return None
    ivar = {'k': 'var', 'n': v['n'], 'id': v['id'], 't': 'unsigned long'}
    return {'k': 'for', 'l': s.get('l', 0),
            'i': {'k': 'decl', 'l': init.get('l', 0), 'v': [{'n': v['n'], 'id': v['id'], 't': 'unsigned long', 'init': {'k': 'int', 'v': 0, 't': 'int'}}]},
            'c': {'k': 'bin', 'op': '<', 'a': [ivar, bound], 't': 'bool', 'l': s.get('l', 0)},
            'n': {'k': 'un', 'op': 'post++', 'a': [dict(ivar)], 't': 'unsigned long', 'l': s.get('l', 0)},
            'b': body2}


def _var_id(e):
    if isinstance(e, dict):
        if e.get('k') == 'var':
            return e['id']
        if e.get('k') == 'cast':
            return _var_id(e['e'])
    return None


def writes_var(tree, vid):
    from .facts import walk
    for n in walk(tree):
        k = n.get('k')
        if k == 'bin' and n['op'] in ('=', '+=', '-=', '*=', '/=', '%=', '<<=', '>>=', '|=', '&=', '^=') and _var_id(n['a'][0]) == vid:
            return True
        if k == 'un' and n['op'] in ('++', '--', 'post++', 'post--') and _var_id(n['a'][0]) == vid:
            return True
    return False


def canonical_iv(s):
    """for (T i = a; i < N; i++) with i not written in the body -> dict(id, init, bound, op, step)"""
    init, cond, inc = s.get('i'), s.get('c'), s.get('n')
    if not (init and cond and inc):
        return None
    vid = None
    ini = None
    if init.get('k') == 'decl' and len(init['v']) >= 1:
        v = init['v'][0]
        vid, ini = v['id'], v.get('init')
    elif init.get('k') == 'bin' and init['op'] == '=':
        vid, ini = _var_id(init['a'][0]), init['a'][1]
    if vid is None:
        return None
    step = None
    if inc.get('k') == 'un' and inc['op'] in ('++', 'post++') and _var_id(inc['a'][0]) == vid:
        step = 1
    elif inc.get('k') == 'un' and inc['op'] in ('--', 'post--') and _var_id(inc['a'][0]) == vid:
        step = -1
    elif inc.get('k') == 'bin' and inc['op'] == '+=' and _var_id(inc['a'][0]) == vid and inc['a'][1].get('k') == 'int':
        step = inc['a'][1]['v']
    if step is None:
        return None
    if cond.get('k') != 'bin' or cond['op'] not in ('<', '<=', '>', '>=', '!='):
        return None
    if _var_id(cond['a'][0]) == vid:
        bound, op = cond['a'][1], cond['op']
    elif _var_id(cond['a'][1]) == vid:
        bound, op = cond['a'][0], {'<': '>', '<=': '>=', '>': '<', '>=': '<=', '!=': '!='}[cond['op']]
    else:
        return None
    if writes_var(s['b'], vid):
        return None
    return {'id': vid, 'init': ini, 'bound': bound, 'op': op, 'step': step}
