"""Control-flow graph built from the structured statement tree emitted by tmcgfacts.

Short-circuit conditions are decomposed into branch nodes; `throw e` inside a try block with a
matching handler is wired to a fresh clone of the handler body (so `throw false` followed by
`catch (bool r) { cleanup; return r; }` is exactly `cleanup; return false`); loops get a
dedicated head node carrying the induction variable of canonical counting loops."""


class Node:
    __slots__ = ('id', 'kind', 'e', 'succ', 'line', 'meta', 'preds')

    def __init__(self, nid, kind, e=None, line=0, meta=None):
        self.id = nid
        self.kind = kind      # stmt | branch | switch | exit | loophead | nop | bind
        self.e = e
        self.succ = []
        self.line = line
        self.meta = meta or {}
        self.preds = []

    def __repr__(self):
        return 'N%d:%s@%d' % (self.id, self.kind, self.line)


class Ctx:
    __slots__ = ('brk', 'cont', 'handlers')

    def __init__(self, brk=None, cont=None, handlers=()):
        self.brk = brk
        self.cont = cont
        self.handlers = handlers   # tuple of (handler_list, after_node, outer_ctx), innermost last


def line_of(s):
    if isinstance(s, dict):
        if 'l' in s:
            return s['l']
        for v in s.values():
            if isinstance(v, (dict, list)):
                r = line_of(v)
                if r:
                    return r
    elif isinstance(s, list):
        for v in s:
            r = line_of(v)
            if r:
                return r
    return 0


class CFG:
    def __init__(self, func):
        self.func = func
        self.nodes = []
        self.loops = {}   # loophead id -> meta
        self.ret_bool = func.get('ret') == 'bool'
        self.end = self.new('exit', None, func.get('end', 0), {'kind': 'end'})
        body = func.get('body')
        entry = self.build(body, self.end, Ctx()) if body else self.end
        # constructor initialisers run first
        for ini in reversed(func.get('inits', [])):
            n = self.new('stmt', {'k': 'ctorinit', 'm': ini['m'], 'base': ini['base'], 'e': ini['e']}, func.get('line', 0))
            n.succ = [entry]
            entry = n
        self.entry = entry
        self.finish()

    def new(self, kind, e=None, line=0, meta=None):
        n = Node(len(self.nodes), kind, e, line, meta)
        self.nodes.append(n)
        return n

    def finish(self):
        # reachable subgraph, preds, reverse post-order
        seen = set()
        order = []
        st = [(self.entry, 0)]
        seen.add(self.entry.id)
        while st:
            n, i = st.pop()
            if i < len(n.succ):
                st.append((n, i + 1))
                s = n.succ[i]
                if s.id not in seen:
                    seen.add(s.id)
                    st.append((s, 0))
            else:
                order.append(n)
        order.reverse()
        self.rpo = order
        for n in order:
            n.preds = []
        for n in order:
            for i, s in enumerate(n.succ):
                s.preds.append((n, i))
        self.exits = [n for n in order if n.kind == 'exit']

    # ------------------------------------------------------------------ conditions
    def branch(self, c, t, f, line=0):
        if isinstance(c, dict):
            k = c.get('k')
            if k == 'bin' and c['op'] == '||':
                return self.branch(c['a'][0], t, self.branch(c['a'][1], t, f, line), line)
            if k == 'bin' and c['op'] == '&&':
                return self.branch(c['a'][0], self.branch(c['a'][1], t, f, line), f, line)
            if k == 'un' and c['op'] == '!':
                return self.branch(c['a'][0], f, t, line)
            if k == 'bool':
                return t if c['v'] else f
            if k == 'int' and not c.get('n'):
                return t if c['v'] else f
        if c is None:
            return t
        n = self.new('branch', c, line_of(c) or line)
        n.succ = [t, f]
        return n

    # ------------------------------------------------------------------ statements
    def seq(self, stmts, nxt, ctx):
        for s in reversed(stmts):
            nxt = self.build(s, nxt, ctx)
        return nxt

    def build(self, s, nxt, ctx):
        if s is None:
            return nxt
        k = s.get('k')
        ln = s.get('l', 0) or line_of(s)
        if k == 'block':
            return self.seq(s['s'], nxt, ctx)
        if k == 'if':
            t = self.build(s['t'], nxt, ctx)
            f = self.build(s['e'], nxt, ctx) if s.get('e') else nxt
            b = self.branch(s['c'], t, f, ln)
            if s.get('cv'):
                b = self.build(s['cv'], b, ctx)
            if s.get('init'):
                b = self.build(s['init'], b, ctx)
            return b
        if k in ('while', 'for', 'do', 'forrange'):
            return self.loop(s, nxt, ctx, ln)
        if k == 'switch':
            sw = self.new('switch', s['c'], ln, {'cases': []})
            cases = []
            c2 = Ctx(nxt, ctx.cont, ctx.handlers)
            self._sw_stack = getattr(self, '_sw_stack', [])
            self._sw_stack.append(cases)
            self.build(s['b'], nxt, c2)
            self._sw_stack.pop()
            default = nxt
            vals = []
            for v, entry in cases:
                if v is None:
                    default = entry
                else:
                    vals.append(v)
                    sw.succ.append(entry)
            sw.meta['cases'] = vals
            sw.succ.append(default)
            return sw
        if k == 'case':
            entry = self.build(s['s'], nxt, ctx)
            self._sw_stack[-1].append(((s['v'], s.get('v2')), entry))
            return entry
        if k == 'default':
            entry = self.build(s['s'], nxt, ctx)
            self._sw_stack[-1].append((None, entry))
            return entry
        if k == 'break':
            return ctx.brk if ctx.brk is not None else nxt
        if k == 'continue':
            return ctx.cont if ctx.cont is not None else nxt
        if k == 'return':
            e = s.get('e')
            if e is not None and self.ret_bool and isinstance(e, dict) and (
                    (e.get('k') == 'bin' and e['op'] in ('&&', '||')) or (e.get('k') == 'un' and e['op'] == '!')):
                t = self.new('exit', {'k': 'bool', 'v': True}, ln, {'kind': 'return'})
                f = self.new('exit', {'k': 'bool', 'v': False}, ln, {'kind': 'return'})
                return self.branch(e, t, f, ln)
            return self.new('exit', e, ln, {'kind': 'return'})
        if k == 'throw':
            return self.throw(s, ctx, ln)
        if k == 'try':
            c2 = Ctx(ctx.brk, ctx.cont, ctx.handlers + ((s['h'], nxt, ctx),))
            return self.build(s['b'], nxt, c2)
        if k == 'decl':
            for v in reversed(s['v']):
                n = self.new('stmt', {'k': 'vardecl', 'v': v}, ln)
                n.succ = [nxt]
                nxt = n
            return nxt
        if k == 'label':
            return self.build(s['s'], nxt, ctx)
        if k == 'bin' and s['op'] == ',':
            return self.build(s['a'][0], self.build(s['a'][1], nxt, ctx), ctx)
        if k == 'cond' and isinstance(s['a'][1], dict) and s['a'][1].get('k') == 'throw' or \
                k == 'cond' and isinstance(s['a'][2], dict) and s['a'][2].get('k') == 'throw':
            t = self.build(s['a'][1], nxt, ctx)
            f = self.build(s['a'][2], nxt, ctx)
            return self.branch(s['a'][0], t, f, ln)
        # plain expression statement (or unknown statement)
        n = self.new('stmt', s, ln)
        n.succ = [nxt]
        return n

    def throw(self, s, ctx, ln):
        tt = s.get('tt')
        hs = ctx.handlers
        for depth in range(len(hs) - 1, -1, -1):
            handlers, after, octx = hs[depth]
            for h in handlers:
                if h['t'] == '...' or (tt is not None and h['t'].replace('const ', '').replace(' &', '') == tt):
                    body = self.build(h['b'], after, octx)
                    if h.get('v'):
                        b = self.new('bind', {'v': h['v'], 'e': s.get('e')}, ln)
                        b.succ = [body]
                        return b
                    return body
        return self.new('exit', s.get('e'), ln, {'kind': 'throw', 'tt': tt})

    def loop(self, s, nxt, ctx, ln):
        k = s['k']
        head = self.new('loophead', None, ln, {'loop': k})
        meta = {'kind': k, 'line': ln, 'iv': None}
        self.loops[head.id] = meta
        if k == 'while':
            body = self.build(s['b'], head, Ctx(nxt, head, ctx.handlers))
            head.succ = [self.branch(s['c'], body, nxt, ln)]
            meta['cond'] = s['c']
            return head
        if k == 'do':
            condentry_holder = self.new('nop', None, ln)
            body = self.build(s['b'], condentry_holder, Ctx(nxt, condentry_holder, ctx.handlers))
            condentry_holder.succ = [self.branch(s['c'], head, nxt, ln)]
            head.succ = [body]
            meta['cond'] = s['c']
            return head
        if k == 'for':
            incn = head
            if s.get('n') is not None:
                incn = self.build(s['n'], head, ctx)
                for nn in self._chain(incn, head):
                    nn.meta['loopinc'] = head.id
            body = self.build(s['b'], incn, Ctx(nxt, incn, ctx.handlers))
            head.succ = [self.branch(s.get('c'), body, nxt, ln)]
            meta['cond'] = s.get('c')
            meta['iv'] = canonical_iv(s)
            meta['body'] = s['b']
            entry = self.build(s['i'], head, ctx) if s.get('i') else head
            return entry
        if k == 'forrange':
            bindn = self.new('stmt', {'k': 'rangebind', 'v': s['v'], 'r': s['r']}, ln)
            body = self.build(s['b'], head, Ctx(nxt, head, ctx.handlers))
            bindn.succ = [body]
            br = self.new('branch', {'k': 'rangemore', 'r': s['r'], 'l': ln}, ln)
            br.succ = [bindn, nxt]
            head.succ = [br]
            return head

    def _chain(self, a, stop):
        out = []
        while a is not stop and a is not None and len(a.succ) == 1:
            out.append(a)
            a = a.succ[0]
        return out


def _var_id(e):
    if isinstance(e, dict):
        if e.get('k') == 'var':
            return e['id']
        if e.get('k') == 'cast':
            return _var_id(e['e'])
    return None


def writes_var(tree, vid):
    from .facts import walk
    for n in walk(tree):
        k = n.get('k')
        if k == 'bin' and n['op'] in ('=', '+=', '-=', '*=', '/=', '%=', '<<=', '>>=', '|=', '&=', '^=') and _var_id(n['a'][0]) == vid:
            return True
        if k == 'un' and n['op'] in ('++', '--', 'post++', 'post--') and _var_id(n['a'][0]) == vid:
            return True
    return False


def canonical_iv(s):
    """for (T i = a; i < N; i++) with i not written in the body -> dict(id, init, bound, op, step)"""
    init, cond, inc = s.get('i'), s.get('c'), s.get('n')
    if not (init and cond and inc):
        return None
    vid = None
    ini = None
    if init.get('k') == 'decl' and len(init['v']) >= 1:
        v = init['v'][0]
        vid, ini = v['id'], v.get('init')
    elif init.get('k') == 'bin' and init['op'] == '=':
        vid, ini = _var_id(init['a'][0]), init['a'][1]
    if vid is None:
        return None
    step = None
    if inc.get('k') == 'un' and inc['op'] in ('++', 'post++') and _var_id(inc['a'][0]) == vid:
        step = 1
    elif inc.get('k') == 'un' and inc['op'] in ('--', 'post--') and _var_id(inc['a'][0]) == vid:
        step = -1
    elif inc.get('k') == 'bin' and inc['op'] == '+=' and _var_id(inc['a'][0]) == vid and inc['a'][1].get('k') == 'int':
        step = inc['a'][1]['v']
    if step is None:
        return None
    if cond.get('k') != 'bin' or cond['op'] not in ('<', '<=', '>', '>=', '!='):
        return None
    if _var_id(cond['a'][0]) == vid:
        bound, op = cond['a'][1], cond['op']
    elif _var_id(cond['a'][1]) == vid:
        bound, op = cond['a'][0], {'<': '>', '<=': '>=', '>': '<', '>=': '<=', '!=': '!='}[cond['op']]
    else:
        return None
    if writes_var(s['b'], vid):
        return None
    return {'id': vid, 'init': ini, 'bound': bound, 'op': op, 'step': step}
