"""Template evaluation of the OpenPGP packet encoders (A8): the octet sequence an encoder appends to
its output vector, for chosen scalar arguments and chosen sizes of its block arguments, as a list of
concrete octets and symbolic items

    ('len', n)        PacketLengthEncode(n, out)      (the length codec itself is decided by R19b)
    ('blk', name, n)  n octets copied from the argument `name` (insert(end, begin, end) or a copy loop)
    ('mpi', name, n)  PacketMPIEncode(name, out): two length octets and n = ceil(bits/8) value octets
    ('oct', name)     one octet taken from the scalar argument `name`
    ('slice', name, lo, hi)  octets lo..hi-1 of the block argument `name` (a partial copy loop)

This evaluates the *definition of a data layout* (loop-free apart from whole-block copies); anything
else raises NotEvaluable and is reported as not evaluated, never guessed."""
import json
from . import evalx
from .facts import walk
from .pieceeval import PieceEval, Ret, Brk


CHECKSUM = 0xABCD


def item_size(x):
    if isinstance(x, int):
        return 1
    if x[0] == 'len':
        n = x[1]
        return 1 if n < 192 else (2 if n < 8384 else 5)
    if x[0] == 'blk':
        return x[2]
    if x[0] == 'mpi':
        return 2 + x[2]
    if x[0] == 'oct':
        return 1
    if x[0] == 'slice':
        return max(0, x[3] - x[2])
    raise ValueError(x)


def strip(e):
    while isinstance(e, dict) and (e.get('k') == 'cast' or (e.get('k') == 'ctor' and len(e.get('a', [])) == 1)):
        e = e['e'] if e.get('k') == 'cast' else e['a'][0]
    return e


class PacketEval(PieceEval):
    """args: scalar parameter name -> int; sizes: block parameter name -> octet count;
    bits: gcry_mpi_t parameter name -> bit length; symbolic: scalar names kept as ('oct', name)"""

    def __init__(self, func, args, sizes, bits, prog, out='out', depth=0, stubs=None):
        PieceEval.__init__(self, func, args, prog=prog, depth=depth, stubs=stubs or {'time': 0x5A5B5C5D})
        self.sizes = dict(sizes)
        self.bits = dict(bits)
        self.pname = {p['id']: p['n'] for p in func['params']}
        for p in func['params']:
            if p['n'] == out:
                self.vec[p['id']] = []
                self.outid = p['id']

    # -- expressions -------------------------------------------------------------------------
    def call(self, e, env):
        k = e.get('k')
        if k == 'mcall' and e['f'].split('::')[-1] in ('size', 'length'):
            o = strip(e['o'])
            if o.get('k') == 'var':
                if o['id'] in self.vec:
                    return sum(item_size(x) for x in self.vec[o['id']])
                nm = self.pname.get(o['id'])
                if nm in self.sizes:
                    return self.sizes[nm]
        if k == 'call' and e.get('f') == 'gcry_mpi_get_nbits':
            a = strip(e['a'][0])
            nm = self.pname.get(a.get('id'))
            if nm in self.bits:
                return self.bits[nm]
        if k == 'call' and e.get('f') in self.stubs:
            return self.stubs[e['f']]
        if k == 'call' and self.prog is not None and e.get('fid') in self.prog.funcs and self.depth < 3:
            # a value-returning helper of the library (a length computed in a file-static function): evaluate its definition
            g = self.prog.funcs[e['fid']]
            if g.get('body'):
                sub = PacketEval(g, {}, {}, {}, self.prog, out=None, depth=self.depth + 1, stubs=self.stubs)
                refs = []
                for prm, ae in zip(g['params'], e.get('a', [])):
                    a = strip(ae)
                    nm = self.pname.get(a.get('id')) if isinstance(a, dict) and a.get('k') == 'var' else None
                    if isinstance(a, dict) and a.get('k') == 'var' and prm['t'].endswith('&') and not prm['t'].startswith('const') and 'vector' not in prm['t']:
                        refs.append((prm['id'], a['id']))       # a scalar handed over by reference: written back afterwards
                    if nm is not None and nm in self.bits:
                        sub.bits[prm['n']] = self.bits[nm]
                    elif nm is not None and nm in self.sizes:
                        sub.sizes[prm['n']] = self.sizes[nm]
                    else:
                        try:
                            sub.env[prm['id']] = evalx.wrap(self.ev(ae), prm['t'].replace('&', '').replace('const ', '').strip())
                        except evalx.NotEvaluable:
                            pass
                rv = None
                try:
                    sub.stmt(g['body'])
                except Ret as r:
                    rv = r.v
                for pid_, vid_ in refs:
                    if pid_ in sub.env:
                        self.env[vid_] = sub.env[pid_]
                if rv is not None:
                    return rv
                raise evalx.NotEvaluable('helper %s returns no value' % g['q'])
        return PieceEval.call(self, e, env)

    def block_of(self, x):
        """the parameter a whole-container iterator pair / a copy loop stands for"""
        x = strip(x)
        if isinstance(x, dict) and x.get('k') == 'var':
            nm = self.pname.get(x['id'])
            if nm in self.sizes:
                return ('blk', nm, self.sizes[nm])
            if x['id'] in self.vec:
                return list(self.vec[x['id']])
        raise evalx.NotEvaluable('unknown block source')

    # -- statements --------------------------------------------------------------------------
    def stmt(self, s):
        if s is None:
            return
        k = s.get('k')
        if k == 'bin' and s.get('op') in ('+=', '-=', '*=', '|=') and strip(s['a'][0]).get('k') == 'var':
            vid = strip(s['a'][0])['id']
            if vid not in self.env:
                raise evalx.NotEvaluable('compound assignment to an unknown value')
            a, b = self.env[vid], self.ev(s['a'][1])
            r = {'+=': a + b, '-=': a - b, '*=': a * b, '|=': a | b}[s['op']]
            self.env[vid] = evalx.wrap(r, self.types.get(vid, s['a'][0].get('t')))
            return
        if k == 'bin' and s.get('op') in ('|=', '&=', '=') and strip(s['a'][0]).get('k') in ('idx', 'opcall'):
            t = strip(s['a'][0])
            b = strip(t['a'][0])
            if b.get('k') == 'var' and b['id'] in self.vec:
                i = self.ev(t['a'][1])
                v = self.vec[b['id']]
                if 0 <= i < len(v) and isinstance(v[i], int) and all(isinstance(x, int) for x in v[:i]):
                    r = self.ev(s['a'][1])
                    v[i] = evalx.wrap({'|=': v[i] | r, '&=': v[i] & r, '=': r}[s['op']], 'unsigned char')
                    return
            raise evalx.NotEvaluable('element update')
        if k == 'un' and s.get('op') in ('++', '--', 'post++', 'post--', '++pre', '--pre') and strip(s['a'][0]).get('k') == 'var':
            vid = strip(s['a'][0])['id']
            if vid in self.env:
                self.env[vid] += 1 if '+' in s['op'] else -1
                return
        if k == 'decl':
            for v in s['v']:
                t = v.get('t', '')
                ini = v.get('init')
                if 'vector<unsigned char' in t and '&' not in t and '*' not in t and 'pair' not in t and \
                        (ini is None or (ini.get('k') == 'ctor' and not ini.get('a'))):
                    self.vec[v['id']] = []
                    continue
                if v.get('init') is not None:
                    try:
                        self.env[v['id']] = evalx.wrap(self.ev(v['init']), v['t'])
                        self.types[v['id']] = v['t']
                    except evalx.NotEvaluable:
                        pass            # a local the layout does not depend on (diagnostics, handles)
            return
        if k == 'mcall' and strip(s.get('o', {})).get('k') == 'var' and strip(s['o'])['id'] in self.vec:
            v = self.vec[strip(s['o'])['id']]
            short = s['f'].split('::')[-1]
            if short == 'push_back':
                a = strip(s['a'][0])
                try:
                    v.append(evalx.wrap(self.ev(s['a'][0]), 'unsigned char'))
                except evalx.NotEvaluable:
                    if a.get('k') == 'var' and a['id'] in self.pname:
                        v.append(('oct', self.pname[a['id']]))
                    else:
                        raise
                return
            if short == 'insert' and len(s['a']) == 3:
                a0, a1, a2 = [strip(x) for x in s['a']]

                def whole(x, which):
                    return isinstance(x, dict) and x.get('k') == 'mcall' and x['f'].split('::')[-1] in (which, 'c' + which) and strip(x['o']).get('k') == 'var'
                if whole(a0, 'end') and strip(a0['o'])['id'] == strip(s['o'])['id'] and whole(a1, 'begin') and whole(a2, 'end') and \
                        strip(a1['o'])['id'] == strip(a2['o'])['id']:
                    b = self.block_of(a1['o'])
                    v.extend(b if isinstance(b, list) else [b])
                    return
                # out.insert(out.end(), P, P + N) with a pointer argument P
                if whole(a0, 'end') and strip(a0['o'])['id'] == strip(s['o'])['id'] and a1.get('k') == 'var' and a1.get('t', '').endswith('*') and \
                        a2.get('k') == 'bin' and a2.get('op') == '+' and strip(a2['a'][0]).get('id') == a1.get('id') and a1['id'] in self.pname:
                    v.append(('blk', self.pname[a1['id']], self.ev(a2['a'][1])))
                    return
                raise evalx.NotEvaluable('insert form')
            if short in ('reserve', 'clear'):
                if short == 'clear':
                    del v[:]
                return
            raise evalx.NotEvaluable('vector operation ' + short)
        if k == 'for':
            # for (size_t i = 0; i < N; i++) out.push_back(P[i]);   N a scalar argument or P.size()
            body = s['b']
            while isinstance(body, dict) and body.get('k') == 'block' and len(body['s']) == 1:
                body = body['s'][0]
            ini, cnd = s.get('i'), s.get('c')
            if isinstance(body, dict) and body.get('k') == 'mcall' and body['f'].split('::')[-1] == 'push_back' and \
                    strip(body['o']).get('k') == 'var' and strip(body['o'])['id'] in self.vec and \
                    isinstance(ini, dict) and ini.get('k') == 'decl' and isinstance(cnd, dict) and cnd.get('op') == '<':
                iv = ini['v'][0]
                a = strip(body['a'][0])
                if isinstance(a, dict) and (a.get('k') == 'idx' or (a.get('k') == 'opcall' and a.get('op') == '[]')):
                    src, ix = strip(a['a'][0]), strip(a['a'][1])
                    try:
                        lo = self.ev(iv['init']) if iv.get('init') is not None else None
                    except evalx.NotEvaluable:
                        lo = None
                    n = self.ev(cnd['a'][1])
                    nm = self.pname.get(src.get('id')) if src.get('k') == 'var' else None
                    step = strip(s.get('n')) if s.get('n') is not None else strip(s.get('s')) if s.get('s') is not None else None
                    if nm is not None and ix.get('id') == iv['id'] and lo is not None and strip(cnd['a'][0]).get('id') == iv['id']:
                        isptr = src.get('t', '').endswith('*')
                        if nm in self.sizes and not isptr and n > self.sizes[nm]:
                            raise evalx.NotEvaluable('copy loop runs past the container')
                        if lo == 0 and (isptr or nm not in self.sizes or n == self.sizes[nm]):
                            self.vec[strip(body['o'])['id']].append(('blk', nm, n))
                        else:
                            self.vec[strip(body['o'])['id']].append(('slice', nm, lo, n))
                        return
            # a loop whose condition is false on entry contributes nothing (evaluation for an empty container)
            try:
                if ini is not None:
                    saved = dict(self.env)
                    self.stmt(ini)
                if cnd is not None and not self.ev(cnd):
                    return
            except evalx.NotEvaluable:
                pass
            raise evalx.NotEvaluable('loop at line %s' % s.get('l'))
        if k == 'call':
            name = s.get('f', '').split('::')[-1]
            args = s.get('a', [])
            tracked = [i for i, a in enumerate(args) if strip(a).get('k') == 'var' and strip(a)['id'] in self.vec]
            if name == 'PacketLengthEncode' and tracked:
                self.vec[strip(args[tracked[0]])['id']].append(('len', self.ev(args[0])))
                return
            if name == 'PacketMPIEncode' and tracked:
                a = strip(args[0])
                nm = self.pname.get(a.get('id'))
                if nm in self.bits:
                    self.vec[strip(args[tracked[0]])['id']].append(('mpi', nm, (self.bits[nm] + 7) // 8))
                    if len(args) == 3 and strip(args[2]).get('k') == 'var':
                        # the overload that also accumulates the 16-bit checksum of what it wrote: a chosen value stands
                        # for it, so that the order of the two checksum octets appended later is visible
                        self.env[strip(args[2])['id']] = CHECKSUM
                    return
                raise evalx.NotEvaluable('MPI of an unknown value')
            g = self.prog.funcs.get(s.get('fid')) if self.prog is not None and s.get('fid') else None
            if tracked and g is not None and g.get('body') and self.depth < 3:
                sub = PacketEval(g, {}, {}, {}, self.prog, out=None, depth=self.depth + 1, stubs=self.stubs)
                for prm, ae in zip(g['params'], args):
                    a = strip(ae)
                    if a.get('k') == 'var' and a['id'] in self.vec:
                        sub.vec[prm['id']] = self.vec[a['id']]
                    elif a.get('k') == 'var' and self.pname.get(a['id']) in self.sizes:
                        sub.sizes[prm['n']] = self.sizes[self.pname[a['id']]]
                        sub.alias = getattr(sub, 'alias', {})
                        sub.alias[prm['n']] = self.pname[a['id']]
                    elif a.get('k') == 'var' and self.pname.get(a['id']) in self.bits:
                        sub.bits[prm['n']] = self.bits[self.pname[a['id']]]
                        sub.alias = getattr(sub, 'alias', {})
                        sub.alias[prm['n']] = self.pname[a['id']]
                    else:
                        sub.env[prm['id']] = evalx.wrap(self.ev(ae), prm['t'].replace('&', '').replace('const ', '').strip())
                n0 = {vid: len(v) for vid, v in sub.vec.items()}
                try:
                    sub.stmt(g['body'])
                except Ret:
                    pass
                al = getattr(sub, 'alias', {})
                if al:
                    for vid, v in sub.vec.items():
                        for i in range(n0.get(vid, 0), len(v)):
                            if isinstance(v[i], tuple) and v[i][0] in ('blk', 'mpi', 'slice', 'oct') and v[i][1] in al:
                                v[i] = (v[i][0], al[v[i][1]]) + tuple(v[i][2:])
                return
            if name == 'copy' and len(args) == 3:
                # std::copy(P.begin(), P.end(), std::back_inserter(out))
                dst = strip(args[2])
                inner = None
                for x in walk(dst) if isinstance(dst, dict) else []:
                    if x.get('k') == 'var' and x.get('id') in self.vec:
                        inner = x['id']
                b, e2 = strip(args[0]), strip(args[1])

                def whole2(x, which):
                    return isinstance(x, dict) and x.get('k') == 'mcall' and x['f'].split('::')[-1] in (which, 'c' + which) and strip(x['o']).get('k') == 'var'
                if inner is not None and 'back_insert' in json.dumps(dst) and whole2(b, 'begin') and whole2(e2, 'end') and strip(b['o'])['id'] == strip(e2['o'])['id']:
                    blk = self.block_of(b['o'])
                    self.vec[inner].extend(blk if isinstance(blk, list) else [blk])
                    return
            if not tracked:
                if any(x.get('k') == 'var' and x.get('id') in self.vec for a_ in args for x in (walk(a_) if isinstance(a_, dict) else [])):
                    raise evalx.NotEvaluable('call ' + name + ' receives the output indirectly')
                return                  # does not touch the output (diagnostics, gcry handles)
            raise evalx.NotEvaluable('call ' + name)
        if k == 'opcall' and s.get('op') == '<<':
            return
        if k == 'assert':
            return                      # a debugging aid, not part of the layout
        PieceEval.stmt(self, s)

    def run(self):
        try:
            self.stmt(self.f['body'])
        except Ret:
            pass
        return self.vec.get(self.outid)
