"""Finite-domain evaluation of extracted, side-effect-free integer expressions (A8).
Evaluates the expression *tree* under an assignment of its free variables with C++ unsigned
wrap-around for the types that occur; it never follows program paths."""

WIDTH = {'unsigned long': 64, 'unsigned int': 32, 'unsigned short': 16, 'unsigned char': 8, 'unsigned long long': 64,
         'const unsigned long': 64, 'const unsigned int': 32, 'const unsigned char': 8, 'const unsigned short': 16}
SWIDTH = {'long': 64, 'int': 32, 'short': 16, 'char': 8, 'signed char': 8, 'long long': 64, 'const long': 64, 'const int': 32}


class NotEvaluable(Exception):
    pass


def wrap(v, t):
    if t is None:
        return v
    if t in WIDTH:
        return v & ((1 << WIDTH[t]) - 1)
    if t in SWIDTH:
        w = SWIDTH[t]
        v &= (1 << w) - 1
        if v >= 1 << (w - 1):
            v -= 1 << w
        return v
    if t == 'bool':
        return 1 if v else 0
    return v


def ev(e, env, call=None):
    """env: decl id -> int (or name -> int with key ('n', name)); call(e, args) handles calls"""
    if e is None:
        raise NotEvaluable('none')
    k = e.get('k')
    if k == 'int':
        return e['v']
    if k == 'bool':
        return 1 if e['v'] else 0
    if k == 'var':
        if e['id'] in env:
            return env[e['id']]
        if ('n', e['n']) in env:
            return env[('n', e['n'])]
        raise NotEvaluable('free variable ' + e['n'])
    if k == 'mem':
        if ('m', e['n']) in env:
            return env[('m', e['n'])]
        raise NotEvaluable('member ' + e['n'])
    if k == 'cast':
        return wrap(ev(e['e'], env, call), e.get('t'))
    if k == 'un':
        v = ev(e['a'][0], env, call)
        op = e['op']
        if op == '-':
            return wrap(-v, e.get('t'))
        if op == '~':
            return wrap(~v, e.get('t'))
        if op == '!':
            return 0 if v else 1
        if op == '+':
            return v
        raise NotEvaluable('unary ' + op)
    if k == 'bin':
        op = e['op']
        if op == '&&':
            return 1 if (ev(e['a'][0], env, call) and ev(e['a'][1], env, call)) else 0
        if op == '||':
            return 1 if (ev(e['a'][0], env, call) or ev(e['a'][1], env, call)) else 0
        a = ev(e['a'][0], env, call)
        b = ev(e['a'][1], env, call)
        t = e.get('t')
        if op == '+': r = a + b
        elif op == '-': r = a - b
        elif op == '*': r = a * b
        elif op == '/':
            if b == 0:
                raise NotEvaluable('division by zero')
            r = abs(a) // abs(b) * (1 if (a >= 0) == (b >= 0) else -1)
        elif op == '%':
            if b == 0:
                raise NotEvaluable('division by zero')
            r = abs(a) % abs(b) * (1 if a >= 0 else -1)
        elif op == '<<': r = a << b if 0 <= b < 256 else 0
        elif op == '>>': r = a >> b if 0 <= b < 256 else 0
        elif op == '&': r = a & b
        elif op == '|': r = a | b
        elif op == '^': r = a ^ b
        elif op == '<': return 1 if a < b else 0
        elif op == '<=': return 1 if a <= b else 0
        elif op == '>': return 1 if a > b else 0
        elif op == '>=': return 1 if a >= b else 0
        elif op == '==': return 1 if a == b else 0
        elif op == '!=': return 1 if a != b else 0
        else:
            raise NotEvaluable('binary ' + op)
        return wrap(r, t)
    if k == 'cond':
        return ev(e['a'][1], env, call) if ev(e['a'][0], env, call) else ev(e['a'][2], env, call)
    if k in ('call', 'mcall', 'opcall'):
        if call is None:
            raise NotEvaluable('call ' + e.get('f', '?'))
        return call(e, env)
    raise NotEvaluable('node ' + str(k))
