// tmcgfacts: libTooling fact extractor for the libtmcg static checks.
// For every function definition located under the given source root it dumps a
// structured, type-resolved statement/expression tree (resolved callees, member
// accesses, declaration ids, folded GMP/assert macros), plus class records, enum
// definitions, global constant tables and the declarations found in headers.
// One JSON document per translation unit on stdout.
#include "clang/AST/ASTConsumer.h"
#include "clang/AST/ASTContext.h"
#include "clang/AST/RecursiveASTVisitor.h"
#include "clang/AST/ExprCXX.h"
#include "clang/AST/StmtCXX.h"
#include "clang/Basic/Builtins.h"
#include "clang/Frontend/CompilerInstance.h"
#include "clang/Frontend/FrontendAction.h"
#include "clang/Lex/Lexer.h"
#include "clang/Tooling/CommonOptionsParser.h"
#include "clang/Tooling/Tooling.h"
#include "llvm/Support/CommandLine.h"
#include "llvm/Support/raw_ostream.h"
#include <map>
#include <set>
#include <string>
#include <sstream>

using namespace clang;
using namespace clang::tooling;

static llvm::cl::OptionCategory Cat("tmcgfacts");
static llvm::cl::opt<std::string> Root("root", llvm::cl::desc("source root prefix"),
	llvm::cl::init("/repo/src"), llvm::cl::cat(Cat));

namespace {

std::string jstr(llvm::StringRef s)
{
	std::string o = "\"";
	for (unsigned char c : s)
	{
		switch (c)
		{
			case '"': o += "\\\""; break;
			case '\\': o += "\\\\"; break;
			case '\n': o += "\\n"; break;
			case '\r': o += "\\r"; break;
			case '\t': o += "\\t"; break;
			default:
				if (c < 0x20 || c >= 0x7f)
				{
					char b[8];
					snprintf(b, sizeof(b), "\\u%04x", c);
					o += b;
				}
				else
					o += (char)c;
		}
	}
	o += "\"";
	return o;
}

class Dumper
{
public:
	ASTContext &Ctx;
	SourceManager &SM;
	PrintingPolicy PP;
	std::map<const Decl*, unsigned> ids;
	unsigned nextid = 1;

	Dumper(ASTContext &C) : Ctx(C), SM(C.getSourceManager()), PP(C.getLangOpts())
	{
		PP.SuppressTagKeyword = true;
		PP.Bool = true;
		PP.SuppressUnwrittenScope = true;
	}

	unsigned id(const Decl *D)
	{
		D = D->getCanonicalDecl();
		auto it = ids.find(D);
		if (it != ids.end())
			return it->second;
		ids[D] = nextid;
		return nextid++;
	}

	std::string ty(QualType T)
	{
		if (T.isNull())
			return "?";
		return T.getAsString(PP);
	}

	std::string cty(QualType T)
	{
		if (T.isNull())
			return "?";
		return T.getCanonicalType().getAsString(PP);
	}

	std::string fileOf(SourceLocation L)
	{
		L = SM.getExpansionLoc(L);
		if (L.isInvalid())
			return "";
		return SM.getFilename(L).str();
	}

	unsigned lineOf(SourceLocation L)
	{
		L = SM.getExpansionLoc(L);
		if (L.isInvalid())
			return 0;
		return SM.getExpansionLineNumber(L);
	}

	bool inRoot(SourceLocation L)
	{
		std::string f = fileOf(L);
		return f.compare(0, Root.size(), Root) == 0;
	}

	std::string qname(const NamedDecl *D)
	{
		std::string s;
		llvm::raw_string_ostream os(s);
		D->printQualifiedName(os, PP);
		os.flush();
		return s;
	}

	// name of the outermost function-like macro whose expansion produced L
	std::string macroName(SourceLocation L)
	{
		if (!L.isMacroID())
			return "";
		std::string last;
		while (L.isMacroID())
		{
			if (SM.isMacroArgExpansion(L))
			{
				L = SM.getImmediateExpansionRange(L).getBegin();
				continue;
			}
			last = Lexer::getImmediateMacroName(L, SM, Ctx.getLangOpts()).str();
			L = SM.getImmediateExpansionRange(L).getBegin();
		}
		return last;
	}

	// innermost object-like macro that spelled a literal (e.g. TMCG_MAX_CARDS)
	std::string litMacro(SourceLocation L)
	{
		if (!L.isMacroID())
			return "";
		if (SM.isMacroArgExpansion(L))
		{
			SourceLocation S = SM.getImmediateSpellingLoc(L);
			if (S.isMacroID())
				return litMacro(S);
			return "";
		}
		return Lexer::getImmediateMacroName(L, SM, Ctx.getLangOpts()).str();
	}

	const Expr *strip(const Expr *E)
	{
		while (E)
		{
			if (auto *P = dyn_cast<ParenExpr>(E)) { E = P->getSubExpr(); continue; }
			if (auto *P = dyn_cast<ExprWithCleanups>(E)) { E = P->getSubExpr(); continue; }
			if (auto *P = dyn_cast<MaterializeTemporaryExpr>(E)) { E = P->getSubExpr(); continue; }
			if (auto *P = dyn_cast<CXXBindTemporaryExpr>(E)) { E = P->getSubExpr(); continue; }
			if (auto *P = dyn_cast<ConstantExpr>(E)) { E = P->getSubExpr(); continue; }
			if (auto *P = dyn_cast<SubstNonTypeTemplateParmExpr>(E)) { E = P->getReplacement(); continue; }
			if (auto *P = dyn_cast<CXXDefaultArgExpr>(E)) { E = P->getExpr(); continue; }
			if (auto *P = dyn_cast<CXXDefaultInitExpr>(E)) { E = P->getExpr(); continue; }
			break;
		}
		return E;
	}

	const Expr *stripAll(const Expr *E)
	{
		while (E)
		{
			const Expr *N = strip(E);
			if (auto *C = dyn_cast<ImplicitCastExpr>(N)) { E = C->getSubExpr(); continue; }
			return N;
		}
		return E;
	}

	bool containsBuiltinConstantP(const Stmt *S)
	{
		if (!S)
			return false;
		if (auto *C = dyn_cast<CallExpr>(S))
			if (C->getBuiltinCallee() == Builtin::BI__builtin_constant_p)
				return true;
		for (const Stmt *c : S->children())
			if (containsBuiltinConstantP(c))
				return true;
		return false;
	}

	const MemberExpr *asMpSize(const Expr *E)
	{
		E = stripAll(E);
		if (auto *M = dyn_cast_or_null<MemberExpr>(E))
			if (M->getMemberDecl()->getName() == "_mp_size")
				return M;
		return nullptr;
	}

	std::string normCallee(std::string n)
	{
		if (n.compare(0, 6, "__gmpz") == 0)
			return "mpz" + n.substr(6);
		if (n.compare(0, 6, "__gmpn") == 0)
			return "mpn" + n.substr(6);
		return n;
	}

	std::string exprs(llvm::ArrayRef<const Expr*> a)
	{
		std::string o = "[";
		bool first = true;
		for (auto *e : a)
		{
			if (!first) o += ",";
			first = false;
			o += expr(e);
		}
		return o + "]";
	}

	std::string L(const Stmt *S)
	{
		return ",\"l\":" + std::to_string(lineOf(S->getBeginLoc()));
	}

	std::string T(const Expr *E)
	{
		return ",\"t\":" + jstr(cty(E->getType()));
	}

	std::string intlit(const llvm::APSInt &v, const Expr *E, bool folded)
	{
		std::string o = "{\"k\":\"int\",\"v\":" + llvm::toString(v, 10);
		std::string m = litMacro(E->getBeginLoc());
		if (!m.empty())
			o += ",\"m\":" + jstr(m);
		if (folded)
			o += ",\"x\":1";
		o += T(E);
		return o + "}";
	}

	std::string expr(const Expr *E0)
	{
		if (!E0)
			return "null";
		const Expr *E = strip(E0);
		if (!E)
			return "null";
		// implicit casts: keep integral conversions that change width or signedness
		if (auto *C = dyn_cast<ImplicitCastExpr>(E))
		{
			if (C->getCastKind() == CK_IntegralCast && !C->getSubExpr()->getType().isNull())
			{
				QualType from = C->getSubExpr()->getType(), to = C->getType();
				if (from->isIntegerType() && to->isIntegerType() &&
					!isa<IntegerLiteral>(stripAll(C->getSubExpr())) &&
					(Ctx.getTypeSize(from) != Ctx.getTypeSize(to) ||
					from->isSignedIntegerType() != to->isSignedIntegerType()))
				{
					return "{\"k\":\"cast\",\"imp\":1" + T(C) + ",\"e\":" + expr(C->getSubExpr()) + "}";
				}
			}
			return expr(C->getSubExpr());
		}
		// literals
		if (auto *I = dyn_cast<IntegerLiteral>(E))
		{
			llvm::APSInt v(I->getValue(), !I->getType()->isSignedIntegerType());
			return intlit(v, E, false);
		}
		if (auto *B = dyn_cast<CXXBoolLiteralExpr>(E))
			return std::string("{\"k\":\"bool\",\"v\":") + (B->getValue() ? "true" : "false") + "}";
		if (auto *S = dyn_cast<StringLiteral>(E))
		{
			if (S->getCharByteWidth() == 1)
				return "{\"k\":\"str\",\"v\":" + jstr(S->getString()) + "}";
			return "{\"k\":\"str\",\"v\":\"?\"}";
		}
		if (auto *Ch = dyn_cast<CharacterLiteral>(E))
			return "{\"k\":\"int\",\"v\":" + std::to_string(Ch->getValue()) + ",\"ch\":1" + T(E) + "}";
		if (isa<CXXNullPtrLiteralExpr>(E) || isa<GNUNullExpr>(E))
			return "{\"k\":\"null\"}";
		if (auto *F = dyn_cast<FloatingLiteral>(E))
		{
			llvm::SmallString<32> s;
			F->getValue().toString(s);
			return "{\"k\":\"float\",\"v\":" + jstr(s) + "}";
		}
		if (isa<CXXThisExpr>(E))
			return "{\"k\":\"this\"}";
		// macro folds
		if (auto *CO = dyn_cast<ConditionalOperator>(E))
		{
			// assert(c): (static_cast<bool>(c) ? void(0) : __assert_fail(...))
			if (auto *FC = dyn_cast_or_null<CallExpr>(stripAll(CO->getFalseExpr())))
				if (auto *FD = FC->getDirectCallee())
					if (FD->getIdentifier() && FD->getName() == "__assert_fail")
					{
						const Expr *c = stripAll(CO->getCond());
						while (auto *XC = dyn_cast_or_null<ExplicitCastExpr>(c))
							c = stripAll(XC->getSubExpr());
						return "{\"k\":\"assert\",\"c\":" + expr(c) + L(E) + "}";
					}
			// mpz_sgn(Z)
			if (auto *BO = dyn_cast_or_null<BinaryOperator>(stripAll(CO->getCond())))
				if (BO->getOpcode() == BO_LT)
					if (auto *M = asMpSize(BO->getLHS()))
						if (macroNameContains(E->getBeginLoc(), "mpz_sgn") || macroNameContains(E->getBeginLoc(), "mpz_cmp"))
							return "{\"k\":\"call\",\"f\":\"mpz_sgn\",\"a\":[" + expr(M->getBase()) + "],\"t\":\"int\"" + L(E) + "}";
			// __builtin_constant_p selections (mpz_cmp_ui, mpz_cmp_si): both arms are
			// semantically equal, keep the general one
			if (containsBuiltinConstantP(CO->getCond()))
				return expr(CO->getFalseExpr());
		}
		if (auto *BO = dyn_cast<BinaryOperator>(E))
		{
			if (BO->getOpcode() == BO_And)
				if (auto *NE = dyn_cast_or_null<BinaryOperator>(stripAll(BO->getLHS())))
					if (NE->getOpcode() == BO_NE)
						if (auto *M = asMpSize(NE->getLHS()))
							return "{\"k\":\"call\",\"f\":\"mpz_odd_p\",\"a\":[" + expr(M->getBase()) + "],\"t\":\"int\"" + L(E) + "}";
		}
		// constant folding of non-literal integer constant expressions
		if (!E->isValueDependent() && E->getType()->isIntegralOrEnumerationType() &&
			!isa<CallExpr>(E) && !isa<DeclRefExpr>(E))
		{
			Expr::EvalResult R;
			if (E->EvaluateAsInt(R, Ctx, Expr::SE_NoSideEffects) && !R.HasSideEffects)
				return intlit(R.Val.getInt(), E, true);
		}
		if (auto *DR = dyn_cast<DeclRefExpr>(E))
		{
			const ValueDecl *D = DR->getDecl();
			if (auto *EC = dyn_cast<EnumConstantDecl>(D))
				return "{\"k\":\"int\",\"v\":" + llvm::toString(EC->getInitVal(), 10) + ",\"n\":" + jstr(qname(EC)) + T(E) + "}";
			if (auto *FD = dyn_cast<FunctionDecl>(D))
				return "{\"k\":\"fn\",\"f\":" + jstr(normCallee(qname(FD))) + "}";
			std::string o = "{\"k\":\"var\",\"n\":" + jstr(D->getNameAsString()) + ",\"id\":" + std::to_string(id(D)) + T(E);
			if (auto *VD = dyn_cast<VarDecl>(D))
			{
				if (isa<ParmVarDecl>(VD))
					o += ",\"p\":1";
				else if (!VD->isLocalVarDecl())
					o += ",\"g\":" + jstr(qname(VD));
				else if (VD->isStaticLocal())
					o += ",\"sl\":1";
			}
			return o + "}";
		}
		if (auto *ME = dyn_cast<MemberExpr>(E))
		{
			const ValueDecl *D = ME->getMemberDecl();
			std::string o = "{\"k\":\"mem\",\"n\":" + jstr(D->getNameAsString());
			if (auto *FD = dyn_cast<FieldDecl>(D))
				o += ",\"c\":" + jstr(qname(FD->getParent()));
			else if (auto *MD = dyn_cast<CXXMethodDecl>(D))
				o += ",\"c\":" + jstr(qname(MD->getParent()));
			else if (auto *VD = dyn_cast<VarDecl>(D))
				o += ",\"g\":" + jstr(qname(VD));
			o += ",\"o\":" + expr(ME->getBase());
			if (ME->isArrow())
				o += ",\"arrow\":1";
			o += T(E);
			return o + "}";
		}
		if (auto *OC = dyn_cast<CXXOperatorCallExpr>(E))
		{
			std::string f = "?";
			if (auto *FD = OC->getDirectCallee())
				f = qname(FD);
			std::vector<const Expr*> a(OC->arg_begin(), OC->arg_end());
			return "{\"k\":\"opcall\",\"op\":" + jstr(getOperatorSpelling(OC->getOperator())) + ",\"f\":" + jstr(f) +
				",\"a\":" + exprs(a) + T(E) + L(E) + "}";
		}
		if (auto *MC = dyn_cast<CXXMemberCallExpr>(E))
		{
			std::string f = "?";
			const CXXMethodDecl *MD = MC->getMethodDecl();
			if (MD)
				f = qname(MD);
			std::vector<const Expr*> a(MC->arg_begin(), MC->arg_end());
			std::string o = "{\"k\":\"mcall\",\"f\":" + jstr(f) + ",\"o\":" + expr(MC->getImplicitObjectArgument()) +
				",\"a\":" + exprs(a);
			if (MD && MD->isVirtual())
				o += ",\"virt\":1";
			if (MD)
				o += ",\"fid\":" + jstr(funcKey(MD));
			return o + T(E) + L(E) + "}";
		}
		if (auto *CE = dyn_cast<CallExpr>(E))
		{
			std::string f = "?";
			std::string fid;
			if (auto *FD = CE->getDirectCallee())
			{
				f = normCallee(qname(FD));
				fid = funcKey(FD);
			}
			std::vector<const Expr*> a(CE->arg_begin(), CE->arg_end());
			std::string o = "{\"k\":\"call\",\"f\":" + jstr(f) + ",\"a\":" + exprs(a);
			if (f == "?")
				o += ",\"fe\":" + expr(CE->getCallee());
			else
				o += ",\"fid\":" + jstr(fid);
			if (auto *FD = CE->getDirectCallee())
				if (FD->isVariadic())
					o += ",\"va\":" + std::to_string(FD->getNumParams());
			return o + T(E) + L(E) + "}";
		}
		if (auto *CC = dyn_cast<CXXConstructExpr>(E))
		{
			std::vector<const Expr*> a(CC->arg_begin(), CC->arg_end());
			const CXXConstructorDecl *CD = CC->getConstructor();
			if (CD->isCopyOrMoveConstructor() && a.size() == 1)
				return expr(a[0]);
			return "{\"k\":\"ctor\",\"f\":" + jstr(qname(CD->getParent())) + ",\"fid\":" + jstr(funcKey(CD)) +
				",\"a\":" + exprs(a) + T(E) + L(E) + "}";
		}
		if (auto *BO = dyn_cast<BinaryOperator>(E))
		{
			std::string o = "{\"k\":\"bin\",\"op\":" + jstr(BO->getOpcodeStr()) + ",\"a\":[" + expr(BO->getLHS()) + "," +
				expr(BO->getRHS()) + "]" + T(E);
			if (auto *CAO = dyn_cast<CompoundAssignOperator>(BO))
				o += ",\"ct\":" + jstr(cty(CAO->getComputationResultType()));
			return o + L(E) + "}";
		}
		if (auto *UO = dyn_cast<UnaryOperator>(E))
		{
			std::string op = UnaryOperator::getOpcodeStr(UO->getOpcode()).str();
			if (UO->isPostfix())
				op = "post" + op;
			return "{\"k\":\"un\",\"op\":" + jstr(op) + ",\"a\":[" + expr(UO->getSubExpr()) + "]" + T(E) + L(E) + "}";
		}
		if (auto *AS = dyn_cast<ArraySubscriptExpr>(E))
			return "{\"k\":\"idx\",\"a\":[" + expr(AS->getBase()) + "," + expr(AS->getIdx()) + "]" + T(E) + L(E) + "}";
		if (auto *CO = dyn_cast<ConditionalOperator>(E))
			return "{\"k\":\"cond\",\"a\":[" + expr(CO->getCond()) + "," + expr(CO->getTrueExpr()) + "," +
				expr(CO->getFalseExpr()) + "]" + T(E) + L(E) + "}";
		if (auto *XC = dyn_cast<ExplicitCastExpr>(E))
		{
			if (auto *FC = dyn_cast<CXXFunctionalCastExpr>(XC))
				if (isa<CXXConstructExpr>(stripAll(FC->getSubExpr())))
					return expr(FC->getSubExpr());
			return "{\"k\":\"cast\"" + T(E) + ",\"e\":" + expr(XC->getSubExpr()) + "}";
		}
		if (auto *TH = dyn_cast<CXXThrowExpr>(E))
		{
			std::string o = "{\"k\":\"throw\",\"e\":" + expr(TH->getSubExpr());
			if (TH->getSubExpr())
				o += ",\"tt\":" + jstr(cty(TH->getSubExpr()->getType()));
			return o + L(E) + "}";
		}
		if (auto *NE = dyn_cast<CXXNewExpr>(E))
		{
			std::string o = "{\"k\":\"new\",\"at\":" + jstr(cty(NE->getAllocatedType()));
			if (NE->isArray() && NE->getArraySize())
				o += ",\"n\":" + expr(*NE->getArraySize());
			if (NE->getInitializer())
				o += ",\"init\":" + expr(NE->getInitializer());
			return o + T(E) + L(E) + "}";
		}
		if (auto *DE = dyn_cast<CXXDeleteExpr>(E))
			return std::string("{\"k\":\"delete\",\"arr\":") + (DE->isArrayForm() ? "1" : "0") + ",\"a\":[" + expr(DE->getArgument()) + "]" + L(E) + "}";
		if (auto *UE = dyn_cast<UnaryExprOrTypeTraitExpr>(E))
		{
			std::string o = "{\"k\":\"sizeof\"";
			if (UE->isArgumentType())
				o += ",\"at\":" + jstr(cty(UE->getArgumentType()));
			else
				o += ",\"e\":" + expr(UE->getArgumentExpr());
			return o + "}";
		}
		if (auto *LE = dyn_cast<LambdaExpr>(E))
		{
			// a lambda: parameters and body, so that std::all_of / any_of / for_each over a
			// container can be read as the loop they are
			std::string o = "{\"k\":\"lambda\",\"params\":[";
			bool first = true;
			if (const CXXMethodDecl *CO = LE->getCallOperator())
				for (auto *P : CO->parameters())
				{
					if (!first) o += ",";
					first = false;
					o += "{\"n\":" + jstr(P->getNameAsString()) + ",\"id\":" + std::to_string(id(P)) + ",\"t\":" + jstr(cty(P->getType())) + "}";
				}
			o += "],\"b\":" + stmt(LE->getBody()) + T(E) + L(E) + "}";
			return o;
		}
		if (auto *IL = dyn_cast<InitListExpr>(E))
		{
			std::vector<const Expr*> a(IL->inits().begin(), IL->inits().end());
			return "{\"k\":\"init\",\"a\":" + exprs(a) + T(E) + "}";
		}
		if (auto *SI = dyn_cast<CXXStdInitializerListExpr>(E))
			return expr(SI->getSubExpr());
		if (isa<CXXScalarValueInitExpr>(E) || isa<ImplicitValueInitExpr>(E))
			return "{\"k\":\"int\",\"v\":0,\"zi\":1" + T(E) + "}";
		if (auto *SE = dyn_cast<StmtExpr>(E))
			return "{\"k\":\"stmtexpr\",\"b\":" + stmt(SE->getSubStmt()) + "}";
		// fallback
		std::string o = std::string("{\"k\":\"unk\",\"c\":") + jstr(E->getStmtClassName()) + ",\"a\":[";
		bool first = true;
		for (const Stmt *c : E->children())
		{
			if (!first) o += ",";
			first = false;
			if (auto *ce = dyn_cast_or_null<Expr>(c))
				o += expr(ce);
			else
				o += stmt(c);
		}
		return o + "]" + T(E) + L(E) + "}";
	}

	bool macroNameContains(SourceLocation Loc, const char *needle)
	{
		while (Loc.isMacroID())
		{
			if (!SM.isMacroArgExpansion(Loc))
			{
				std::string n = Lexer::getImmediateMacroName(Loc, SM, Ctx.getLangOpts()).str();
				if (n.find(needle) != std::string::npos)
					return true;
			}
			Loc = SM.getImmediateExpansionRange(Loc).getBegin();
		}
		return false;
	}

	std::string funcKey(const FunctionDecl *FD)
	{
		// qualified name + parameter types: a stable overload-resolving key
		std::string s = normCallee(qname(FD)) + "(";
		bool first = true;
		for (auto *P : FD->parameters())
		{
			if (!first) s += ",";
			first = false;
			s += cty(P->getType());
		}
		s += ")";
		if (auto *MD = dyn_cast<CXXMethodDecl>(FD))
			if (MD->isConst())
				s += "const";
		return s;
	}

	std::string vardecl(const VarDecl *VD)
	{
		std::string o = "{\"n\":" + jstr(VD->getNameAsString()) + ",\"id\":" + std::to_string(id(VD)) +
			",\"t\":" + jstr(cty(VD->getType()));
		if (VD->isStaticLocal())
			o += ",\"sl\":1";
		if (auto *AT = dyn_cast<VariableArrayType>(VD->getType().getTypePtr()))
			o += ",\"vla\":" + expr(AT->getSizeExpr());
		else if (auto *CT = dyn_cast<ConstantArrayType>(VD->getType().getCanonicalType().getTypePtr()))
			o += ",\"alen\":" + llvm::toString(CT->getSize(), 10, false);
		if (VD->hasInit())
			o += ",\"init\":" + expr(VD->getInit());
		return o + "}";
	}

	std::string stmt(const Stmt *S)
	{
		if (!S)
			return "null";
		if (auto *E = dyn_cast<Expr>(S))
			return expr(E);
		if (auto *C = dyn_cast<CompoundStmt>(S))
		{
			std::string o = "{\"k\":\"block\",\"s\":[";
			bool first = true;
			for (const Stmt *c : C->body())
			{
				if (!first) o += ",";
				first = false;
				o += stmt(c);
			}
			return o + "]}";
		}
		if (auto *I = dyn_cast<IfStmt>(S))
		{
			std::string o = "{\"k\":\"if\"";
			if (I->getInit())
				o += ",\"init\":" + stmt(I->getInit());
			if (I->getConditionVariableDeclStmt())
				o += ",\"cv\":" + stmt(I->getConditionVariableDeclStmt());
			o += ",\"c\":" + expr(I->getCond()) + ",\"t\":" + stmt(I->getThen()) + ",\"e\":" + stmt(I->getElse());
			return o + L(S) + "}";
		}
		if (auto *W = dyn_cast<WhileStmt>(S))
			return "{\"k\":\"while\",\"c\":" + expr(W->getCond()) + ",\"b\":" + stmt(W->getBody()) + L(S) + "}";
		if (auto *D = dyn_cast<DoStmt>(S))
			return "{\"k\":\"do\",\"c\":" + expr(D->getCond()) + ",\"b\":" + stmt(D->getBody()) + L(S) + "}";
		if (auto *F = dyn_cast<ForStmt>(S))
			return "{\"k\":\"for\",\"i\":" + stmt(F->getInit()) + ",\"c\":" + expr(F->getCond()) + ",\"n\":" +
				expr(F->getInc()) + ",\"b\":" + stmt(F->getBody()) + L(S) + "}";
		if (auto *F = dyn_cast<CXXForRangeStmt>(S))
			return "{\"k\":\"forrange\",\"v\":" + vardecl(F->getLoopVariable()) + ",\"r\":" + expr(F->getRangeInit()) +
				",\"b\":" + stmt(F->getBody()) + L(S) + "}";
		if (auto *SW = dyn_cast<SwitchStmt>(S))
			return "{\"k\":\"switch\",\"c\":" + expr(SW->getCond()) + ",\"b\":" + stmt(SW->getBody()) + L(S) + "}";
		if (auto *CS = dyn_cast<CaseStmt>(S))
		{
			std::string o = "{\"k\":\"case\",\"v\":" + expr(CS->getLHS());
			if (CS->getRHS())
				o += ",\"v2\":" + expr(CS->getRHS());
			return o + ",\"s\":" + stmt(CS->getSubStmt()) + L(S) + "}";
		}
		if (auto *DS = dyn_cast<DefaultStmt>(S))
			return "{\"k\":\"default\",\"s\":" + stmt(DS->getSubStmt()) + L(S) + "}";
		if (isa<BreakStmt>(S))
			return "{\"k\":\"break\"" + L(S) + "}";
		if (isa<ContinueStmt>(S))
			return "{\"k\":\"continue\"" + L(S) + "}";
		if (auto *R = dyn_cast<ReturnStmt>(S))
			return "{\"k\":\"return\",\"e\":" + expr(R->getRetValue()) + L(S) + "}";
		if (auto *DS = dyn_cast<DeclStmt>(S))
		{
			std::string o = "{\"k\":\"decl\",\"v\":[";
			bool first = true;
			for (const Decl *D : DS->decls())
				if (auto *VD = dyn_cast<VarDecl>(D))
				{
					if (!first) o += ",";
					first = false;
					o += vardecl(VD);
				}
			return o + "]" + L(S) + "}";
		}
		if (auto *TS = dyn_cast<CXXTryStmt>(S))
		{
			std::string o = "{\"k\":\"try\",\"b\":" + stmt(TS->getTryBlock()) + ",\"h\":[";
			for (unsigned i = 0; i < TS->getNumHandlers(); i++)
			{
				const CXXCatchStmt *H = TS->getHandler(i);
				if (i) o += ",";
				o += "{\"t\":" + (H->getExceptionDecl() ? jstr(cty(H->getCaughtType())) : std::string("\"...\""));
				if (H->getExceptionDecl() && H->getExceptionDecl()->getIdentifier())
					o += ",\"v\":" + vardecl(H->getExceptionDecl());
				o += ",\"b\":" + stmt(H->getHandlerBlock()) + "}";
			}
			return o + "]" + L(S) + "}";
		}
		if (isa<NullStmt>(S))
			return "{\"k\":\"block\",\"s\":[]}";
		if (auto *G = dyn_cast<GotoStmt>(S))
			return "{\"k\":\"goto\",\"n\":" + jstr(G->getLabel()->getNameAsString()) + L(S) + "}";
		if (auto *LS = dyn_cast<LabelStmt>(S))
			return "{\"k\":\"label\",\"n\":" + jstr(LS->getName()) + ",\"s\":" + stmt(LS->getSubStmt()) + L(S) + "}";
		if (auto *AS = dyn_cast<AttributedStmt>(S))
			return stmt(AS->getSubStmt());
		return std::string("{\"k\":\"unkstmt\",\"c\":") + jstr(S->getStmtClassName()) + L(S) + "}";
	}

	std::string access(AccessSpecifier A)
	{
		switch (A)
		{
			case AS_public: return "public";
			case AS_protected: return "protected";
			case AS_private: return "private";
			default: return "none";
		}
	}

	std::string funcHeader(const FunctionDecl *FD)
	{
		std::string o = "\"q\":" + jstr(normCallee(qname(FD))) + ",\"key\":" + jstr(funcKey(FD)) +
			",\"file\":" + jstr(fileOf(FD->getLocation())) + ",\"line\":" + std::to_string(lineOf(FD->getBeginLoc())) +
			",\"end\":" + std::to_string(lineOf(FD->getEndLoc())) + ",\"ret\":" + jstr(cty(FD->getReturnType()));
		std::string kind = "func";
		if (auto *MD = dyn_cast<CXXMethodDecl>(FD))
		{
			kind = "method";
			if (isa<CXXConstructorDecl>(MD)) kind = "ctor";
			else if (isa<CXXDestructorDecl>(MD)) kind = "dtor";
			o += ",\"cls\":" + jstr(qname(MD->getParent())) + ",\"access\":" + jstr(access(MD->getAccess()));
			if (MD->isVirtual()) o += ",\"virt\":1";
			if (MD->isConst()) o += ",\"const\":1";
			if (MD->isStatic()) o += ",\"static\":1";
		}
		if (FD->isOverloadedOperator())
			o += ",\"oper\":" + jstr(getOperatorSpelling(FD->getOverloadedOperator()));
		o += ",\"kind\":" + jstr(kind);
		if (FD->isVariadic()) o += ",\"va\":1";
		// internal linkage (static / anonymous namespace): a helper private to its unit
		if (!isa<CXXMethodDecl>(FD) && !FD->isExternallyVisible()) o += ",\"internal\":1";
		// declaration file(s): where the first declaration lives (header => offered API)
		o += ",\"declfile\":" + jstr(fileOf(FD->getCanonicalDecl()->getLocation()));
		o += ",\"params\":[";
		bool first = true;
		for (auto *P : FD->parameters())
		{
			if (!first) o += ",";
			first = false;
			o += "{\"n\":" + jstr(P->getNameAsString()) + ",\"id\":" + std::to_string(id(P)) + ",\"t\":" + jstr(cty(P->getType()));
			if (P->hasDefaultArg() && !P->hasUninstantiatedDefaultArg() && !P->hasUnparsedDefaultArg())
				o += ",\"def\":" + expr(P->getDefaultArg());
			o += "}";
		}
		o += "]";
		return o;
	}
};

class Visitor : public RecursiveASTVisitor<Visitor>
{
public:
	Dumper D;
	std::vector<std::string> funcs, classes, enums, globals, decls;
	std::set<const Decl*> seen;

	explicit Visitor(ASTContext &C) : D(C) {}
	bool shouldVisitTemplateInstantiations() const { return true; }
	bool shouldVisitImplicitCode() const { return false; }

	bool VisitFunctionDecl(FunctionDecl *FD)
	{
		if (!D.inRoot(FD->getLocation()))
			return true;
		if (FD->isDependentContext())
			return true;
		if (!FD->doesThisDeclarationHaveABody())
		{
			if (seen.insert(FD).second)
				decls.push_back("{" + D.funcHeader(FD) + "}");
			return true;
		}
		if (!seen.insert(FD).second)
			return true;
		std::string o = "{" + D.funcHeader(FD);
		if (auto *CD = dyn_cast<CXXConstructorDecl>(FD))
		{
			o += ",\"inits\":[";
			bool first = true;
			for (auto *I : CD->inits())
			{
				if (!I->isWritten())
					continue;
				if (!first) o += ",";
				first = false;
				std::string m = I->isAnyMemberInitializer() ? I->getAnyMember()->getNameAsString() :
					(I->getBaseClass() ? D.cty(QualType(I->getBaseClass(), 0)) : std::string("?"));
				o += "{\"m\":" + jstr(m) + ",\"base\":" + (I->isBaseInitializer() ? "1" : "0") + ",\"e\":" + D.expr(I->getInit()) + "}";
			}
			o += "]";
		}
		o += ",\"body\":" + D.stmt(FD->getBody()) + "}";
		funcs.push_back(o);
		return true;
	}

	bool VisitCXXRecordDecl(CXXRecordDecl *RD)
	{
		if (!RD->isThisDeclarationADefinition() || !D.inRoot(RD->getLocation()))
			return true;
		if (RD->isDependentContext() || !seen.insert(RD).second)
			return true;
		std::string o = "{\"q\":" + jstr(D.qname(RD)) + ",\"file\":" + jstr(D.fileOf(RD->getLocation())) +
			",\"line\":" + std::to_string(D.lineOf(RD->getLocation())) + ",\"bases\":[";
		bool first = true;
		for (auto &B : RD->bases())
		{
			if (!first) o += ",";
			first = false;
			o += jstr(D.cty(B.getType()));
		}
		o += "],\"fields\":[";
		first = true;
		for (auto *F : RD->fields())
		{
			if (!first) o += ",";
			first = false;
			o += "{\"n\":" + jstr(F->getNameAsString()) + ",\"t\":" + jstr(D.cty(F->getType())) + ",\"access\":" +
				jstr(D.access(F->getAccess())) + "}";
		}
		o += "],\"methods\":[";
		first = true;
		for (auto *M : RD->methods())
		{
			if (M->isImplicit())
				continue;
			if (!first) o += ",";
			first = false;
			o += "{\"q\":" + jstr(D.qname(M)) + ",\"key\":" + jstr(D.funcKey(M)) + ",\"access\":" + jstr(D.access(M->getAccess())) +
				(M->isVirtual() ? ",\"virt\":1" : "") + (M->isPure() ? ",\"pure\":1" : "") + "}";
		}
		o += "]}";
		classes.push_back(o);
		return true;
	}

	bool VisitEnumDecl(EnumDecl *ED)
	{
		if (!ED->isThisDeclarationADefinition() || !D.inRoot(ED->getLocation()) || !seen.insert(ED).second)
			return true;
		std::string o = "{\"q\":" + jstr(D.qname(ED)) + ",\"file\":" + jstr(D.fileOf(ED->getLocation())) + ",\"c\":[";
		bool first = true;
		for (auto *C : ED->enumerators())
		{
			if (!first) o += ",";
			first = false;
			o += "[" + jstr(C->getNameAsString()) + "," + llvm::toString(C->getInitVal(), 10) + "]";
		}
		o += "]}";
		enums.push_back(o);
		return true;
	}

	bool VisitVarDecl(VarDecl *VD)
	{
		if (VD->isLocalVarDeclOrParm() || !D.inRoot(VD->getLocation()))
			return true;
		if (!VD->hasInit() || VD->isInvalidDecl() || VD->getType()->isDependentType() || !seen.insert(VD).second)
			return true;
		std::string o = "{\"q\":" + jstr(D.qname(VD)) + ",\"file\":" + jstr(D.fileOf(VD->getLocation())) +
			",\"line\":" + std::to_string(D.lineOf(VD->getLocation())) + ",\"t\":" + jstr(D.cty(VD->getType())) +
			",\"const\":" + (VD->getType().isConstQualified() || (VD->getType()->isArrayType() &&
				D.Ctx.getBaseElementType(VD->getType()).isConstQualified()) ? "1" : "0") +
			",\"init\":" + D.expr(VD->getInit()) + "}";
		globals.push_back(o);
		return true;
	}
};

class Consumer : public ASTConsumer
{
public:
	void HandleTranslationUnit(ASTContext &Ctx) override
	{
		Visitor V(Ctx);
		V.TraverseDecl(Ctx.getTranslationUnitDecl());
		auto &SM = Ctx.getSourceManager();
		std::string unit = SM.getFileEntryForID(SM.getMainFileID())->getName().str();
		llvm::outs() << "{\"unit\":" << jstr(unit) << ",\n\"functions\":[\n";
		for (size_t i = 0; i < V.funcs.size(); i++)
			llvm::outs() << (i ? ",\n" : "") << V.funcs[i];
		llvm::outs() << "],\n\"decls\":[\n";
		for (size_t i = 0; i < V.decls.size(); i++)
			llvm::outs() << (i ? ",\n" : "") << V.decls[i];
		llvm::outs() << "],\n\"classes\":[\n";
		for (size_t i = 0; i < V.classes.size(); i++)
			llvm::outs() << (i ? ",\n" : "") << V.classes[i];
		llvm::outs() << "],\n\"enums\":[\n";
		for (size_t i = 0; i < V.enums.size(); i++)
			llvm::outs() << (i ? ",\n" : "") << V.enums[i];
		llvm::outs() << "],\n\"globals\":[\n";
		for (size_t i = 0; i < V.globals.size(); i++)
			llvm::outs() << (i ? ",\n" : "") << V.globals[i];
		llvm::outs() << "]}\n";
	}
};

class Action : public ASTFrontendAction
{
public:
	std::unique_ptr<ASTConsumer> CreateASTConsumer(CompilerInstance &, llvm::StringRef) override
	{
		return std::make_unique<Consumer>();
	}
};

} // namespace

int main(int argc, const char **argv)
{
	auto Exp = CommonOptionsParser::create(argc, argv, Cat);
	if (!Exp)
	{
		llvm::errs() << Exp.takeError();
		return 2;
	}
	ClangTool Tool(Exp->getCompilations(), Exp->getSourcePathList());
	return Tool.run(newFrontendActionFactory<Action>().get());
}
