#!/usr/bin/env python3
"""Both-ways self-test of the checkers on scratch copies of /repo/src (never in /repo):
  mutants.json   -- each entry breaks exactly one rule instance; the check must exit 1 and name it
  neutral.json   -- behaviour-preserving edits; the check must stay silent (exit 0)
usage: selftest/run.py [Cxx ...] [case-name ...]   (default: all)
Scratch runs (VERIF_SELFTEST=1) write neither /verif/evidence nor /verif/build/reports."""
import json, os, shutil, subprocess, sys, tempfile

VERIF = os.path.dirname(os.path.dirname(os.path.abspath(__file__)))
REPO = os.environ.get('VERIF_SELFTEST_SRC', '/repo')


def scratch():
    d = tempfile.mkdtemp(prefix='verif-scratch-')
    if REPO.startswith('git:'):
        # sources as committed (tooling only: used while /repo is transiently patched by a seed confirmation)
        subprocess.run('git -C /repo archive %s src | tar -x -C %s' % (REPO[4:], d), shell=True, check=True)
        shutil.copy('/repo/libTMCG_config.h', d)
        return d
    os.makedirs(os.path.join(d, 'src'))
    # tooling only: a seed confirmation may have /repo patched for a moment (tools/confirm_seed.py holds this lock meanwhile)
    import fcntl
    with open('/tmp/confirm-seed.lock', 'w') as lk:
        fcntl.flock(lk, fcntl.LOCK_EX)
        for f in os.listdir(os.path.join(REPO, 'src')):
            if f.endswith(('.cc', '.hh', '.h', '.am')):
                shutil.copy(os.path.join(REPO, 'src', f), os.path.join(d, 'src', f))
        shutil.copy(os.path.join(REPO, 'libTMCG_config.h'), d)
    return d


def apply(d, m):
    if 'edits' in m:
        for ed in m['edits']:
            err = apply(d, ed)
            if err:
                return err
        return None
    p = os.path.join(d, m['file'])
    s = open(p).read()
    cnt = s.count(m['old'])
    nth = m.get('nth')
    if cnt == 0:
        return 'pattern not found'
    if nth is None:
        if cnt != 1 and not m.get('all'):
            return 'pattern matches %d times' % cnt
        s = s.replace(m['old'], m['new'])
    else:
        parts = s.split(m['old'])
        if nth >= len(parts) - 1:
            return 'nth out of range'
        s = m['old'].join(parts[:nth + 1]) + m['new'] + m['old'].join(parts[nth + 1:])
    open(p, 'w').write(s)
    return None


def run_one(m, expect_fire):
    d = scratch()
    try:
        err = apply(d, m)
        if err:
            return False, 'cannot apply: ' + err
        env = dict(os.environ, VERIF_REPO=d, VERIF_SELFTEST='1')
        p = subprocess.run([os.path.join(VERIF, 'check'), m['property'], '--tier', 'quick'], cwd=VERIF, env=env,
                           stdout=subprocess.PIPE, stderr=subprocess.STDOUT, text=True)
        out = p.stdout
        if expect_fire:
            if p.returncode != 1:
                return False, 'expected exit 1, got %d: %s' % (p.returncode, out[-400:])
            if m.get('expect') and m['expect'] not in out:
                return False, 'fired but did not name %s: %s' % (m['expect'], out[-600:])
            return True, 'fired'
        if p.returncode != 0:
            return False, 'expected silence, got exit %d: %s' % (p.returncode, out[-600:])
        return True, 'silent'
    finally:
        shutil.rmtree(d, ignore_errors=True)


def main():
    props = set(a for a in sys.argv[1:] if a.startswith('C') and len(a) == 3)
    names = set(a for a in sys.argv[1:] if a not in props)
    fails = 0
    total = 0
    skipped = 0
    for fn, fire in (('mutants.json', True), ('neutral.json', False)):
        path = os.path.join(VERIF, 'selftest', fn)
        if not os.path.exists(path):
            continue
        for m in json.load(open(path)):
            if props and m['property'] not in props:
                continue
            if names and m['name'] not in names:
                continue
            total += 1
            ok, msg = run_one(m, fire)
            if not ok and msg.startswith('cannot apply'):
                # the text this case edits is not in the current tree (the tree under test differs
                # from the one the case was written for): inconclusive, not a failure of the rules
                skipped += 1
                print('%s %-8s %-40s %s' % ('skip', m['property'], m['name'], msg))
                continue
            print('%s %-8s %-40s %s' % ('ok  ' if ok else 'FAIL', m['property'], m['name'], msg if not ok else msg))
            if not ok:
                fails += 1
    # the confirmed seeded changes (seeded/<id>/patch.diff, written by independent agents) that were
    # recorded as detected by a property's check must still be reported by it
    import glob
    for sd in sorted(glob.glob(os.path.join(VERIF, 'seeded', '*'))):
        try:
            meta = json.load(open(os.path.join(sd, 'meta.json')))
        except Exception:
            continue
        sid = os.path.basename(sd)
        for prop in meta.get('detected_by', []):
            if (props and prop not in props) or (names and sid not in names):
                continue
            total += 1
            d = scratch()
            try:
                pr = subprocess.run(['patch', '-p1', '-s', '-i', os.path.join(sd, 'patch.diff')], cwd=d, stdout=subprocess.PIPE, stderr=subprocess.STDOUT, text=True)
                if pr.returncode != 0:
                    skipped += 1
                    print('%s %-8s %-40s %s' % ('skip', prop, 'seed ' + sid, 'cannot apply to this tree'))
                    continue
                env = dict(os.environ, VERIF_REPO=d, VERIF_SELFTEST='1')
                q = subprocess.run([os.path.join(VERIF, 'check'), prop, '--tier', 'quick'], cwd=VERIF, env=env, stdout=subprocess.PIPE, stderr=subprocess.STDOUT, text=True)
                ok = q.returncode == 1
                print('%s %-8s %-40s %s' % ('ok  ' if ok else 'FAIL', prop, 'seed ' + sid, 'fired' if ok else 'expected exit 1, got %d: %s' % (q.returncode, q.stdout[-300:])))
                if not ok:
                    fails += 1
            finally:
                shutil.rmtree(d, ignore_errors=True)
    print('selftest: %d cases, %d failures, %d skipped' % (total, fails, skipped))
    if total and skipped * 2 > total:
        print('selftest: more than half of the cases do not apply to this tree')
        return 1
    return 1 if fails else 0


if __name__ == '__main__':
    sys.exit(main())
